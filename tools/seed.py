#!/usr/bin/env python3
"""seed.py import <prop> <K> <srcdir>     copy patch.diff/demo.cpp/notes.md to seeded/<prop>-<K>/
   seed.py confirm <name>               scratch worktree: patch applies, test-suite passes with it, demo fails with / passes without
   seed.py detect <name> <check> [...]  apply to /repo, run ./check <check> --tier quick, undo; record in meta.json
"""
import json, os, shutil, subprocess, sys, time
V = os.path.dirname(os.path.dirname(os.path.abspath(__file__)))
REPO = '/repo'

def sh(cmd, **kw):
    p = subprocess.run(cmd, shell=isinstance(cmd, str), stdout=subprocess.PIPE, stderr=subprocess.STDOUT, **kw)
    return p.returncode, p.stdout.decode('utf-8', 'replace')

def meta_path(name): return os.path.join(V, 'seeded', name, 'meta.json')
def load(name):
    p = meta_path(name)
    return json.load(open(p)) if os.path.exists(p) else {'name': name}
def save(name, m): json.dump(m, open(meta_path(name), 'w'), indent=1)

def do_import(prop, k, src):
    name = '%s-%s' % (prop, k)
    d = os.path.join(V, 'seeded', name)
    os.makedirs(d, exist_ok=True)
    for f in ('patch.diff', 'demo.cpp', 'notes.md'):
        shutil.copy(os.path.join(src, f), os.path.join(d, f))
    m = load(name); m.update({'property': prop, 'source': 'independent sub-agent given only the property text and a scratch worktree', 'needs': open(os.path.join(d, 'notes.md')).read()[:1500]})
    save(name, m); print('imported', name)

def confirm(name):
    d = os.path.join(V, 'seeded', name)
    wt = '/tmp/cs-%s-%d' % (name, os.getpid())
    m = load(name)
    rc, out = sh(['git', '-C', REPO, 'worktree', 'add', '-q', wt, 'HEAD'])
    try:
        rc, out = sh(['git', '-C', wt, 'apply', os.path.join(d, 'patch.diff')])
        m['applies_to_repo_head'] = (rc == 0)
        if rc != 0:
            m['confirm_note'] = 'patch does not apply to the current /repo HEAD: ' + out[-300:]
            save(name, m); print(name, 'PATCH DOES NOT APPLY'); return
        # demo against patched / unpatched headers
        rc1, o1 = sh('g++ -std=c++17 -I %s/include %s/demo.cpp -o %s/demo_p && %s/demo_p' % (wt, d, wt, wt)); 
        rc0, o0 = sh('g++ -std=c++17 -I %s/include %s/demo.cpp -o %s/demo_u && %s/demo_u' % (REPO, d, wt, wt))
        m['demo_with_change'] = {'rc': rc1, 'tail': o1[-300:]}
        m['demo_without_change'] = {'rc': rc0, 'tail': o0[-300:]}
        # the repository's test-suite with the change
        t = time.time()
        rc, out = sh('cmake -S %s -B %s/_b -G Ninja -DPEGTL_BUILD_EXAMPLES=OFF >/dev/null && cmake --build %s/_b -j16 2>&1 | tail -2 && ctest --test-dir %s/_b -j8 2>&1 | tail -4' % (wt, wt, wt, wt))
        m['testsuite_with_change'] = out[-400:]
        m['testsuite_passes'] = '100% tests passed' in out
        m['confirmed'] = bool(m['testsuite_passes'] and rc1 != 0 and rc0 == 0)
        m['ran'] = m.get('ran', []) + ['tools/seed.py confirm (worktree of /repo HEAD: git apply, cmake+ctest with the change, demo with/without) %.0fs' % (time.time() - t)]
        save(name, m)
        print(name, 'confirmed' if m['confirmed'] else 'NOT CONFIRMED', 'tests:', m['testsuite_passes'], 'demo with/without rc:', rc1, rc0)
    finally:
        sh(['git', '-C', REPO, 'worktree', 'remove', '--force', wt])

def detect(name, checks):
    d = os.path.join(V, 'seeded', name)
    m = load(name)
    wt = None
    if checks and checks[0] == '--wt':
        # same procedure on a scratch worktree of /repo HEAD (VERIF_REPO points the checks at it), so that /repo itself stays
        # untouched while a long run against /repo is in progress
        checks = checks[1:]
        wt = '/tmp/ds-%s-%d' % (name, os.getpid())
        sh(['git', '-C', REPO, 'worktree', 'add', '-q', wt, 'HEAD'])
    target = wt or REPO
    rc, out = sh(['git', '-C', target, 'status', '--porcelain', '--untracked-files=no'])
    if out.strip():
        print('/repo is not clean'); sys.exit(2)
    rc, out = sh(['git', '-C', target, 'apply', os.path.join(d, 'patch.diff')])
    if rc != 0:
        print('patch does not apply'); sys.exit(2)
    try:
        for c in checks:
            only = None
            if ':' in c:
                c, only = c.split(':', 1)
            env = dict(os.environ)
            if wt:
                env['VERIF_REPO'] = wt
            if only:
                env['VERIF_ONLY'] = only
            t = time.time()
            p = subprocess.run(['./check', c, '--tier', 'quick'], cwd=V, stdout=subprocess.PIPE, stderr=subprocess.PIPE, env=env)
            out = p.stdout.decode()
            viol = [l for l in out.splitlines() if l.startswith('VIOLATION')]
            inc = [l[:200] for l in out.splitlines() if l.startswith('INCONCLUSIVE')]
            r = {'check': c, 'only': only, 'exit': p.returncode, 'violations': len(viol), 'first_violation': viol[:2], 'inconclusive': inc[:3], 'wall_s': round(time.time() - t)}
            m.setdefault('detection', [])
            m['detection'] = [x for x in m['detection'] if not (x['check'] == c and x.get('only') == only)] + [r]
            print(name, c, only or '', 'exit', p.returncode, 'violations', len(viol), 'inconclusive', len(inc))
        m['detected_by'] = sorted({x['check'] for x in m.get('detection', []) if x['exit'] == 1})
        save(name, m)
    finally:
        if wt:
            sh(['git', '-C', REPO, 'worktree', 'remove', '--force', wt])
        else:
            sh(['git', '-C', REPO, 'checkout', '--', '.'])
        sh(['git', '-C', V, 'checkout', '--', 'evidence'])   # evidence of runs on a modified tree is not kept

if __name__ == '__main__':
    a = sys.argv[1:]
    if a[0] == 'import': do_import(a[1], a[2], a[3])
    elif a[0] == 'confirm': confirm(a[1])
    elif a[0] == 'detect': detect(a[1], a[2:])
