#!/bin/sh
# runs every registered check (quick by default) on the current tree and prints one line per property
cd "$(dirname "$0")/.."
TIER=${1:-quick}
for p in $(python3 -c "import json; print(' '.join(c['property_id'] for c in json.load(open('MANIFEST.json'))['checks']))"); do
  s=$(date +%s)
  ./check $p --tier $TIER > /tmp/verif_run_$p.log 2>&1
  rc=$?
  echo "$p exit=$rc wall=$(( $(date +%s) - s ))s $(grep -c '^KNOWN-FINDING' /tmp/verif_run_$p.log) known $(grep -c '^VIOLATION' /tmp/verif_run_$p.log) violations $(grep -c '^INCONCLUSIVE' /tmp/verif_run_$p.log) inconclusive"
done
