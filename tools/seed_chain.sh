#!/bin/sh
# seed_chain.sh <prop> <round> [check...]: import, confirm and detect (on a scratch worktree) the seeds an agent left in /tmp/seed<round>-<prop>/SEED/<K>/
# then removes the agent's worktree. Log: /tmp/chain-<prop>.log
prop=$1; rnd=$2; shift 2; checks=${*:-$prop}
cd "$(dirname "$0")/.."
for k in 1 2; do
  src=/tmp/seed$rnd-$prop/SEED/$k
  [ -f $src/patch.diff ] || continue
  name=$prop-r$rnd-$k
  python3 tools/seed.py import $prop r$rnd-$k $src
  python3 tools/seed.py confirm $name
  VERIF_JOBS=${VERIF_JOBS:-5} python3 tools/seed.py detect $name --wt $checks
done
git -C /repo worktree remove --force /tmp/seed$rnd-$prop
