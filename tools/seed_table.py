#!/usr/bin/env python3
"""regenerates seeded/README.md from seeded/*/meta.json"""
import glob, json, os
V = os.path.dirname(os.path.dirname(os.path.abspath(__file__)))
rows = []
for p in sorted(glob.glob(os.path.join(V, 'seeded', '*', 'meta.json'))):
    m = json.load(open(p))
    first = (m.get('needs', '').strip().splitlines() or [''])
    title = next((l.strip('# ').strip() for l in first if l.strip()), '')[:110]
    det = ', '.join('%s%s: %s' % (d['check'], ('[' + d['only'] + ']') if d.get('only') else '', 'VIOLATION x%d' % d['violations'] if d['exit'] == 1 else 'exit %d' % d['exit']) for d in m.get('detection', []))
    rows.append('| %s | %s | %s | %s | %s | %s |' % (m['name'], m.get('property', ''), 'yes' if m.get('confirmed') else 'NO', title.replace('|', '/'), det or '-', (m.get('history', '') or '').replace('|', '/')[:260]))
out = ['# Seeded changes', '',
       'Each change was written by a fresh sub-agent that saw only the text of one property and a scratch worktree of /repo (nothing from /verif).',
       'It was kept only after `tools/seed.py confirm` re-checked, in a scratch worktree of /repo HEAD, that the patch applies, that the repository\'s test-suite still passes with it (134/134),',
       'and that the demonstration fails with the change and passes without. `tools/seed.py detect` applies the patch to /repo, runs the named quick checks, and undoes it.', '',
       '| seed | property | confirmed | change (first line of the author\'s notes) | detection (quick tier) | history |', '|---|---|---|---|---|---|'] + rows
open(os.path.join(V, 'seeded', 'README.md'), 'w').write('\n'.join(out) + '\n')
print(len(rows), 'seeds')
