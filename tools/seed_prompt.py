#!/usr/bin/env python3
"""seed_prompt.py <prop> <round> -> writes /tmp/seed<round>_prompt_<prop>.txt and prints the worktree path to create.
The prompt contains ONLY the text of the property (from properties.jsonl) and one-line descriptions of the changes already tried
for it (first line of seeded/<prop>-*/notes.md); nothing else from /verif."""
import glob, json, os, sys
V = os.path.dirname(os.path.dirname(os.path.abspath(__file__)))
prop, rnd = sys.argv[1], sys.argv[2]
wt = '/tmp/seed%s-%s' % (rnd, prop)
p = [json.loads(l) for l in open(os.path.join(V, 'properties.jsonl')) if json.loads(l)['id'] == prop][0]
t = open(os.path.join(V, 'tools', 'seed_prompt_template.txt')).read()
tried = []
for d in sorted(glob.glob(os.path.join(V, 'seeded', prop + '-*'))):
    try:
        first = next(l.strip('# ').strip() for l in open(os.path.join(d, 'notes.md')) if l.strip())
    except (OSError, StopIteration):
        continue
    tried.append('  - ' + first[:160])
block = ''
if tried:
    block = ('ALREADY TRIED by others for this property (do NOT repeat these or close variants; choose a different file, mechanism or rule family):\n'
             + '\n'.join(tried) + '\n\n')
t = t.replace('PROPTEXT', json.dumps(p, indent=1) + '\n\n' + block.rstrip('\n')).replace('WORKTREE', wt)
out = '/tmp/seed%s_prompt_%s.txt' % (rnd, prop)
open(out, 'w').write(t)
print(out, wt)
