"""C03 — no rule reads or consumes outside the bounds of the input."""
import os
import vf
import leafgen
from props import C10

LEVEL_TEXT = ('bounded symbolic model checking of memory safety: every function of the library that dereferences input memory (all peek_* families via their '
              'rules, string/istring/bytes, eol policies, integer matchers, rep_one_min_max, predicates, until/eolf scanning, rematch sub-inputs, '
              'limit_bytes windows), compiled from the real headers, is run (a) on an exact-size heap object of symbolic length without terminator, where CBMC\'s '
              'pointer checks flag any read at or beyond the end or before the beginning and the cursor is asserted to stay within [begin,end]; and (b) as a '
              'window inside a larger object, where the bytes at and beyond the logical end are proved not to influence result or consumption')
ASSUMPTIONS = ['combinators (seq, sor, star, ...) never touch input bytes themselves: they are covered through C01/C09 where the cursor is asserted to stay inside the input',
               'grammars too large for CBMC as a whole (json, uri, http) are covered through the leaf rules and combinators they are built from']

EXACT = r'''/* generated harness (C03/exact): rules on an exact-size heap object; any access at/after the end is a CBMC bounds violation */
#define VF_ALPHABET "%(alphabet)s"
#include "verif.h"
#include "leaf.h"
#define NA %(NA)d
static void harness(void) {
  lf_setup(NA);
  u64 o[8];
%(calls)s
  REACH(lf_n == NA && lf_start == 0, "full-length buffer");
  REACH(lf_n == 0, "empty buffer");
  REACH(lf_start == lf_n && lf_n > 0, "cursor at the very end");
}
'''

WINDOW = r'''/* generated harness (C03/window): logical end inside a larger object; bytes at/after the end must not influence anything */
#define VF_ALPHABET "%(alphabet)s"
#include "verif.h"
#include "leaf.h"
#define NA %(NA)d
#define PAD 3
static void harness(void) {
  u64 n = IN(0, NA);
  u64 start = IN(0, n);
  u8 *b1 = (u8 *)exact_alloc(NA + PAD), *b2 = (u8 *)exact_alloc(NA + PAD);
  for (u64 i = 0; i < NA + PAD; ++i) { u8 v = IN_BYTE(), w = IN_BYTE(); b1[i] = v; b2[i] = (i < n) ? v : w; }
  u64 o1[8], o2[8];
  int differ = 0;
  for (u64 i = 0; i < NA + PAD; ++i) if (b1[i] != b2[i]) differ = 1;
%(calls)s
  REACH(differ && n < NA, "tails differ");
}
'''


def exact_calls(cases, modes=('ar', 'ao')):
    L = []
    for c in cases:
        for m in modes:
            L.append('#if !defined(VF_SPLIT) || defined(V_%s)\n  w_%s_%s(lf_buf, lf_n, lf_start, o); CHECK(o[1] <= lf_n && o[1] >= lf_start, "cursor stays inside the input (%s)"); OBS(o[0]); OBS(o[1]);\n#endif'
                     % (c['name'], c['name'], m, c['name']))
        L.append('#if !defined(VF_SPLIT) || defined(V_%s)\n  REACH(o[0] == 1, "%s matched");\n#endif' % (c['name'], c['name']) if c.get('can_match', True) else '')
    return '\n'.join(L)


def window_calls(cases):
    L = []
    for c in cases:
        L.append('#if !defined(VF_SPLIT) || defined(V_%s)\n  w_%s_ar(b1, n, start, o1); w_%s_ar(b2, n, start, o2);\n'
                 '  CHECK(o1[0] == o2[0] && o1[1] == o2[1], "bytes at or beyond the logical end do not influence result or consumption (%s)");\n'
                 '  CHECK(o1[1] <= n, "cursor never past the logical end (%s)"); OBS(o1[0]); OBS(o1[1]);\n#endif' % (c['name'], c['name'], c['name'], c['name'], c['name']))
    return '\n'.join(L)


def extra_groups():
    """rules outside C10's single-unit families that read input memory"""
    G = []

    def grp(name, cases, includes=(), input_t=None, alphabet='ab\\n\\r01 '):
        for c in cases:
            c.setdefault('k', 2)
        G.append({'name': name, 'cases': cases, 'includes': list(includes), 'input_t': input_t, 'alphabet': alphabet})

    grp('bytes', [{'name': 'bytes0', 'cxx': 'bytes< 0 >'}, {'name': 'bytes1', 'cxx': 'bytes< 1 >'}, {'name': 'bytes3', 'cxx': 'bytes< 3 >'},
                  {'name': 'string4', 'cxx': "string< 'a', 'b', 'a', 'b' >"}, {'name': 'istring4', 'cxx': "istring< 'a', 'b', 'a', 'b' >"},
                  {'name': 'everything', 'cxx': 'internal::everything< std::size_t >', 'can_match': True}], includes=['tao/pegtl/internal/everything.hpp'], alphabet='abAB')
    for pol in ('lf', 'cr', 'crlf', 'lf_crlf', 'cr_crlf'):
        grp('eol_' + pol, [{'name': 'eol', 'cxx': 'eol'}, {'name': 'eolf', 'cxx': 'eolf'}, {'name': 'until_eol', 'cxx': 'until< eol >'},
                           {'name': 'until_eolf', 'cxx': 'until< eolf >'}, {'name': 'bol_any', 'cxx': 'seq< bol, any >'}],
            input_t='tao::pegtl::memory_input< tao::pegtl::tracking_mode::eager, tao::pegtl::eol::%s, const char* >' % pol, alphabet='\\r\\na')
    grp('integer', [{'name': 'unsigned_rule', 'cxx': 'unsigned_rule'}, {'name': 'max_u8', 'cxx': 'maximum_rule< std::uint8_t >'},
                    {'name': 'max_u16_999', 'cxx': 'maximum_rule< std::uint16_t, 999 >'}, {'name': 'max_u64', 'cxx': 'maximum_rule< std::uint64_t >'}],
        includes=['tao/pegtl/contrib/integer.hpp'], alphabet='0129')
    grp('rep_one', [{'name': 'r02', 'cxx': "rep_one_min_max< 0, 2, 'a' >"}, {'name': 'r13', 'cxx': "rep_one_min_max< 1, 3, 'a' >"}, {'name': 'r33', 'cxx': "rep_one_min_max< 3, 3, '\\n' >"},
                    {'name': 'ellipsis', 'cxx': 'ellipsis'}, {'name': 'pred', 'cxx': "predicates_and< range< 'a', 'z' >, not_one< 'q' > >"},
                    {'name': 'upred', 'cxx': "utf8::predicates_or< utf8::one< 0xe4 >, utf8::range< 0x100, 0x10ffff > >"}],
        includes=['tao/pegtl/contrib/rep_one_min_max.hpp', 'tao/pegtl/contrib/predicates.hpp'], alphabet='aaq\\n\\xc3\\xa4')
    grp('subinput', [{'name': 'rematch_any', 'cxx': "rematch< rep< 2, any >, two< 'a' > >"}, {'name': 'rematch_until', 'cxx': "rematch< until< one< 'b' > >, star< one< 'a' > >, string< 'a', 'b' > >"},
                     {'name': 'minus', 'cxx': "minus< plus< one< 'a' > >, string< 'a', 'a' > >"},
                     ], alphabet='aab\\xc3\\xa4')
    grp('rawstr', [{'name': 'raw_string', 'cxx': "raw_string< '[', '=', ']' >"}, {'name': 'raw_string_any', 'cxx': "raw_string< '[', '=', ']', any >"},
                   {'name': 'raw_string_custom', 'cxx': "raw_string< '{', '#', '}', not_one< 'x' > >", 'can_match': True}],
        includes=['tao/pegtl/contrib/raw_string.hpp'], alphabet='[[=]]{#}\\nax')
    grp('scan', [{'name': 'star_any', 'cxx': 'star< any >'}, {'name': 'until_b', 'cxx': "until< one< 'b' > >"}, {'name': 'identifier', 'cxx': 'identifier'},
                 {'name': 'keyword', 'cxx': "keyword< 'a', 'b' >"}, {'name': 'shebang', 'cxx': 'shebang'}, {'name': 'plus_utf8', 'cxx': 'plus< utf8::range< 0x80, 0x10ffff > >'}], alphabet='ab#!\\n\\xc3\\xa4')
    return G


def plan(ctx):
    thorough = not ctx.quick()
    qs = []
    groups = [dict(g, src='c10') for g in C10.all_groups(thorough) if not g.get('expect_fail')] + [dict(g, src='c03') for g in extra_groups()]
    expanded = []
    for g in groups:
        if g['src'] == 'c03':
            # one unit per rule: a genuinely defective rule must not spoil the translation validation of its neighbours
            for c in g['cases']:
                expanded.append(dict(g, name=g['name'] + '_' + c['name'], tag=g['name'] + '/' + c['name'], cases=[c]))
        else:
            expanded.append(dict(g, tag=g['name']))
    for g in expanded:
        k = max(c['k'] for c in g['cases'])
        NA = k + (3 if thorough else 1) if g['src'] == 'c10' else (5 if thorough else 4)
        unit = ctx.unit('c03_' + g['name'], text=leafgen.wrapper_text(g['cases'], includes=g.get('includes', ()), input_t=g.get('input_t')))
        alphabet = g.get('alphabet', 'ab\\n\\r01 ')
        he = ctx.write('c03_exact_%s.c' % g['name'], EXACT % {'alphabet': alphabet, 'NA': NA, 'calls': exact_calls(g['cases'])})
        hw = ctx.write('c03_window_%s.c' % g['name'], WINDOW % {'alphabet': alphabet, 'NA': NA, 'calls': window_calls(g['cases'])})
        heavy = g['src'] == 'c03'
        rules = [c['cxx'] for c in g['cases']]
        qs.append(vf.Query('exact/' + g['tag'], unit, he, unwind=NA + 3, mem_gb=4 if heavy else 2,
                           bounds={'bytes': NA, 'rules': rules, 'buffer': 'exact-size heap object, no terminator'}, validate_iters=5000,
                           note='memory safety of %s on an exact-size buffer' % ', '.join(rules)))
        qs.append(vf.Query('window/' + g['tag'], unit, hw, unwind=NA + 4, mem_gb=4 if heavy else 2,
                           bounds={'bytes': NA, 'rules': rules, 'buffer': 'logical end inside a larger object (+3 bytes)'}, validate_iters=5000,
                           note='non-interference of bytes beyond the logical end for %s' % ', '.join(rules)))
    # http chunk matchers (hand-written match functions that take the announced size as a state; the size is any 64-bit value)
    hu = ctx.unit('c03_http', cpp=os.path.join(vf.VERIF, 'harness', 'c02_http.cpp'))
    for sel in ('chunk_size', 'chunk_data'):
        qs.append(vf.Query('http/' + sel, hu, os.path.join(vf.VERIF, 'harness', 'c02_http.c'), defines={'NA': 4}, cbmc_defines={'VF_SPLIT': 1, 'V_' + sel: 1},
                           unwind=7, mem_gb=4, bounds={'bytes': 4, 'rule': 'http::' + sel, 'announced_size': 'any 64-bit value'},
                           note='http::%s on an exact-size buffer: cursor stays inside the input' % sel))
    return qs
