"""C10 — character-class and encoding rules accept exactly the documented sets.

Every rule instantiation below is compiled from the real headers (wrapper TU generated here), run on a fully symbolic buffer
(length n symbolic in 0..k+1 with k the size of the largest unit of the group, start offset symbolic, every byte symbolic, exact-size
heap object so that any over-read is a bounds violation) and compared by CBMC with a specification that is derived in this
file from the *documentation* (doc/Rule-Reference.md, RFC 5234 appendix B) and from the Unicode standard (harness/c10_spec.h),
never from the implementation: byte sets as Python sets rendered to plain interval tests, UTF-8 by Table 3-7, UTF-16 by
surrogate arithmetic, UTF-32 as scalar values, uintN by shift/or in both byte orders, masks by `&`.

One unit and one query per small group of rules of equal unit size.  Cost notes (measured): a heap buffer of *symbolic* size makes
the formula grow quadratically with the number of rule calls in a query (array theory); c10_setup() therefore case-splits the
length into one constant-size object per length (linear growth, 10 rules x 4 modes in 5..15 s) and the specification reads a
fixed-size shadow copy of the drawn bytes instead of the heap object.
"""
import os
import re
import string
import sys
import vf
import leafgen

LEVEL_TEXT = ('bounded symbolic equivalence, complete over the data: every listed single-unit rule instantiation (ASCII classes, one/range/ranges '
              'families, string/istring, RFC 5234 core rules, UTF-8/16/32 and uint8/16/32/64 rules in both byte orders, with masks), compiled from '
              'the real headers, is run on k+1 fully symbolic bytes with symbolic length (all truncations) and symbolic start offset and proved by '
              'CBMC to match iff an independently written specification (documented byte sets, Unicode Table 3-7, surrogate arithmetic, shift/or '
              'integer composition) matches, to consume exactly the specified length, to restore the cursor on failure and never to read past the '
              'end; the UTF-8/UTF-16 decoders of the specification are cross-checked in the same run against the encoders of the standard for a '
              'symbolic scalar value. Template constants (code points, bounds, masks) are a representative boundary set, the data is unrestricted.')

ASSUMPTIONS = [
    'template constants (characters, code points, range bounds, masks) are the representative sets listed per query; the input data is fully symbolic',
    'line/column bookkeeping is asserted for ASCII, UTF-8 and unmasked uint8 rules only; UTF-16/UTF-32 rules are documented as not counting lines '
    'and columns correctly and multi-byte/masked binary rules share their mechanism (result, consumed length, cursor restore and memory safety are asserted for all)',
    'x86-64: char is signed, host is little endian (endian_gcc.hpp little-endian branch is the one compiled)',
    'input type memory_input< tracking_mode::eager, eol::lf_crlf >',
]

# Known finding (genuine defect, reported): abnf::LWSP is star< sor< CRLF, WSP >, WSP >, i.e. *((CRLF / WSP) WSP), whereas RFC 5234 B.1
# defines LWSP = *(WSP / CRLF WSP): on " x" the rule consumes 0 bytes instead of 1, on "   x" 2 instead of 3, on " \r\n x" 0 instead of 4.
# The confirmation query is part of the plan as soon as known_findings.json carries an entry with this id (or VERIF_C10_LWSP=1).
KF_LWSP = 'C10_LWSP'

# --------------------------------------------------------------------------------------------------------------------
# rendering helpers


def cch(v):
    """C++ char constant for byte value v"""
    if 32 <= v < 127 and chr(v) not in "'\\":
        return "'%s'" % chr(v)
    return 'char( 0x%02x )' % v


def hx(v):
    return '0x%xu' % v if v < (1 << 32) else '0x%xull' % v


def setexpr(var, s, universe=256):
    """membership of var in the set s of small integers as a disjunction of interval tests"""
    s = sorted(set(s))
    if not s:
        return '0'
    if len(s) == universe:
        return '1'
    parts = []
    i = 0
    while i < len(s):
        j = i
        while j + 1 < len(s) and s[j + 1] == s[j] + 1:
            j += 1
        parts.append('%s == %d' % (var, s[i]) if i == j else '(%s >= %d && %s <= %d)' % (var, s[i], var, s[j]))
        i = j + 1
    return '(' + ' || '.join(parts) + ')'


def schar(v):
    """value of byte v as (signed) char on the target"""
    return v - 256 if v >= 128 else v


ALL = set(range(256))
LETTERS = set(map(ord, string.ascii_letters))
DIGITS = set(map(ord, string.digits))


def S(txt):
    return set(map(ord, txt))


def char_range(lo, hi):
    """bytes b whose char value lies in the closed range lo..hi (char constants given as byte values)"""
    return {b for b in ALL if schar(lo) <= schar(b) <= schar(hi)}


ESC = {'0': 0, 't': 9, 'n': 10, 'v': 11, 'f': 12, 'r': 13, '\\': 92, "'": 39}


def doc_ascii_sets():
    """rule name -> byte set (or list of byte sets for a fixed string), evaluated from the `[Equivalent] to` clauses of the
    "ASCII Rules" section of doc/Rule-Reference.md (only clauses built from one/range/ranges/three/two/bytes with constant arguments)"""
    txt = open(os.path.join(vf.REPO, 'doc', 'Rule-Reference.md')).read()
    m = re.search(r'^## ASCII Rules$(.*?)^## ', txt, re.S | re.M)
    out = {}
    for name, body in re.findall(r'^###### `(\w+)`\n(.*?)(?=^######|\Z)', m.group(1) if m else '', re.S | re.M):
        e = re.search(r'\[Equivalent\] to `(\w+)< ([^<>`]*) >`', body)
        if not e:
            continue
        args = []
        for a in re.findall(r"'(?:\\.|[^'\\])'|\d+", e.group(2)):
            args.append(int(a) if a[0] != "'" else ESC[a[2]] if a[1] == '\\' else ord(a[1]))
        if len(args) != len(e.group(2).split(',')):
            continue
        kind = e.group(1)
        if kind == 'one':
            out[name] = set(args)
        elif kind == 'range' and len(args) == 2:
            out[name] = set(range(args[0], args[1] + 1))
        elif kind == 'ranges':
            out[name] = set().union(*[set(range(args[i], args[i + 1] + 1)) for i in range(0, len(args) - 1, 2)]) | (set(args[-1:]) if len(args) % 2 else set())
        elif kind == 'bytes' and args == [1]:
            out[name] = set(ALL)
        elif kind in ('two', 'three') and len(args) == 1:
            out[name] = [set(args)] * (2 if kind == 'two' else 3)
    return out


def case(name, cxx, pre, can_match=True, can_fail=True, linecol=True, k=1, reach=(), doc=''):
    return {'name': name, 'cxx': cxx, 'pre': pre, 'can_match': can_match, 'can_fail': can_fail, 'linecol': linecol, 'k': k, 'reach': list(reach), 'doc': doc}


def byte_case(name, cxx, s, doc=''):
    """one byte out of the set s"""
    return case(name, cxx, 'u64 len = 1; int er = HAVE(1) && %s;' % setexpr('by(0)', s), can_match=bool(s), doc=doc)


def bytes_case(name, cxx, sets, doc=''):
    """a fixed-length sequence of bytes, position i out of sets[i]"""
    k = len(sets)
    cond = ' && '.join(['HAVE(%d)' % k] + [setexpr('by(%d)' % i, s) for i, s in enumerate(sets)]) if k else '1'
    return case(name, cxx, 'u64 len = %d; int er = %s;' % (k, cond), can_fail=k > 0, k=max(k, 1), doc=doc)


# --------------------------------------------------------------------------------------------------------------------
# ASCII (doc/Rule-Reference.md "ASCII Rules") and RFC 5234 appendix B.1


def ascii_groups(thorough):
    G = []
    cls = [
        ('alnum', LETTERS | DIGITS, 'ASCII alphabetic or numeric'),
        ('alpha', LETTERS, 'ASCII alphabetic'),
        ('any', ALL, 'any single byte'),
        ('blank', S(' \t'), 'space or horizontal tab'),
        ('digit', DIGITS, 'ASCII decimal digit'),
        ('identifier_first', LETTERS | S('_'), 'first character of a C identifier'),
        ('identifier_other', LETTERS | DIGITS | S('_'), 'subsequent character of a C identifier'),
        ('lower', S(string.ascii_lowercase), 'ASCII lower-case'),
        ('nul', {0}, 'ASCII nul'),
        ('odigit', S(string.octdigits), 'ASCII octal digit'),
        ('print', set(range(32, 127)), 'printable, 32..126'),
        ('seven', set(range(0, 128)), '7-bit ASCII'),
        ('space', S(string.whitespace), 'space, LF, CR, HT, VT, FF'),
        ('upper', S(string.ascii_uppercase), 'ASCII upper-case'),
        ('xdigit', S(string.hexdigits), 'ASCII hexadecimal digit'),
    ]
    assert S(string.whitespace) == S(' \n\r\t\v\f') and S(string.hexdigits) == DIGITS | S('abcdefABCDEF')
    # the sets above are written from the prose of the documentation; they must agree with the documentation's [Equivalent] clauses
    doc = doc_ascii_sets()
    bad = [n for n, s, d in cls + [('ellipsis', [S('.')] * 3, '')] if doc.get(n) != s]
    if bad:
        print('INCONCLUSIVE property=C10 query=plan reason=specification sets disagree with the [Equivalent] clauses of doc/Rule-Reference.md for: ' + ', '.join(bad))
        sys.exit(2)
    cs = [byte_case(n, n, s, d) for n, s, d in cls]
    G.append({'name': 'ascii_class1', 'cases': cs[:8], 'alphabet': 'azAZ09_ \\t\\n\\r\\000\\177\\200\\377@[`{/:'})
    cs2 = cs[8:]
    cs2.append(bytes_case('ellipsis', 'ellipsis', [S('.')] * 3, 'three dots'))
    # eol / eolf for the default eol policy lf_crlf: "\n" or "\r\n"; eolf additionally matches at the end of the input
    eol_pre = 'u64 len = (HAVE(1) && by(0) == 10) ? 1 : 2; int er = (HAVE(1) && by(0) == 10) || (HAVE(2) && by(0) == 13 && by(1) == 10);'
    cs2.append(case('eol', 'eol', eol_pre, k=2, doc='sor< one< \'\\n\' >, string< \'\\r\', \'\\n\' > > (default eol policy)'))
    cs2.append(case('eolf', 'eolf', eol_pre + ' if (avail(0) == 0) { er = 1; len = 0; }', k=2, doc='sor< eof, eol >'))
    G.append({'name': 'ascii_class2', 'cases': cs2, 'alphabet': 'azAZ07 .\\t\\n\\r\\013\\014\\000\\177\\200\\377~\\037!'})

    def one(name, vals):
        return byte_case(name, 'one< %s >' % ', '.join(map(cch, vals)) if vals else 'one<>', set(vals), 'next byte is one of C...')

    def not_one(name, vals):
        return byte_case(name, 'not_one< %s >' % ', '.join(map(cch, vals)) if vals else 'not_one<>', ALL - set(vals), 'next byte is not one of C...')

    def rng(name, lo, hi):
        return byte_case(name, 'range< %s, %s >' % (cch(lo), cch(hi)), char_range(lo, hi), 'next byte in the closed (char) range C..D')

    def not_rng(name, lo, hi):
        return byte_case(name, 'not_range< %s, %s >' % (cch(lo), cch(hi)), ALL - char_range(lo, hi), 'next byte not in the closed (char) range C..D')

    def rngs(name, vals):
        s = set()
        for i in range(0, len(vals) - 1, 2):
            s |= char_range(vals[i], vals[i + 1])
        if len(vals) % 2:
            s.add(vals[-1])
        return byte_case(name, 'ranges< %s >' % ', '.join(map(cch, vals)) if vals else 'ranges<>', s, 'sor< range< C1, D1 >..., one< E > >')

    o = ord
    G.append({'name': 'ascii_one', 'alphabet': 'abcz A~\\n\\000\\200\\377\\177`', 'cases': [
        one('one_a', [o('a')]), one('one_a_lf', [o('a'), 10]), one('one_80', [0x80]), one('one_ff_0', [0xff, 0]),
        one('one_6', [o('a'), o('b'), o('c'), o('z'), o('A'), o('~')]), one('one_none', []),
        not_one('not_one_a', [o('a')]), not_one('not_one_lf', [10]), not_one('not_one_3', [o('a'), 10, 0xff]), not_one('not_one_none', []),
    ]})
    G.append({'name': 'ascii_range', 'alphabet': 'af`g09/:\\t\\r\\n\\010\\016\\000\\177\\200\\377\\037 ', 'cases': [
        rng('range_a_f', o('a'), o('f')), rng('range_0_9', o('0'), o('9')), rng('range_a_a', o('a'), o('a')), rng('range_ht_cr', 9, 13),
        rng('range_0_7f', 0, 0x7f), rng('range_80_ff', 0x80, 0xff), rng('range_80_a', 0x80, o('a')),
        not_rng('not_range_a_f', o('a'), o('f')), not_rng('not_range_0_1f', 0, 0x1f), not_rng('not_range_80_ff', 0x80, 0xff), not_rng('not_range_lf_lf', 10, 10),
    ]})
    G.append({'name': 'ascii_ranges', 'alphabet': 'azAZ09_af`g{@[/:\\n\\t\\012\\000\\177\\200\\377 ', 'cases': [
        rngs('ranges_az_AZ', [o('a'), o('z'), o('A'), o('Z')]), rngs('ranges_09_us', [o('0'), o('9'), o('_')]),
        rngs('ranges_af_09_lf', [o('a'), o('f'), o('0'), o('9'), 10]), rngs('ranges_a', [o('a')]), rngs('ranges_a_c', [o('a'), o('c')]),
        rngs('ranges_none', []), rngs('ranges_hi', [0, 9, 0x80, 0xff, o(' ')]),
    ]})

    if thorough:
        G.append({'name': 'ascii_more', 'alphabet': 'azAZ09_-\\t\\n\\013\\014\\r \\000\\001\\002\\200\\201\\376\\377\\177`{@[', 'cases': [
            one('one_space', [9, 10, 11, 12, 13, 32]), not_one('not_one_0', [0]), not_one('not_one_80', [0x80]), one('one_7f_80', [0x7f, 0x80]),
            rng('range_fe_ff', 0xfe, 0xff), rng('range_0_1', 0, 1), rng('range_80_81', 0x80, 0x81), rng('range_7e_7f', 0x7e, 0x7f),
            not_rng('not_range_a_z', o('a'), o('z')), not_rng('not_range_80_7f', 0x80, 0x7f),
            rngs('ranges_ident_dash', [o('a'), o('z'), o('A'), o('Z'), o('0'), o('9'), o('_'), o('_'), o('-')]), rngs('ranges_lf_lf', [10, 10, 13, 13]),
        ]})

    def st(name, vals, tmpl='string'):
        return bytes_case(name, '%s< %s >' % (tmpl, ', '.join(map(cch, vals))) if vals else '%s<>' % tmpl, [{v} for v in vals], 'seq< one< C >... >')

    def ist(name, vals):
        # "For ASCII letters a-z and A-Z the match is case insensitive", every other character matches itself only
        sets = [({o(chr(v).lower()), o(chr(v).upper())} if v in LETTERS else {v}) for v in vals]
        return bytes_case(name, 'istring< %s >' % ', '.join(map(cch, vals)) if vals else 'istring<>', sets, 'string with case-insensitive ASCII letters')

    G.append({'name': 'ascii_string', 'alphabet': 'abcABC\\n\\000\\377\\177', 'cases': [
        st('string_a', [o('a')]), st('string_abc', [o('a'), o('b'), o('c')]), st('string_lf_0_ff', [10, 0, 0xff]), st('string_none', []),
        bytes_case('two_a', "two< 'a' >", [{o('a')}] * 2, 'two bytes C'), bytes_case('three_lf', "three< '\\n' >", [{10}] * 3, 'three bytes C'),
    ]})
    # neighbours of the letters under the |0x20 / &~0x20 folding: '@' 0x40 / '`' 0x60, '[' 0x5b / '{' 0x7b, '0' / 0x10, 0 / ' ', 0xc1 / 0xe1 / 'A' / 'a'
    G.append({'name': 'ascii_istring1', 'alphabet': 'aAzZ@`[{\\000 \\101\\141\\301\\341\\032\\072kK\\n\\020', 'cases': [
        ist('istring_a', [o('a')]), ist('istring_Z', [o('Z')]), ist('istring_at', [o('@')]), ist('istring_lbr', [o('[')]), ist('istring_bq', [o('`')]),
        ist('istring_lbc', [o('{')]), ist('istring_none', []), ist('istring_c1', [0xc1]), ist('istring_e1_k', [0xe1, o('k')]),
    ]})
    G.append({'name': 'ascii_istring2', 'alphabet': 'aA1\\021zZ0 \\000\\020@`[{\\032\\072\\n\\012', 'cases': [
        ist('istring_a1Z', [o('a'), o('1'), o('Z')]), ist('istring_0_sp_nul', [o('0'), o(' '), 0]), ist('istring_lf_M', [10, o('M')]),
        ist('istring_6', [o('A'), o('z'), o('@'), o('['), o('`'), o('{')]),
    ]})

    # RFC 5234 appendix B.1 (ABNF string literals are case insensitive: HEXDIG includes a-f)
    ab = [
        ('ALPHA', set(range(0x41, 0x5b)) | set(range(0x61, 0x7b)), '%x41-5A / %x61-7A'),
        ('BIT', S('01'), '"0" / "1"'),
        ('CHAR', set(range(0x01, 0x80)), '%x01-7F'),
        ('CR', {0x0d}, '%x0D'),
        ('CTL', set(range(0x00, 0x20)) | {0x7f}, '%x00-1F / %x7F'),
        ('DIGIT', set(range(0x30, 0x3a)), '%x30-39'),
        ('DQUOTE', {0x22}, '%x22'),
        ('HEXDIG', set(range(0x30, 0x3a)) | S('ABCDEFabcdef'), 'DIGIT / "A" / "B" / "C" / "D" / "E" / "F"'),
        ('HTAB', {0x09}, '%x09'),
        ('LF', {0x0a}, '%x0A'),
        ('OCTET', ALL, '%x00-FF'),
        ('SP', {0x20}, '%x20'),
        ('VCHAR', set(range(0x21, 0x7f)), '%x21-7E'),
        ('WSP', {0x20, 0x09}, 'SP / HTAB'),
    ]
    acs = [byte_case(n, 'abnf::' + n, s, d) for n, s, d in ab]
    acs.insert(4, bytes_case('CRLF', 'abnf::CRLF', [{0x0d}, {0x0a}], 'CR LF'))
    inc = ['tao/pegtl/contrib/abnf.hpp']
    # LWSP = *(WSP / CRLF WSP) is not a single-unit rule; it is checked as the one remaining member of the core rule set
    lwsp = ('u64 len = 0; int er = 1; for (u64 i = 0; i < NA; ++i) { if (avail(len) >= 1 && (by(len) == 0x20 || by(len) == 0x09)) len += 1; '
            'else if (avail(len) >= 3 && by(len) == 0x0d && by(len + 1) == 0x0a && (by(len + 2) == 0x20 || by(len + 2) == 0x09)) len += 3; else break; }')
    G.append({'name': 'abnf_lwsp', 'cases': [case('LWSP', 'abnf::LWSP', lwsp, can_fail=False, k=4, doc='*(WSP / CRLF WSP)',
                                                   reach=[('len == 1', 'LWSP consumes 1'), ('len == 4', 'LWSP consumes 4'), ('len == 5', 'LWSP consumes 5')])],
              'includes': inc, 'alphabet': ' \\t\\r\\na', 'expect_fail': KF_LWSP})
    G.append({'name': 'abnf1', 'cases': acs[:8], 'includes': inc, 'alphabet': 'azAZ01\\r\\n\\000\\001\\177\\200\\037 \\"09/:afFG`@'})
    G.append({'name': 'abnf2', 'cases': acs[8:], 'includes': inc, 'alphabet': 'afAFgG09/:\\t\\n \\041\\176\\177\\000\\377\\037'})
    return G


# --------------------------------------------------------------------------------------------------------------------
# code-point and integer rule families (Unicode rules / Binary rules of doc/Rule-Reference.md)


def pred_one(vals, v='cp'):
    return '(' + ' || '.join('%s == %s' % (v, hx(x)) for x in vals) + ')' if vals else '0'


def pred_range(lo, hi, v='cp'):
    return '(%s >= %s && %s <= %s)' % (v, hx(lo), v, hx(hi))


def pred_ranges(vals, v='cp'):
    p = [pred_range(vals[i], vals[i + 1], v) for i in range(0, len(vals) - 1, 2)]
    if len(vals) % 2:
        p.append('%s == %s' % (v, hx(vals[-1])))
    return '(' + ' || '.join(p) + ')' if p else '0'


def family(ns, targ=hx, mask=None):
    """(template name, parameter list) -> (cxx text, C predicate over the decoded value `cp`) for the one/range/ranges families"""
    m = [targ(mask)] if mask is not None else []
    pre = 'mask_' if mask is not None else ''

    def f(kind, vals):
        args = ', '.join(m + [targ(x) for x in vals])
        cxx = '%s::%s%s< %s >' % (ns, pre, kind, args) if args else '%s::%s%s<>' % (ns, pre, kind)
        if kind == 'one':
            p = pred_one(vals)
        elif kind == 'not_one':
            p = '!' + pred_one(vals)
        elif kind == 'range':
            p = pred_range(*vals)
        elif kind == 'not_range':
            p = '!' + pred_range(*vals)
        elif kind == 'ranges':
            p = pred_ranges(vals)
        else:
            raise KeyError(kind)
        return cxx, p
    return f


def nm(kind, vals, mask=None):
    return (('m%x_' % mask) if mask is not None else '') + kind + ''.join('_%x' % v for v in vals)


def unicode_cases(ns, dec, unit_k, linecol, specs, strings, never=()):
    """dec: C expression `DEC(off, &cp)` template with %s for the offset"""
    f = family(ns)
    cs = []
    anyc = case('any', ns + '::any', 'u64 len = %s; int er = len > 0;' % (dec % '0'), linecol=linecol, k=unit_k, doc='next N bytes encode a valid code point')
    cs.append(anyc)
    cs.append(case('bom', ns + '::bom', 'u64 len = %s; int er = len > 0 && cp == 0xfeff;' % (dec % '0'), linecol=linecol, k=unit_k, doc='one< 0xfeff >'))
    for kind, vals in specs:
        cxx, p = f(kind, vals)
        cs.append(case(nm(kind, vals), cxx, 'u64 len = %s; int er = len > 0 && %s;' % (dec % '0', p), linecol=linecol, k=unit_k,
                       can_match=(kind, tuple(vals)) not in never, doc='valid code point and ' + kind))
    for vals in strings:
        pre = ['u64 len = 0, l1; int er = 1;']
        for x in vals:
            pre.append('l1 = %s; if (er && l1 > 0 && cp == %s) len += l1; else er = 0;' % (dec % 'len', hx(x)))
        cs.append(case(nm('string', vals), '%s::string< %s >' % (ns, ', '.join(map(hx, vals))), ' '.join(pre), linecol=linecol, k=unit_k * len(vals),
                       doc='seq< one< C >... >'))
    return cs


def chunk(l, n):
    return [l[i:i + n] for i in range(0, len(l), n)]


def mkgroups(prefix, cases, alphabet, includes=(), xcp=False):
    """one unit (= one query) per small group of rules of the same unit size k; the first group carries the spec cross-check input"""
    G = []
    for k in sorted({c['k'] for c in cases}):
        per = 10 if k <= 2 else 8 if k <= 4 else 6 if k <= 8 else 3
        for c in chunk([c for c in cases if c['k'] == k], per):
            G.append({'name': '%s_%d' % (prefix, len(G) + 1), 'cases': c, 'alphabet': alphabet, 'includes': list(includes), 'xcp': xcp and not G})
    return G


def utf8_groups(thorough):
    dec = 'u8_dec(%s, &cp)'
    specs = [
        ('one', [0x41]), ('one', [0xe9, 0x20ac, 0x1f600, 0x0a]), ('one', [0x7f, 0x80, 0x7ff, 0x800, 0xffff, 0x10000, 0x10ffff]),
        ('one', [0xd800]), ('one', [0x110000]), ('one', [0xdfff, 0xe000, 0xd7ff]), ('one', []),
        ('not_one', [0x41]), ('not_one', [0x80, 0x10ffff, 0x0a]), ('not_one', []),
        ('range', [0x80, 0x7ff]), ('range', [0, 0x10ffff]), ('range', [0xd7ff, 0xe000]), ('range', [0x10000, 0xffffffff]),
        ('range', [0x7f, 0x80]), ('range', [0xffff, 0x10000]), ('range', [0x20, 0x7e]), ('range', [0x7ff, 0x800]),
        ('not_range', [0x80, 0x10ffff]), ('not_range', [0, 0x7f]), ('not_range', [0x800, 0xffff]),
        ('ranges', [0x41, 0x5a, 0x391, 0x3a9]), ('ranges', [0, 9, 0x10000, 0x10ffff, 0x20ac]),
    ]
    specs += [('range', [0xd800, 0xdfff]), ('range', [0x110000, 0xffffffff])]
    never = {('one', (0xd800,)), ('one', (0x110000,)), ('one', ()), ('range', (0xd800, 0xdfff)), ('range', (0x110000, 0xffffffff))}
    strings = [[0x20ac, 0x61], [0xe9, 0x1f600], [0x0a, 0x0a]]
    if thorough:
        # RFC 3629 examples, and one range per row of Table 3-7
        specs += [('one', [0x24]), ('one', [0xa2]), ('one', [0x939]), ('one', [0x10348]), ('range', [0x800, 0xfff]), ('range', [0x1000, 0xcfff]), ('range', [0xd000, 0xd7ff]),
                  ('range', [0xe000, 0xffff]), ('range', [0x10000, 0x3ffff]), ('range', [0x40000, 0xfffff]), ('range', [0x100000, 0x10ffff]), ('not_range', [0xd800, 0xdfff]),
                  ('not_one', [0xd800, 0x110000]), ('ranges', [0x30, 0x39, 0x660, 0x669, 0x1d7ce, 0x1d7ff, 0xff10, 0xff19, 0x5f])]
        strings += [[0x61, 0x62], [0x10348, 0x10348]]
    cs = unicode_cases('utf8', dec, 4, True, specs, strings, never)
    # the `any` case also carries the decoder/encoder cross-check of the specification and one witness per length
    cs[0]['pre'] += ' u8_crosscheck(xcp);'
    cs[0]['reach'] = [('er == 1 && len == %d' % i, 'utf8 any consumes %d' % i) for i in (1, 2, 3, 4)]
    # bytes at the borders of Table 3-7
    alpha = 'aA\\n\\177\\200\\277\\300\\301\\302\\337\\340\\240\\237\\341\\354\\355\\356\\357\\360\\220\\217\\361\\363\\364\\365\\377\\202\\254\\342\\351\\303\\251\\237\\230'
    return mkgroups('utf8', cs, alpha, xcp=True)


def utf16_32_groups(thorough):
    G = []
    specs = [
        ('one', [0x41]), ('one', [0x0a0a]), ('one', [0x1f600, 0xffff, 0x10000, 0x10ffff]), ('one', [0xd800]), ('one', [0xdc00]), ('one', [0xfffe, 0x0a]),
        ('not_one', [0x41, 0x1f600]), ('not_one', []),
        ('range', [0xd7ff, 0xe000]), ('range', [0x10000, 0x10ffff]), ('range', [0, 0xffff]), ('range', [0xffff, 0x10000]), ('range', [0x10ffff, 0xffffffff]),
        ('not_range', [0, 0xffff]), ('not_range', [0xd800, 0xdfff]), ('not_range', [0x100, 0x10fffe]),
        ('ranges', [0x41, 0x5a, 0x10400, 0x1044f, 0xfeff]),
    ]
    specs += [('range', [0xd800, 0xdfff]), ('range', [0x110000, 0xffffffff])]
    never = {('one', (0xd800,)), ('one', (0xdc00,)), ('range', (0xd800, 0xdfff)), ('range', (0x110000, 0xffffffff))}
    strings = [[0x41, 0x1f600]]
    if thorough:
        specs += [('one', [0xd7ff, 0xe000]), ('one', [0xdbff, 0xdfff, 0x10ffff]), ('one', [0x100, 0x1]), ('range', [0xdc00, 0x10000]), ('range', [0x0a00, 0x0aff]),
                  ('not_one', [0x0a]), ('not_range', [0x10000, 0x10ffff]), ('ranges', [0, 0xd7ff, 0xe000, 0x10ffff])]
        strings += [[0x1f600, 0x41], [0x0a, 0x0a0a]]
    for bits, k in ((16, 4), (32, 4)):
        for e in ('be', 'le'):
            ns = 'utf%d_%s' % (bits, e)
            dec = 'u%d_dec(%d, %%s, &cp)' % (bits, 1 if e == 'be' else 0)
            cs = unicode_cases(ns, dec, k, False, specs, strings, never)
            if bits == 16:
                cs[0]['pre'] += ' u16_crosscheck(%d, xcp);' % (1 if e == 'be' else 0)
                cs[0]['reach'] = [('er == 1 && len == 2', ns + ' any consumes 2'), ('er == 1 && len == 4', ns + ' any consumes 4')]
            # units at the borders: surrogates d800 dbff dc00 dfff, 0010ffff / 00110000, feff
            alpha = 'A\\000\\n\\330\\333\\334\\337\\327\\340\\377\\376\\020\\021\\001\\366\\075\\336\\004\\117'
            G += mkgroups(ns, cs, alpha, ['tao/pegtl/contrib/utf%d.hpp' % bits], xcp=bits == 16)
    return G


def uint_groups(thorough):
    G = []
    for bits in (8, 16, 32, 64):
        nb = bits // 8
        MAX = (1 << bits) - 1
        TOP = 1 << (bits - 1)
        ASC = int.from_bytes(bytes(range(1, nb + 1)), 'big')          # 0x0102.. : every byte different, byte-order sensitive
        ASC2 = int.from_bytes(bytes(range(0x11, 0x11 + nb)), 'big')
        AA = int.from_bytes(b'\xaa' * nb, 'big')
        M55 = int.from_bytes(b'\x55' * nb, 'big')
        LOWB = 0xff                                                     # least significant byte only
        HIGHB = 0xff << (bits - 8)                                      # most significant byte only
        plain = [
            ('one', [ASC]), ('one', [0, MAX]), ('one', [1, TOP, MAX - 1]), ('one', [0x0a]),
            ('not_one', [ASC]), ('not_one', [0, MAX, TOP]), ('not_one', []),
            ('range', [0, TOP - 1]), ('range', [TOP, MAX]), ('range', [1, MAX - 1]), ('range', [ASC, ASC2]), ('range', [TOP - 1, TOP]),
            ('not_range', [1, MAX - 1]), ('not_range', [ASC, ASC2]),
            ('ranges', [0, 1, MAX - 1, MAX, ASC]), ('ranges', [ASC, ASC2, TOP, TOP + 1]),
        ]
        if bits > 8:
            plain += [('one', [0x0a0a]), ('range', [0xff, 0x100]), ('range', [LOWB + 1, HIGHB])]
        masked = [
            (0, 'one', [0]), (0, 'one', [1]), (0, 'not_one', [0]), (1, 'one', [1]), (1, 'one', [0]), (1, 'not_one', [1]), (1, 'range', [0, 1]),
            (TOP, 'one', [TOP]), (TOP, 'one', [0, 1]), (TOP, 'range', [1, TOP]), (TOP, 'not_one', [TOP]),
            (MAX, 'one', [ASC]), (MAX, 'not_one', [ASC, 0]), (MAX, 'range', [ASC, ASC2]), (MAX, 'not_range', [1, MAX - 1]),
            (AA, 'one', [ASC & AA, AA]), (AA, 'range', [ASC & AA, AA]), (AA, 'not_range', [1, AA - 1]), (AA, 'one', [M55]),
            (M55, 'one', [ASC & M55]), (M55, 'not_one', [M55, 0]), (M55, 'ranges', [0, 1, M55 - 1, M55, ASC & M55]),
            (0xf0, 'one', [0]), (0x0f, 'one', [0x0a]),
        ]
        if bits > 8:
            masked += [(HIGHB, 'one', [ASC & HIGHB]), (LOWB, 'one', [ASC & LOWB]), (HIGHB, 'range', [1 << (bits - 8), 2 << (bits - 8)]), (LOWB, 'not_range', [1, 0xfe]),
                       (HIGHB, 'ranges', [0, 0, HIGHB]), (MAX ^ LOWB, 'not_one', [ASC & (MAX ^ LOWB)])]
        if thorough:
            F0F = int.from_bytes(b'\x0f' * nb, 'big')
            plain += [('one', [MAX]), ('one', [TOP - 1, TOP + 1]), ('range', [MAX - 1, MAX]), ('not_range', [0, TOP]), ('ranges', [0, 0, MAX, MAX, TOP])]
            masked += [(F0F, 'one', [ASC & F0F]), (F0F, 'range', [1, F0F - 1]), (MAX >> 1, 'one', [MAX >> 1, 0]), (MAX - 1, 'not_one', [MAX - 1]), (MAX - 1, 'range', [ASC - 1, ASC + 1]),
                       (TOP | 1, 'ranges', [0, 1, TOP, TOP | 1]), (3, 'not_range', [1, 2])]
        nevers = {(0, 'one', (1,)), (0, 'not_one', (0,)), (AA, 'one', (M55,))}
        for e in (('',) if bits == 8 else ('be', 'le')):
            ns = 'uint%d' % bits + ('_' + e if e else '')
            be = 1 if e == 'be' else 0
            rd = 'uint_rd(%d, %d, %%s)' % (be, nb)
            cs = [case('any', ns + '::any', 'u64 len = %d; int er = HAVE(%d);' % (nb, nb), linecol=bits == 8, k=nb, doc='at least N bytes')]
            f = family(ns)
            for kind, vals in plain:
                cxx, p = f(kind, vals)
                cs.append(case(nm(kind, vals), cxx, 'u64 len = %d; cp = %s; int er = HAVE(%d) && %s;' % (nb, rd % '0', nb, p), linecol=bits == 8, k=nb,
                               doc='endian adjusted input value and ' + kind))
            cs.append(case('string_2', '%s::string< %s, %s >' % (ns, hx(ASC), hx(ASC2)),
                           'u64 len = %d; int er = HAVE(%d) && %s == %s && %s == %s;' % (2 * nb, 2 * nb, rd % '0', hx(ASC), rd % str(nb), hx(ASC2)),
                           linecol=bits == 8, k=2 * nb, doc='seq< one< C >... >'))
            ms = []
            for m, kind, vals in masked:
                cxx, p = family(ns, mask=m)(kind, vals)
                ms.append(case(nm(kind, vals, m), cxx, 'u64 len = %d; cp = %s & %s; int er = HAVE(%d) && %s;' % (nb, rd % '0', hx(m), nb, p), linecol=False, k=nb,
                               can_match=(m, kind, tuple(vals)) not in nevers, doc='endian adjusted input value masked with M and ' + kind))
            ms.append(case('m%x_string_2' % M55, '%s::mask_string< %s, %s, %s >' % (ns, hx(M55), hx(ASC & M55), hx(ASC2 & M55)),
                           'u64 len = %d; int er = HAVE(%d) && (%s & %s) == %s && (%s & %s) == %s;' % (2 * nb, 2 * nb, rd % '0', hx(M55), hx(ASC & M55), rd % str(nb), hx(M55), hx(ASC2 & M55)),
                           linecol=False, k=2 * nb, doc='seq< mask_one< M, C >... >'))
            # bytes of the constants and their neighbours
            al = sorted({b for v in (ASC, ASC2, 1, TOP, MAX - 1, 0x0a, AA, M55, ASC & AA, ASC & M55) for b in v.to_bytes(nb, 'big')} | {0, 0xff, 0x7f, 0x80, 2, 0x10})
            alpha = ''.join('\\%03o' % b for b in al)
            inc = ['tao/pegtl/contrib/uint%d.hpp' % bits]
            G += mkgroups(ns, cs, alpha, inc) + mkgroups(ns + '_mask', ms, alpha, inc)
    return G


# --------------------------------------------------------------------------------------------------------------------

HARNESS = r'''/* generated by props/C10.py: real single-unit rules on symbolic bytes vs independent byte-level specifications */
#define VF_ALPHABET "%(alphabet)s"
#include "verif.h"
static int c10_linecol = 1;
#define LF_LINECOL c10_linecol
#include "leaf.h"
#define NA %(NA)d
#include "c10_spec.h"
#define RUN(w, req) do { w(lf_buf, lf_n, lf_start, o); lf_check(o, er, lf_start + len, req, NA); } while (0)
static void harness(void) {
  c10_setup(NA);
  u64 o[8];
  u64 xcp = %(xcp)s; (void)xcp;
%(blocks)s
}
'''

BLOCK = r'''#if !defined(VF_SPLIT) || V_%(name)s
  { /* %(cxx)s — %(doc)s */
    u64 cp = 0; (void)cp;
    c10_linecol = %(linecol)d;
    %(pre)s
    RUN(w_%(name)s_ar, 1); RUN(w_%(name)s_ao, 0); RUN(w_%(name)s_nr, 1); RUN(w_%(name)s_no, 0);
    OBS(er); OBS(len);
%(reach)s
  }
#endif
'''


def harness_text(g, NA):
    blocks = []
    for c in g['cases']:
        reach = ['    REACH(%s, "%s");' % (e, m) for e, m in c['reach']]
        if c['can_match']:
            reach.append('    REACH(er == 1, "%s matches");' % c['name'])
        if c['can_fail']:
            reach.append('    REACH(er == 0, "%s fails");' % c['name'])
        blocks.append(BLOCK % {'name': c['name'], 'cxx': c['cxx'], 'doc': c['doc'], 'linecol': 1 if c['linecol'] else 0, 'pre': c['pre'], 'reach': '\n'.join(reach)})
    return HARNESS % {'alphabet': g.get('alphabet', 'ab\\n\\r01 '), 'NA': NA, 'blocks': ''.join(blocks), 'xcp': 'IN(0, 0x110000)' if g.get('xcp') else '0'}


def all_groups(thorough):
    return ascii_groups(thorough) + utf8_groups(thorough) + utf16_32_groups(thorough) + uint_groups(thorough)


def plan(ctx):
    return plan_with(ctx)


def plan_with(ctx, input_t=None, prefix='', unit_prefix='c10_', min_k=1):
    """input_t/prefix: the same rules and specifications over another input class (C07: an input that grants only the look-ahead a rule requests)"""
    thorough = not ctx.quick()
    qs = []
    have_kf = {k.get('id') for k in vf.load_known('C10')}
    for g in all_groups(thorough):
        kf = g.get('expect_fail')
        if input_t and (kf or max(c['k'] for c in g['cases']) < min_k):
            continue
        if kf and kf not in have_kf and not os.environ.get('VERIF_C10_LWSP'):
            vf.log('[C10] note: confirmation query of finding %s not run (no entry with that id in known_findings.json)' % kf)
            continue
        k = max(c['k'] for c in g['cases'])
        NA = k + (3 if thorough else 1)
        unit = ctx.unit(unit_prefix + g['name'], text=leafgen.wrapper_text(g['cases'], includes=g.get('includes', ()), input_t=input_t))
        h = ctx.write('%s%s.c' % (unit_prefix, g['name']), harness_text(g, NA))
        for i, cs in enumerate(chunk(g['cases'], len(g['cases']))):
            cd = {'VF_SPLIT': 1}
            cd.update(('V_' + c['name'], 1) for c in cs)
            qname = '%s/%s' % (g['name'], cs[0]['name'] + ('..' + cs[-1]['name'] if len(cs) > 1 else ''))
            qs.append(vf.Query(prefix + ('known/%s/' % kf if kf else '') + qname, unit, h, unwind=NA + 3, cbmc_defines=cd, mem_gb=4 if g['name'].startswith('utf8') else 2, expect_fail=kf,
                               bounds={'bytes': NA, 'unit_bytes': k, 'rules': [c['cxx'] for c in cs], 'modes': ['ar', 'ao', 'nr', 'no'],
                                       'spec': {c['cxx']: c['pre'] for c in cs}},
                               note='real %s on %d symbolic bytes (all lengths 0..%d, all start offsets) vs independent specification%s' % (', '.join(c['cxx'] for c in cs), NA, NA, (' over ' + input_t) if input_t else '')))
    return qs
