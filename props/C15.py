"""C15 — integer rules: documented numeral syntax, exact conversion or reported overflow."""
import os
import vf

LEVEL_TEXT = ('bounded symbolic model checking (CBMC on the ll2c translation of the clang IR of the real headers) of contrib/integer.hpp: '
              '(i) step lemma: accumulate_digit<I,Max> from EVERY accumulator value and digit against 64/128-bit arithmetic, for u8..u64, s8..s64 and '
              'Maximum values at the type maximum, the convert_negative limit, small values and powers of ten +-1; '
              '(ii) loop glue: accumulate_digits (from every accumulator start value), convert_positive, convert_unsigned, convert_negative, '
              'convert_signed on symbolic digit strings: all strings up to one digit beyond the width for 8/16-bit, bounded strings for 32/64-bit '
              'plus boundary neighbourhoods (concrete high digits, 6-8 symbolic low digits, up to width+1 digits); these units are compiled with '
              '-ftrapv so that source-level signed overflow is a reachable trap; '
              '(iii) unsigned_rule, unsigned_rule_with_action, maximum_rule, maximum_rule_with_action, signed_rule, signed_rule_with_action, and '
              'unsigned_action / maximum_action / signed_action attached to the plain rules, on symbolic BYTES in an exact-size buffer with symbolic '
              'length and start offset (arbitrary trailing byte or end of input), per apply/rewind mode, against the documented numeral grammar '
              '("0" | [1-9][0-9]*, optional sign for the signed rules, no superfluous leading zeros), exact stored value, overflow outcome '
              '(parse_error or local failure), consumed length, cursor restoration on local failure, line/column, and state untouched when no '
              'conversion is requested')

ASSUMPTIONS = [
    'C15: the parse_error constructor (message/position formatting through std::ostringstream) is replaced, in the clang/IR build only, by an '
    'external that the harness models as "overflow reported" (harness/c15_common.hpp, harness/c15_models.h); exception allocation, the '
    'std::string temporary, throw, unwinding through the rule frames and the catch clause are real IR; the g++/ASan/UBSan build used for translation '
    'validation and replay runs the real constructor; position and message carried by the parse_error are not compared (C05/C19)',
    'C15: std::string::_M_create is modelled as malloc(capacity + 1) (lib/models.h); std::runtime_error destructor/what() are only referenced from '
    'never-called destructors',
    'C15: 32/64-bit targets: digit strings longer than the per-query bound are covered by the step lemma (every accumulator state) plus induction over '
    'the digit loop (the loop body does not depend on the position), and by the boundary neighbourhoods; 8/16-bit targets are exhaustive up to '
    'width+1 digits',
    'C15: accumulators handed to kernels of a signed Integer are non-negative (convert_positive starts at 0 and only adds)',
    'C15: rules are run on memory_input< tracking_mode::eager, eol::lf_crlf, const char* > with control normal<>; other inputs are the subject of C07',
    'C15: source-level signed-overflow UB is checked (-ftrapv traps asserted unreachable) in the conversion-kernel units only; the rule units use the '
    'plain -O1 IR',
]

UT = {8: 'unsigned char', 16: 'unsigned short', 32: 'unsigned int', 64: 'unsigned long'}
ST = {8: 'signed char', 16: 'short', 32: 'int', 64: 'long'}
MODES = {'ar': ('action', 'required'), 'ao': ('action', 'optional'), 'nr': ('nothing', 'required'), 'no': ('nothing', 'optional')}


def lit(v):
    return '%dULL' % v


def cxxlit(v, bits, signed=False):
    if signed:
        return '%dL' % v if bits == 64 else '%d' % v
    return '%dUL' % v if bits == 64 else '%dU' % v


def umax(b):
    return (1 << b) - 1


# ------------------------------------------------------------------------------------------------ (iii) rules on symbolic bytes

def rule_case(name, rule, state=None, action=None, bits=64, signed=False, maxpos=None, maxneg=None, ovf_a=0, ovf_n=0, conv=0):
    return {'name': name, 'rule': rule, 'state': state, 'action': action, 'bits': bits, 'signed': signed,
            'maxpos': umax(64) if maxpos is None else maxpos, 'maxneg': (umax(64) if maxpos is None else maxpos) if maxneg is None else maxneg,
            'ovf_a': ovf_a, 'ovf_n': ovf_n, 'conv': conv}


def rule_wrapper(c):
    L = ['// generated wrapper TU (C15): %s' % c['rule'], '#include "c15_common.hpp"', 'using namespace tao::pegtl;']
    for v, (a, m) in MODES.items():
        if c['state']:
            body = 'c15::run_st< %s, apply_mode::%s, rewind_mode::%s, %s, %s >( b, n, s, st0, o );' % (c['rule'], a, m, c['action'] or 'nothing', c['state'])
        else:
            body = 'c15::run_nost< %s, apply_mode::%s, rewind_mode::%s >( b, n, s, st0, o );' % (c['rule'], a, m)
        L.append('C15_EXPORT void w_%s_%s( const char* b, unsigned long n, unsigned long s, unsigned long st0, unsigned long* o ) { %s }' % (c['name'], v, body))
    return '\n'.join(L) + '\n'


def rule_harness(c, NA, prefix=None, minn=0):
    D = ['/* generated harness (C15): %s on symbolic bytes */' % c['rule'],
         '#define VF_ALPHABET "0011223456789999+-a"',
         '#define VF_STRING_SELF_T struct S_class_std____cxx11__basic_string   /* lib/models.h: std::string is a complete type in these units */',
         '#define NA %d' % NA,
         '#define C15_W(v) w_%s_##v' % c['name'],
         '#define C15_SIGNED %d' % (1 if c['signed'] else 0),
         '#define C15_BITS %d' % c['bits'],
         '#define C15_MAXPOS %s' % lit(c['maxpos']),
         '#define C15_MAXNEG %s' % lit(c['maxneg']),
         '#define C15_OVF_A %d' % c['ovf_a'], '#define C15_OVF_N %d' % c['ovf_n'], '#define C15_CONV_A %d' % c['conv'],
         '#define C15_WIDE %d' % (1 if NA > 19 else 0),
         '#define C15_MINN %d' % minn]
    if prefix:
        D.append('#define C15_PREFIX "%s"' % prefix)
    D += ['#include "verif.h"', '#ifndef VF_SPLIT', '#define V_ar 1', '#define V_ao 1', '#define V_nr 1', '#define V_no 1', '#endif', '#include "c15_rules.h"']
    return '\n'.join(D) + '\n'


def rule_queries(ctx, qs, c, NA, groups, prefix=None, tag='', mem_gb=2, solver='minisat2', fixn=None):
    unit = ctx.unit('c15r_' + c['name'], text=rule_wrapper(c))
    sg = 1 if c['signed'] else 0
    minn = (sg + len(prefix)) if prefix else 0
    h = ctx.write('r_%s%s.c' % (c['name'], tag), rule_harness(c, NA, prefix, minn))
    maxdig = NA - 1   # longest digit string that still leaves room for nothing else
    # a scan that runs over the end of the buffer (reads there are unconstrained under CBMC) stops after digits(Max)+1 steps at the latest
    uw = max(NA, digits_of(c['maxpos']) + 1 if (c['ovf_a'] == 1 and c['maxpos'] < umax(64) + 1) else 0) + 3
    for grp in groups:
        act = grp[-1][0] == 'a'
        ovf = c['ovf_a'] if act else c['ovf_n']
        lim = max(c['maxpos'], c['maxneg'])
        can_over = ovf != 0 and (int(prefix + '9' * (NA - sg - len(prefix))) if prefix else 10 ** (NA - sg) - 1) > lim
        maxlen = sg + (NA - sg if ovf == 0 else min(NA - sg, digits_of(lim)))       # longest numeral that can be accepted
        can_fail = not (prefix and not sg and prefix[0] != '0')
        cd = {'VF_SPLIT': 1, 'C15_REACH_OVF': 1 if can_over else 0, 'C15_REACH_EXC': 1 if (can_over and ovf == 2) else 0,
              'C15_REACH_LEN': min(maxlen, (len(prefix) + sg + 1) if prefix else maxlen), 'C15_REACH_FAIL': 1 if can_fail else 0,
              'C15_REACH_EOF': 1 if (fixn is None or ovf == 0 or int(prefix + '0' * (NA - sg - len(prefix))) <= lim) else 0}
        cd.update(('V_' + v, 1) for v in grp)
        qs.append(vf.Query('rule/%s%s/%s' % (c['name'], tag, '+'.join(grp)), unit, h, unwind=uw, unwindset=['x_strlen.0:32'], cbmc_defines=cd, mem_gb=mem_gb, solver=solver,
                           defines={'C15_FIXN': fixn} if fixn is not None else None,
                           bounds={'bytes': NA, 'rule': c['rule'], 'action': c['action'], 'state': c['state'], 'variants': grp, 'prefix': prefix,
                                   'max_positive': c['maxpos'], 'max_negative': c['maxneg']},
                           note='real %s on symbolic bytes vs documented numeral syntax + exact value/overflow' % c['rule']))


def digits_of(v):
    return len(str(v))


def rule_cases(quick):
    """-> [(case, NA, variants, [prefixes])]

    8/16-bit targets: NA = sign + (digits of the widest accepted numeral + 1) + one trailing byte, i.e. every numeral up to one digit
    beyond the type's width, followed by an arbitrary byte or the end of the input.  32/64-bit targets: a short general buffer plus
    boundary neighbourhoods (concrete high digits of Max-1 / Max+1, everything from the last two digits of the width on symbolic)."""
    out = []
    ALL = ('ar', 'ao', 'nr', 'no')
    REQ = ('ar', 'nr')

    def add(c, NA, variants=ALL, prefixes=()):
        out.append((c, NA, variants, list(prefixes)))

    def pref(*vals):
        ps = []
        for v in vals:
            d = str(v)
            if len(d) > 2 and d[:-2] not in ps:
                ps.append(d[:-2])
        return ps

    small = 5 if quick else 6
    add(rule_case('ur', 'unsigned_rule'), small + 1)
    add(rule_case('sr', 'signed_rule', signed=True), small + 1)
    if quick:
        UMAX = {8: [255, 9, 100], 16: [65535, 1000], 32: [umax(32)], 64: [umax(64)]}
    else:
        UMAX = {8: [255, 0, 9, 10, 99, 100, 199], 16: [65535, 999, 1000, 1001, 9999, 10000],
                32: [umax(32), 999999999, 1000000000, 1000000001, 65535], 64: [umax(64), 10 ** 19 - 1, 10 ** 19, 10 ** 19 + 1, 1 << 63, umax(32)]}
    for b in (8, 16, 32, 64):
        U, S = UT[b], ST[b]
        full = b <= 16
        M = umax(b)
        SM = M >> 1
        na = digits_of(M) + 2 if full else small
        nas = digits_of(SM) + 3 if full else small + 1
        pf = [] if full else pref(M - 1, M + 1)
        pfs = [] if full else pref(SM, SM + 2)
        v1 = ALL if (b == 8 or not quick) else REQ
        if b == 8 or not quick:
            add(rule_case('ur_act_u%d' % b, 'unsigned_rule', U, 'c15::bind< unsigned_action, unsigned_rule >::on', b, maxpos=M, ovf_a=2, conv=1), na, v1, pf)
            add(rule_case('sr_act_s%d' % b, 'signed_rule', S, 'c15::bind< signed_action, signed_rule >::on', b, signed=True, maxpos=SM, maxneg=SM + 1, ovf_a=2, conv=1), nas, v1, pfs)
        add(rule_case('ura_u%d' % b, 'unsigned_rule_with_action', U, None, b, maxpos=M, ovf_a=2, conv=1), na, v1 if b == 8 or not quick else ALL if b == 16 else REQ, pf)
        add(rule_case('sra_s%d' % b, 'signed_rule_with_action', S, None, b, signed=True, maxpos=SM, maxneg=SM + 1, ovf_a=2, conv=1), nas, v1 if b == 8 or not quick else ALL if b == 16 else REQ, pfs)
        for mx in UMAX[b]:
            ml = cxxlit(mx, b)
            mr = 'maximum_rule< %s, %s >' % (U, ml)
            ma = 'maximum_action< %s, %s >' % (U, ml)
            if full or digits_of(mx) + 2 <= small + 1:
                na, pf = digits_of(mx) + 2, []
            else:
                na, pf = small, pref(mx - 1, mx + 1)
            main = mx == M
            v2 = ALL if ((b == 8 and (main or not quick)) or (not quick and main)) else REQ
            add(rule_case('mr_u%d_%d' % (b, mx), mr, None, None, 64, maxpos=mx, ovf_a=1, ovf_n=1), na, v2, pf)
            add(rule_case('mra_u%d_%d' % (b, mx), 'maximum_rule_with_action< %s, %s >' % (U, ml), U, None, b, maxpos=mx, ovf_a=2, ovf_n=2, conv=1), na, v2, pf)
            if (b == 8 and (main or not quick)) or (not quick and main):
                add(rule_case('mr_act_u%d_%d' % (b, mx), mr, U, 'c15::bind< %s, %s >::on' % (ma, mr), b, maxpos=mx, ovf_a=1, ovf_n=1, conv=1), na, v2, pf)
                add(rule_case('ur_mact_u%d_%d' % (b, mx), 'unsigned_rule', U, 'c15::bind< %s, unsigned_rule >::on' % ma, b, maxpos=mx, ovf_a=2, conv=1), na, v2, pf)
    return out


# ------------------------------------------------------------------------------------------------ (i) + (ii) conversion kernels

def tname(bits, signed):
    return ('s' if signed else 'u') + str(bits)


def kernel_max(bits, signed, quick):
    """Maximum template values per integer type: type max, small values, powers of ten +-1, and (unsigned) the convert_negative limit"""
    if signed:
        m = umax(bits) >> 1
        tab = {8: [m, 9, 10, 99, 100, 126], 16: [m, 999, 1000, 9999, 10000, 10001], 32: [m, 10 ** 9 - 1, 10 ** 9, 10 ** 9 + 1, 65535],
               64: [m, 10 ** 18 - 1, 10 ** 18, 10 ** 18 + 1, umax(32)]}
    else:
        m = umax(bits)
        h = (m >> 1) + 1    # convert_negative< Signed > accumulates in the unsigned type up to max + 1
        tab = {8: [m, h, 0, 1, 9, 10, 11, 99, 100, 101, 199, 200, 249, 250, 254],
               16: [m, h, 9, 10, 99, 100, 255, 256, 999, 1000, 1001, 9999, 10000, 10001, 65529, 65530, 65534],
               32: [m, h, 9, 10, 100, 65535, 10 ** 9 - 1, 10 ** 9, 10 ** 9 + 1, m - 6, m - 5, m - 1],
               64: [m, h, h - 1, 9, 10, 100, umax(32), umax(32) + 1, 10 ** 18, 10 ** 19 - 1, 10 ** 19, 10 ** 19 + 1, m - 6, m - 5, m - 1]}
    return tab[bits]


def conv_unit(ctx, bits, signed, maxes, loopmaxes):
    T = (ST if signed else UT)[bits]
    tn = tname(bits, signed)
    L = ['// generated wrapper TU (C15): conversion kernels for %s' % T, '#include "c15_kernels.hpp"']
    sig = '( const char* b, unsigned long n, unsigned long r, unsigned long* o )'
    for m in maxes:
        L.append('C15_EXPORT void w_step_%s_%d( unsigned long r, unsigned long d, unsigned long* o ) { c15::step< %s, %s >( r, d, o ); }' % (tn, m, T, cxxlit(m, bits, signed)))
    for m in loopmaxes:
        L.append('C15_EXPORT void w_digits_%s_%d%s { c15::digits< %s, %s >( b, n, r, o ); }' % (tn, m, sig, T, cxxlit(m, bits, signed)))
        if signed:
            L.append('C15_EXPORT void w_cpos_%s_%d%s { c15::cpos< %s, %s >( b, n, r, o ); }' % (tn, m, sig, T, cxxlit(m, bits, signed)))
        else:
            L.append('C15_EXPORT void w_cuns_%s_%d%s { c15::cuns< %s, %s >( b, n, r, o ); }' % (tn, m, sig, T, cxxlit(m, bits, signed)))
    if signed:
        L.append('C15_EXPORT void w_cneg_%s%s { c15::cneg< %s >( b, n, r, o ); }' % (tn, sig, T))
        L.append('C15_EXPORT void w_csig_%s%s { c15::csig< %s >( b, n, r, o ); }' % (tn, sig, T))
    # -ftrapv: source-level signed overflow (UB) becomes a trap in the IR (asserted unreachable by the harness API) and an abort in the real build
    return ctx.unit('c15k_' + tn, text='\n'.join(L) + '\n', cxxflags=['-ftrapv'])


def conv_harness(bits, signed, calls, NL=None, prefix=None):
    """calls: [(wrapper name, macro text with %(wit)s, [input witnesses (before the call)], [outcome witnesses (after it)], need_nonempty)]"""
    D = ['/* generated harness (C15): conversion kernels, %s%d */' % ('s' if signed else 'u', bits)]
    if NL is not None:
        D += ['#define NL %d' % NL, '#define CV_MINN %d' % (len(prefix) if prefix else 0)]
    if prefix:
        D.append('#define C15_PREFIX "%s"' % prefix)
    D += ['#define C15_BITS %d' % bits, '#define C15_TSIGNED %d' % (1 if signed else 0), '#include "verif.h"']
    D += ['#ifndef VF_SPLIT'] + ['#define V_%s 1' % c[0] for c in calls] + ['#endif']
    D += ['#include "c15_conv.h"', 'static void c15_calls(void) {']
    for w, macro, wit, reach, nonempty in calls:
        D.append('#if V_%s' % w)
        D.append('  %s{ %s;' % ('if (cv_n >= 1) ' if nonempty else '', macro % {'wit': ' '.join('REACH(%s, "%s");' % (e, m) for e, m in wit)}))
        D += ['    REACH(%s, "%s");' % (e, m) for e, m in reach]
        D.append('  }')
        D.append('#endif')
    D.append('}')
    return '\n'.join(D) + '\n'


def fold_wit(maxv, NL, prefix, r0_symbolic):
    """input witnesses of a fold kernel: which specification outcomes exist within the bound"""
    pl = len(prefix or '')
    lo = int((prefix or '') + '0' * (NL - pl)) if prefix else 0          # smallest value of a longest string
    hi = int((prefix or '') + '9' * (NL - pl))                            # largest value of any string
    R = [('cv_ok && cv_n >= 1', 'value fits')]
    if lo <= maxv:
        R.append(('cv_ok && cv_n == NL', 'longest string fits'))
    if hi > maxv or r0_symbolic:
        R.append(('!cv_ok', 'value beyond the maximum'))
    return R


def conv_queries(ctx, qs, bits, signed, quick):
    tn = tname(bits, signed)
    maxes = kernel_max(bits, signed, quick)
    tmax = maxes[0]
    W = digits_of(tmax)
    smax_mag = (umax(bits) >> 1) + 1
    keep = (tmax, smax_mag, 10, 100, 1000, 10 ** 9, 10 ** 18, 10 ** 19)
    loopmaxes = maxes if not quick else [m for m in maxes if m in keep]
    unit = conv_unit(ctx, bits, signed, maxes, loopmaxes)
    after = [('cv_ret == 1', 'kernel returned true')]
    # (i) step lemma: one query for all Maximum values of the type
    calls = [('step_%s_%d' % (tn, m), 'C15_STEP(w_step_%s_%d, %s)' % (tn, m, lit(m)), [], [('cv_ok', 'step fits'), ('!cv_ok', 'step overflows')], False) for m in maxes]
    h = ctx.write('k_step_%s.c' % tn, conv_harness(bits, signed, calls))
    qs.append(vf.Query('step/%s' % tn, unit, h, unwind=3, mem_gb=1, solver='cadical',
                       bounds={'type': tn, 'maximum': maxes, 'accumulator': 'every value' if not signed else 'every non-negative value', 'digit': '0..9'},
                       note='accumulate_digit<%s, Max>: one step from every state vs exact arithmetic' % tn))

    # (ii) loops on symbolic digit strings
    def loop_calls(NLx, prefix, ms, with_digits):
        C = []
        for m in ms:
            if with_digits:
                C.append(('digits_%s_%d' % (tn, m), 'C15_DIGITS(w_digits_%s_%d, %s, %%(wit)s)' % (tn, m, lit(m)), fold_wit(m, NLx, prefix, True), after, False))
            k = 'cpos' if signed else 'cuns'
            C.append(('%s_%s_%d' % (k, tn, m), 'C15_%s(w_%s_%s_%d, %s, %%(wit)s)' % (k.upper(), k, tn, m, lit(m)), fold_wit(m, NLx, prefix, False), after, True))
        if signed and tmax in ms:
            dm, dp = str(smax_mag), str(smax_mag - 1)
            has_min = len(dm) <= NLx and (not prefix or dm.startswith(prefix))
            has_max = len(dp) <= NLx and (not prefix or dp.startswith(prefix))
            R = fold_wit(smax_mag, NLx, prefix, False)
            if has_min:
                R.append(('cv_ok && cv_v == (cv_val)CV_SMAX + 1', 'input is the most negative value'))
            C.append(('cneg_%s' % tn, 'C15_CNEG(w_cneg_%s, %%(wit)s)' % tn, R, after, True))
            R = fold_wit(smax_mag - 1, NLx, prefix, False) + [('cv_ok && cv_sign == 1', 'explicit plus sign'), ('cv_ok && cv_sign == 0', 'no sign'), ('cv_ok && cv_sign == 2 && cv_v > 0', 'negative value')]
            if has_min:
                R.append(('cv_ok && cv_neg && cv_v == (cv_val)CV_SMAX + 1', 'input is the most negative value'))
            if has_max:
                R.append(('cv_ok && !cv_neg && cv_v == (cv_val)CV_SMAX', 'input is the most positive value'))
            C.append(('csig_%s' % tn, 'C15_CSIG(w_csig_%s, %%(wit)s)' % tn, R, after, True))
        return C

    def emit(NLx, prefix, tag, ms, with_digits, solver=None):
        calls = loop_calls(NLx, prefix, ms, with_digits)
        h = ctx.write('k_loop_%s%s.c' % (tn, tag), conv_harness(bits, signed, calls, NLx, prefix))
        for c in calls:
            w = c[0]
            qs.append(vf.Query('conv/%s%s' % (w, tag), unit, h, unwind=NLx + 2, cbmc_defines={'VF_SPLIT': 1, 'V_' + w: 1}, mem_gb=2,
                               solver=solver or 'cadical',
                               bounds={'kernel': w, 'digits': NLx, 'prefix': prefix, 'start_accumulator': 'every value' if w.startswith('digits') else 0},
                               note='%s on symbolic digit strings vs exact arithmetic' % w))

    if bits <= 16:
        NL = W + 1                      # exhaustive: every digit string up to one digit beyond the width
    elif bits == 32:
        NL = 6 if quick else 11
    else:
        NL = 6 if quick else 8
    emit(NL, None, '', loopmaxes, True)
    if bits >= 32:
        # boundary neighbourhoods: concrete high digits, T symbolic low digits, up to one digit beyond the width
        T = 6 if quick else 8
        for v in ([tmax, smax_mag] if not signed else [tmax]):
            d = str(v)
            emit(len(d) + 1, d[:-T], '@' + d[:-T], [v], False)


def plan(ctx):
    qs = []
    quick = ctx.quick()
    for c, NA, variants, prefixes in rule_cases(quick):
        groups = [(v,) for v in variants]       # one variant per query: the SAT instances grow faster than linearly when variants share a run
        rule_queries(ctx, qs, c, NA, groups)
        for p in prefixes:
            sg = 1 if c['signed'] else 0
            for n in (sg + len(p) + 2, sg + len(p) + 3, sg + len(p) + 4):
                # numeral of exactly the width / one digit more, at the end of the input or followed by a byte
                rule_queries(ctx, qs, c, n, groups, prefix=p, tag='@%s:%d' % (p, n), fixn=n)
    for bits in (8, 16, 32, 64):
        for signed in (False, True):
            conv_queries(ctx, qs, bits, signed, quick)
    return qs
