"""C07 — parse results do not depend on the input class, buffering or chunking."""
import os
import vf

LEVEL_TEXT = ''
ASSUMPTIONS = []

OPS = ('require', 'size', 'end', 'empty', 'bump', 'bump_in_this_line', 'bump_to_next_line', 'discard', 'rewind')
REQ = '_ZN3tao5pegtl12buffer_inputI7vreaderNS0_5ascii3eol7lf_crlfEPKcLm%dEE7requireEm.0'


def plan(ctx):
    qs = []
    cpp = os.path.join(vf.VERIF, 'harness', 'c07.cpp')
    h = os.path.join(vf.VERIF, 'harness', 'c07.c')
    shape = {'NSETUP': 3, 'SETUP_SHAPE': '{0,1,3}', 'SETUP_ONE_READ': 1}
    for chunk, maxima in ((1, (2,)), (2, (2,)), (4, (1,))):
        unit = ctx.unit('c07_ops_c%d' % chunk, cpp=cpp, cxxflags=['-DCHUNK=%d' % chunk])
        for mx in maxima:
            cap = mx + chunk
            LMAX = cap + 1
            for i, op in enumerate(OPS):
                qs.append(vf.Query('op/chunk%d/max%d/%s' % (chunk, mx, op), unit, h, defines=dict(shape, CHUNK=chunk, LMAX=LMAX, MAXMAX=mx),
                                   cbmc_defines={'VF_SPLIT': 1, 'C07_OP': i, 'MAXIMUM': mx}, unwind=LMAX + 2,
                                   unwindset=[(REQ % chunk) + ':%d' % (cap + 1)], mem_gb=3))
    return qs
