"""C07 — parse results do not depend on the input class, buffering or chunking."""
import os
import vf

LEVEL_TEXT = ''
ASSUMPTIONS = []

OPS = ('require', 'size', 'end', 'empty', 'bump', 'bump_in_this_line', 'bump_to_next_line', 'discard', 'rewind')
REQ = '_ZN3tao5pegtl12buffer_inputI7vreaderNS0_5ascii3eol7lf_crlfEPKcLm%dEE7requireEm.0'

# leaf rules run on buffer_input and on memory_input; need = largest look-ahead (bytes from where the rule starts) the rule may ask for
RULES = [
    dict(name='any', cxx='any', need=1),
    dict(name='one', cxx="one< 'a' >", need=1),
    dict(name='range', cxx="range< 'a', 'c' >", need=1),
    dict(name='string', cxx="string< 'a', 'b', 'c' >", need=3),
    dict(name='istring', cxx="istring< 'a', 'b' >", need=2),
    dict(name='utf8_any', cxx='utf8::any', need=4),
    dict(name='eof', cxx='eof', need=1, flags=['C07_NO_SHORT']),
    dict(name='eol', cxx='eol', need=2),
    dict(name='eolf', cxx='eolf', need=2),
    dict(name='bytes2', cxx='bytes< 2 >', need=2),
    dict(name='rep_min_max', cxx="rep_min_max< 1, 3, one< 'a' > >", need=4),
    dict(name='must', cxx="seq< A1, must< B1 > >", need=2),
]


def plan(ctx):
    qs = []
    cpp = os.path.join(vf.VERIF, 'harness', 'c07.cpp')
    h = os.path.join(vf.VERIF, 'harness', 'c07.c')
    shape = {'NSETUP': 3, 'SETUP_SHAPE': '{0,1,3}', 'SETUP_ONE_READ': 1}
    for chunk, maxima in ((1, (2,)), (2, (2,)), (4, (2,))):
        unit = ctx.unit('c07_ops_c%d' % chunk, cpp=cpp, cxxflags=['-DCHUNK=%d' % chunk])
        for mx in maxima:
            cap = mx + chunk
            LMAX = cap + 1
            for i, op in enumerate(OPS):
                qs.append(vf.Query('op/chunk%d/max%d/%s' % (chunk, mx, op), unit, h, defines=dict(shape, CHUNK=chunk, LMAX=LMAX, MAXMAX=mx),
                                   cbmc_defines={'VF_SPLIT': 1, 'C07_OP': i, 'MAXIMUM': mx}, unwind=LMAX + 2,
                                   unwindset=[(REQ % chunk) + ':%d' % (cap + 1)], mem_gb=3))
    for chunk, mx in ((2, 2),):
        cap = mx + chunk
        LMAX = cap + 1
        for r in RULES:
            unit = ctx.unit('c07_rule_%s_c%d' % (r['name'], chunk), cpp=cpp, cxxflags=['-DCHUNK=%d' % chunk, '-DC07_RULE=' + r['cxx']] + ['-D' + f for f in r.get('cxxflags', [])])
            d = dict(shape, CHUNK=chunk, LMAX=LMAX, MAXMAX=mx, C07_RULE_MODE=1, C07_OVERFLOW_OK='(s0.c+%d>M_)' % r['need'])
            for f in r.get('flags', []):
                d[f] = 1
            qs.append(vf.Query('rule/chunk%d/max%d/%s' % (chunk, mx, r['name']), unit, h, defines=d, cbmc_defines={'MAXIMUM': mx}, unwind=LMAX + 2,
                               unwindset=[(REQ % chunk) + ':%d' % (cap + 1)], mem_gb=3))
    return qs
