"""C07 — parse results do not depend on the input class, buffering or chunking."""
import os
import vf

LEVEL_TEXT = ('bounded symbolic model checking, decided modularly (a whole parse through buffer_input was measured at 340 s / 11.5 GB for 4 bytes): the real '
              'buffer_input< Reader, lf_crlf, const char*, Chunk > compiled from the headers is driven by a harness-side reader over a symbolic stream that returns '
              'any legal sequence of read sizes (1..min(request, rest) bytes per call, 0 only at the end); the input is brought into an arbitrary valid state by real '
              'operations with symbolic arguments (require, bump, discard), the representation invariant (buffer <= current <= end <= buffer + maximum + Chunk, '
              'consumed + buffered = read, window == stream at the consumed offset, line/column == recount) is CHECKED in that state through the public interface, '
              'then ONE more real operation runs and CBMC decides its contract for all streams, read-size tables, arguments and states within the bounds: '
              'require/size/end/empty (std::overflow_error exactly when the request does not fit between cursor and buffer end, otherwise min(amount, rest of the '
              'stream) bytes available whatever the reader returned, never asked to write outside the buffer), bump* (counters like a memory input), discard '
              '(window, counters preserved; afterwards `maximum` bytes can be buffered), rewind guard (cursor/counters restored, also when overflow_error unwinds). '
              'Second family: every leaf rule of a representative set runs on such a buffer_input and on a memory_input over the logical rest of the stream '
              '(constructed with the same byte/line/column): same result, consumption, line/column, parse-error identity/position and action trace, or '
              'std::overflow_error only if the rule\'s look-ahead does not fit. string_input / argv_input: the real classes present exactly the given bytes. '
              'Induction (DESIGN.md section 4): rules reach the input only through these operations (C01: combinators only through rewind save/restore), every '
              'operation preserves the invariant and agrees with the logical stream, hence whole runs agree as long as discard is used where no rewind guard or '
              'action input is live (the documented condition).')

ASSUMPTIONS = [
    'bounds: Chunk in {1,2,4}; maximum is a constant per query (a heap buffer of symbolic size is prohibitively expensive for CBMC): quick (Chunk,maximum) = (2,2) all operations and '
    'all leaf rules, (1,2) require/empty/rewind, (1,3) and (2,3) discard (moves two bytes), (4,2) require/discard; thorough: operations for Chunk 1 x maximum 2..4, Chunk 2 x 1..3, '
    'Chunk 4 x 0..2 (capacity = maximum + Chunk <= 6), leaf rules for (2,2), (1,3), (4,1), any/eof for (2,0), grammars with discard for (1,2), (2,1); stream length <= capacity + 1 '
    '(one byte more than the buffer can ever hold: with c consumed-but-buffered bytes, w window bytes and r bytes not yet read, every configuration c + w + r <= capacity + 1 is '
    'reached); amounts 0..capacity + 1',
    'arbitrary valid state = state after the real operations require(a1); bump(k1); discard() or bump(k2) [thorough additionally for (1,2), (2,2): ...; require(a3); bump(k3)] with '
    'symbolic arguments, where the first require is served by its first read (a window of e bytes is reached by require(e) answered with e bytes, so no state is lost); bytes in '
    'front of the cursor are never read by buffer_input and are left as these operations produce them',
    'the reader is total and deterministic per stream offset (its read size is a symbolic table indexed by the offset: every finite sequence of legal read sizes is some table); '
    'readers that throw (cstream_reader / istream_reader on I/O errors) are not modelled',
    'reference for the leaf rules is memory_input< tracking_mode::eager, lf_crlf > over the rest of the stream, constructed with the byte/line/column of the buffer_input; eager vs '
    'lazy tracking is C06; other Eol policies use the same buffer_input code (Eol only enters through bump( n ) -> Eol::ch and the eol rule)',
    'std::overflow_error( const char* ) / ~overflow_error are libstdc++ externals with empty models (the object is identified by its type only; what() is not called); the '
    "library's own assert()s are checked, not assumed",
    'NOT APPLICABLE (I/O and FFI, cannot be encoded; listed, not claimed): read_input / internal::read_file_stdio (fopen/fread/fseek/ftell), mmap_input / internal::mmap_file '
    '(open/fstat/mmap; empty files, page-size boundaries), file_input (alias of one of the two), cstream_input / cstream_reader (fread/feof/ferror), istream_input / '
    'istream_reader (std::istream::read/gcount/eof). Their PEGTL-side logic, by reading: read_input = string_input over the string returned by read_string(); mmap_input = '
    'memory_input( data.begin(), data.end() ); cstream_input / istream_input = buffer_input< reader > whose reader forwards to fread / istream::read (both may legally '
    'return short reads: the case covered by the symbolic reader)',
    'argv_input( argv, n ) without explicit source builds its source name with std::ostringstream (not encoded); the check uses the constructor with an explicit source',
    "string_input: std::string is libstdc++ (small-string path, <= 6 bytes; memcpy replaced by a byte loop in that harness because CBMC's built-in memcpy with symbolic length lost "
    'bytes copied into the small-string buffer)',
    'discard() while a rewind guard is live (rewind_mode::required above it) or under a rule with an action that takes the input is excluded (documented as forbidden: "MUST NOT be '
    'used where backtracking to before the discard might occur AND/OR nested within a rule for which an action with input can be called"); note that an exception (must<>) that '
    'unwinds through a live required-mode guard after a discard restores a stale cursor: the grammars with discard therefore run under rewind_mode::optional like '
    'tao::pegtl::parse() does by default',
]

OPS = ('require', 'size', 'end', 'empty', 'bump', 'bump_in_this_line', 'bump_to_next_line', 'discard', 'rewind')
REQ = '_ZN3tao5pegtl12buffer_inputI7vreaderNS0_5ascii3eol7lf_crlfEPKcLm%dEE7requireEm.0'

# leaf rules run on buffer_input and on memory_input; ok = when std::overflow_error is a permitted outcome
# (s0.c = bytes between buffer start and cursor when the rule starts, M_ = capacity)
RULES = [
    dict(name='any', cxx='any', need=1, single=True),
    dict(name='one', cxx="one< 'a' >", need=1, single=True),
    dict(name='range', cxx="range< 'a', 'c' >", need=1, single=True),
    dict(name='string', cxx="string< 'a', 'b', 'c' >", need=3),
    dict(name='istring', cxx="istring< 'a', 'b' >", need=2),
    dict(name='utf8_any', cxx='utf8::any', need=4),
    dict(name='eof', cxx='eof', need=1, flags=['C07_NO_SHORT'], single=True),
    dict(name='eol', cxx='eol', need=2),
    dict(name='eolf', cxx='eolf', need=2),
    dict(name='bytes2', cxx='bytes< 2 >', need=2),
    dict(name='rep_min_max', cxx="rep_min_max< 1, 3, one< 'a' > >", need=4, single=True),
    dict(name='must', cxx="seq< A1, must< B1 > >", need=2, single=True),
]
# one rule per remaining peek family (each has its own in.size( n ) request, i.e. its own way to ask the buffer for look-ahead): a unit that straddles the
# end of the buffered data must be completed by require(), whatever the read sizes
RULES_PEEK = [
    dict(name='uint16_be_any', cxx='uint16_be::any', need=2),
    dict(name='uint16_le_one', cxx='uint16_le::one< 0x6261 >', need=2),
    dict(name='uint32_be_any', cxx='uint32_be::any', need=4),
    dict(name='mask_uint16_be', cxx='uint16_be::mask_one< 0xff7f, 0x6162 >', need=2),
    dict(name='uint8_any', cxx='uint8::any', need=1, single=True),
    dict(name='mask_uint8', cxx='uint8::mask_one< 0x7f, 0x61 >', need=1, single=True),
    dict(name='utf16_be_any', cxx='utf16_be::any', need=4),
    dict(name='utf32_le_any', cxx='utf32_le::any', need=4),
    # contrib rules with their own look-ahead requests
    dict(name='rep_one_min_max', cxx="rep_one_min_max< 1, 2, 'a' >", need=3),
]
# raw_string as a whole needs a stream of >= 6 bytes for a literal of level 1: (2,2) took 334 s, (2,4) ran out of memory; the opening bracket (the part that
# requests look-ahead incrementally) is run on its own (harness/c07.cpp: raw_open)
RULE_RAW = dict(name='raw_string_open', cxx='raw_open', ok='1')   # look-ahead depends on the data (any level): overflow_error is always a permitted outcome, a different result is not
RULE_UNTIL = dict(name='until', cxx="until< one< 'b' > >", ok='(s0.c+first_b(s0.byte)+1>M_)')
# grammars that discard where nothing can backtrack (top-level rewind_mode::optional as in tao::pegtl::parse(), no action with input above the discard):
# arbitrarily long input through a small buffer; overflow only if the very first request does not fit or maximum = 0 (documented: eof needs a free byte)
DISCARD_OK = '((s0.occ==0&&s0.c+1>M_)||maximum_==0)'
RULES_DISCARD = [
    dict(name='discard_loop', cxx='until< eof, seq< any, discard > >', ok=DISCARD_OK, cxxflags=['C07_NO_TOP_ACTION', 'C07_REWIND=optional'], flags=['C07_NEVER_FAILS'], single=True),
    dict(name='discard_must', cxx="seq< A1, discard, must< B1 > >", ok=DISCARD_OK, cxxflags=['C07_NO_TOP_ACTION', 'C07_REWIND=optional'], single=True),
]


def plan(ctx):
    qs = []
    quick = ctx.quick()
    cpp = os.path.join(vf.VERIF, 'harness', 'c07.cpp')
    h = os.path.join(vf.VERIF, 'harness', 'c07.c')
    # D9 (require() called the reader once): the driver applies the exclusion only while known_findings.json records D9 as 'known' and drops the
    # confirmation query once it is recorded as 'fixed'
    d9 = 'D9'
    short = ({'NSETUP': 3, 'SETUP_SHAPE': '{0,1,3}', 'SETUP_ONE_READ': 1}, 'require(a1); bump(k1); discard() or bump(k2)')
    long_ = ({'NSETUP': 5, 'SETUP_SHAPE': '{0,1,3,0,1}', 'SETUP_ONE_READ': 1}, 'require(a1); bump(k1); discard() or bump(k2); require(a3); bump(k3)')
    if quick:
        op_cfgs = [(2, 2, OPS, short), (2, 3, ('discard',), short), (1, 2, ('require', 'empty', 'rewind'), short), (1, 3, ('discard',), short), (4, 2, ('require', 'discard'), short)]
        rule_cfgs = [(2, 2, RULES + RULES_PEEK + [RULE_RAW], short)]
    else:
        op_cfgs = ([(1, m, OPS, short) for m in (2, 3, 4)] + [(2, m, OPS, short) for m in (1, 2, 3)] + [(4, m, OPS, short) for m in (0, 1, 2)] +
                   [(4, 3, ('discard',), short), (1, 2, ('require', 'discard', 'rewind'), long_), (2, 2, ('require', 'discard', 'rewind'), long_)])
        rule_cfgs = [(2, 2, RULES + RULES_PEEK + [RULE_UNTIL], short), (1, 3, RULES + RULES_PEEK, short), (4, 1, RULES + RULES_PEEK, short), (2, 0, RULES[:1] + RULES[6:7], short), (1, 2, RULES_DISCARD, short), (2, 1, RULES_DISCARD, short), (1, 3, [RULE_RAW], short), (2, 2, [RULE_RAW], short)]

    def common(chunk, mx, sh):
        shape, shape_txt = sh
        cap = mx + chunk
        lmax = cap + 1
        return cap, lmax, dict(shape, CHUNK=chunk, LMAX=lmax, MAXMAX=mx), {'Chunk': chunk, 'maximum': mx, 'capacity': cap, 'stream_bytes': lmax, 'amounts': '0..%d' % (cap + 1),
                                                                          'setup': shape_txt, 'reader': 'any 1..min(request, rest) bytes per call, 0 only at the end'}

    for chunk, mx, ops, sh in op_cfgs:
        unit = ctx.unit('c07_ops_c%d' % chunk, cpp=cpp, cxxflags=['-DCHUNK=%d' % chunk])
        cap, lmax, d, b = common(chunk, mx, sh)
        tag = '/long' if sh is long_ else ''
        for op in ops:
            kw = dict(defines=d, cbmc_defines={'VF_SPLIT': 1, 'C07_OP': OPS.index(op), 'MAXIMUM': mx}, unwind=max(lmax + 2, 8), unwindset=[(REQ % chunk) + ':%d' % (cap + 1)],
                      mem_gb=3, bounds=dict(b, operation=op))
            qs.append(vf.Query('op/chunk%d/max%d/%s%s' % (chunk, mx, op, tag), unit, h, known=d9, note='contract of buffer_input::%s from an arbitrary valid state' % op, **kw))
            if op == 'require' and (chunk, mx) == (2, 2) and sh is short:
                qs.append(vf.Query('known/D9/require', unit, h, expect_fail='D9', note='confirmation of D9: one reader call per require()', **kw))
    for chunk, mx, rules, sh in rule_cfgs:
        cap, lmax, d0, b = common(chunk, mx, sh)
        for r in rules:
            unit = ctx.unit('c07_rule_%s_c%d' % (r['name'], chunk), cpp=cpp, cxxflags=['-DCHUNK=%d' % chunk, '-DC07_RULE=' + r['cxx']] + ['-D' + f for f in r.get('cxxflags', [])])
            d = dict(d0, C07_RULE_MODE=1, C07_OVERFLOW_OK=r.get('ok') or '(s0.c+%d>M_)' % r['need'])
            for f in r.get('flags', []):
                d[f] = 1
            if chunk == 1 and r.get('single'):
                d['C07_NO_SHORT'] = 1      # the rule asks for one byte at a time and Chunk = 1: the reader is never asked for more than one byte
            heavy = r['name'] in ('utf8_any', 'discard_loop', 'until')
            qs.append(vf.Query('rule/chunk%d/max%d/%s' % (chunk, mx, r['name']), unit, h, defines=d, cbmc_defines={'MAXIMUM': mx}, unwind=max(lmax + 2, 8),
                               unwindset=[(REQ % chunk) + ':%d' % (cap + 1)], mem_gb=4 if heavy else 3, known=d9, bounds=dict(b, rule=r['cxx'], overflow_permitted_if=d['C07_OVERFLOW_OK']),
                               note='%s on buffer_input (arbitrary valid state, short reads) vs memory_input over the rest of the stream' % r['cxx']))
    unit = ctx.unit('c07_thin', cpp=os.path.join(vf.VERIF, 'harness', 'c07_thin.cpp'))
    for v in ('string', 'argv'):
        qs.append(vf.Query('thin/%s_input' % v, unit, os.path.join(vf.VERIF, 'harness', 'c07_thin.c'), defines={'LMAX': 6}, cbmc_defines={'VF_SPLIT': 1, 'V_' + v: 1}, unwind=9, mem_gb=2,
                           bounds={'bytes': 6}, note='%s_input presents exactly the given bytes and starts at byte 0, line 1, column 1' % v))
    # every multi-byte single-unit rule of C10 (UTF-8/16/32, uintN, string/istring ...) with C10's specifications, over an input that grants exactly the
    # look-ahead a rule requests (size( n ) == min( n, remaining )): a rule that judges "enough input" from a smaller request than the bytes it reads,
    # or reads what it never requested, behaves differently on buffered inputs than on memory inputs
    from props import C10
    qs += C10.plan_with(ctx, input_t='vf::stingy_in', prefix='stingy/', unit_prefix='c07s_', min_k=2)
    return qs
