"""C07 — parse results do not depend on the input class, buffering or chunking."""
import os
import vf

LEVEL_TEXT = ''
ASSUMPTIONS = []

OPS = ('require', 'size', 'end', 'empty', 'bump', 'bump_line', 'discard', 'rewind')


def plan(ctx):
    qs = []
    cpp = os.path.join(vf.VERIF, 'harness', 'c07.cpp')
    h = os.path.join(vf.VERIF, 'harness', 'c07.c')
    LMAX = 6
    shape = {'NSETUP': 5, 'SETUP_SHAPE': '{0,1,3,0,1}'}
    for chunk, maxima in ((2, (3,)),):
        unit = ctx.unit('c07_ops_c%d' % chunk, cpp=cpp, cxxflags=['-DCHUNK=%d' % chunk])
        for mx in maxima:
            for op in OPS:
                qs.append(vf.Query('op/chunk%d/max%d/%s' % (chunk, mx, op), unit, h, defines=dict(shape, CHUNK=chunk, LMAX=LMAX),
                                   cbmc_defines={'VF_SPLIT': 1, 'V_' + op: 1, 'MAXIMUM': mx}, unwind=LMAX + 4, mem_gb=3))
    return qs
