"""C04 — actions fire once per surviving successful match with the exact matched span."""
import evplan

LEVEL_TEXT = ('bounded symbolic equivalence of event logs: for named rules over symbolic sub-rules with void / bool (vetoing, throwing) apply and apply0 '
              'actions, the sequence of action invocations with their spans [begin,end), interleaved with the rule hooks, produced by the real match() '
              'machinery equals the reference protocol (action iff the rule just matched and actions are enabled, span = start..cursor, none inside '
              'at/not_at/disable, re-enabled by enable, veto = local failure with cursor restored), on eager and lazy inputs; the statement about the '
              'surviving derivation follows from the per-frame contract by induction with C01')

S0, S1, S2 = 'sym<0>', 'sym<1>', 'sym<2>'
GRAMMARS = [
    ('single', 'named< 0, %s >' % S0, {}),
    ('seq', 'named< 0, %s, named< 1, %s > >' % (S0, S1), {}),
    ('at', 'named< 0, at< named< 1, %s > >, %s >' % (S0, S1), {}),
    ('not_at', 'named< 0, not_at< named< 1, %s > >, %s >' % (S0, S1), {}),
    ('disable', 'named< 0, disable< named< 1, %s > >, %s >' % (S0, S1), {}),
    ('enable_in_disable', 'named< 0, disable< %s, enable< named< 1, %s > > >, %s >' % (S0, S1, S2), {}),
    ('enable_in_at', 'named< 0, at< enable< named< 1, %s > > >, %s >' % (S0, S1), {}),
    ('backtrack', 'named< 0, sor< seq< named< 1, %s >, %s >, %s > >' % (S0, S1, S2), {}),
    ('opt_star', 'named< 0, opt< named< 1, %s > >, star< %s > >' % (S0, S1), {'evmax': 36}),
    ('apply', 'named< 0, %s, apply< pa< 0 >, pab< 1 > >, %s >' % (S0, S1), {}),
    ('apply0', 'named< 0, %s, apply0< pab< 0 >, pa< 1 > > >' % S0, {}),
    # if_apply / apply at top level and directly under opt<> / sor<>: no enclosing guard repairs the cursor after a veto
    ('if_apply_top', 'if_apply< named< 1, %s, %s >, pa< 0 >, pab< 1 > >' % (S0, S1), {}),
    ('if_apply_opt', 'named< 0, opt< if_apply< named< 1, %s >, pab< 0 > > >, %s >' % (S0, S1), {}),
    ('if_apply_sor', 'named< 0, sor< if_apply< named< 1, %s >, pab< 0 > >, %s > >' % (S0, S1), {}),
    ('if_apply', 'named< 0, if_apply< named< 1, %s, %s >, pa< 0 >, pab< 1 > >, %s >' % (S0, S1, S2), {}),
]


def plan(ctx):
    N = 3 if ctx.quick() else 4
    if ctx.quick():
        qs = evplan.queries(ctx, 'c04', GRAMMARS, ['void', 'bool', 'bool0'], N, modes=('ar', 'ao', 'nr'))
        qs += evplan.queries(ctx, 'c04', GRAMMARS[:4], ['bool'], N, modes=('ar',), lazy=True)
    else:
        qs = evplan.queries(ctx, 'c04', GRAMMARS, ['void', 'bool', 'bool_nu', 'void0', 'bool0'], N, modes=('ar', 'ao', 'nr', 'no'))
        qs += evplan.queries(ctx, 'c04', GRAMMARS, ['void', 'bool', 'bool0'], N, modes=('ar', 'ao'), lazy=True)
    # enable_action / disable_action (switches attached through the action class): the scoping harness of C13
    from props import C13
    for q in C13.plan(ctx):
        if q.name.split('/')[0] in ('enable_disable', 'disable_in_at'):
            q.name = 'action_class/' + q.name
            qs.append(q)
    # the entry points parse<>() / parse_nested<>() hand the requested modes on to the top-level rule
    import os, vf
    eu = ctx.unit('c04_entry', cpp=os.path.join(vf.VERIF, 'harness', 'c04_entry.cpp'))
    qs.append(vf.Query('entry_points', eu, os.path.join(vf.VERIF, 'harness', 'c04_entry.c'), unwind=6, mem_gb=2,
                       bounds={'N': 2, 'K': 2, 'grammar': 'named< 0, sym<0>, sym<1> > with a void action', 'entry': ['parse< G, A, C, action, required >', 'parse< ..., nothing, optional >', 'parse_nested< ..., action, optional >', 'parse_nested< ..., nothing, required >']},
                       note='parse() and parse_nested() run the top-level rule with the requested apply mode (actions iff enabled) and rewind mode'))
    # every other combinator hands its apply mode on to its sub-rules unchanged (otherwise actions below it fire in disabled / look-ahead
    # sections, or are lost where they are enabled): the rule-by-rule harness of C09 checks the apply mode every sub-rule call receives
    from props import C09
    fwd = ('if_then_else', 'if_must2', 'if_must_else', 'list2', 'list_must2', 'list_tail2', 'until2', 'rep2', 'rep_min1', 'rep_opt2', 'rematch2', 'rematch3', 'star_must2',
           'opt_must2', 'pad2', 'partial3', 'star_partial2', 'strict2', 'star_strict2', 'separated_seq', 'if_then', 'if_then_elif', 'must2')
    for q in C09.plan(ctx):
        parts = q.name.split('/')
        if parts[0] == 'sym' and parts[1] in fwd:
            q.name = 'apply_mode_forwarding/' + '/'.join(parts[1:])
            q.note = 'every sub-rule call receives the apply mode of the rule (and result/consumption vs the documented equivalence)'
            qs.append(q)
    return qs
