"""C02 — a locally failing rule never leaves input consumed."""
import os
import vf
import symgen
import pegspec
import leafgen
from props import C01, C09, C05

LEVEL_TEXT = ('bounded symbolic model checking of the rewind contract: every rule with its own match() (core, convenience, contrib), compiled from the real '
              'headers, is run under rewind_mode::required and ::optional, without actions and with void apply / apply0 actions attached to every rule (which moves '
              'the responsibility for rewinding into match()), over symbolic sub-rules that leave the cursor anywhere when they fail under rewind_mode::optional; '
              'CBMC proves: local failure under required => cursor (byte, line, column) exactly where the attempt started; look-ahead rules never move it; success '
              'never moves it backwards; byte-level contrib rules are checked on symbolic bytes')

S0, S1, S2 = 'sym<0>', 'sym<1>', 'sym<2>'
EXTRA = [
    ('tc_any', 'try_catch_any_return_false< %s, must< %s > >' % (S0, S1), None),
    # single-rule forms: the exception leaves a sub-rule that consumed before it threw and no inner guard exists
    ('tc_any_single', 'try_catch_any_return_false< %s >' % S0, None),
    ('tc_type_single', 'try_catch_type_return_false< verif_exc, %s >' % S0, None),
    ('tc_any_if_must', 'try_catch_any_return_false< if_must< %s, %s > >' % (S0, S1), None),
    ('tc_any_plus', 'try_catch_any_return_false< plus< %s, must< %s > > >' % (S0, S1), None),
    ('tc_type', 'try_catch_type_return_false< verif_exc, %s, %s >' % (S0, S1), None),
    ('tcn_any', 'try_catch_any_raise_nested< named< 0, %s, %s > >' % (S0, S1), None),
    ('at_seq', 'at< %s, %s >' % (S0, S1), None),
    ('not_at_seq', 'not_at< %s, %s >' % (S0, S1), None),
    ('rematch', 'rematch< %s, sym2<0> >' % S0, None),
]

HEX = "((B(S + (k)) >= '0' && B(S + (k)) <= '9') || (B(S + (k)) >= 'a' && B(S + (k)) <= 'f') || (B(S + (k)) >= 'A' && B(S + (k)) <= 'F'))"


def rep_one_spec(mn, mx, ch):
    return ('static int spec_rep(u64 *len) { u64 i = 0; for (u64 k = 0; k < NA; ++k) { if (S + i < lf_n && B(S + i) == %s) i++; else break; }\n'
            '  if (i >= %d && i <= %d) { *len = i; return 1; } return 0; }' % (ch, mn, mx))


def leaf_cases():
    cs = []
    for (mn, mx, ch, tag) in [(0, 0, "'x'", '0_0'), (0, 2, "'x'", '0_2'), (1, 1, "'x'", '1_1'), (1, 3, "'x'", '1_3'), (2, 2, "'x'", '2_2'), (2, 4, "'\\n'", '2_4nl'), (3, 5, "'x'", '3_5')]:
        cs.append({'name': 'rep_one_' + tag, 'cxx': 'rep_one_min_max< %d, %d, %s >' % (mn, mx, ch), 'inc': 'tao/pegtl/contrib/rep_one_min_max.hpp',
                   'spec': rep_one_spec(mn, mx, ch), 'cond': 'spec_rep(&len)', 'len': 'len', 'alphabet': 'xx\\n', 'can_fail': not (mn == 0 and mx >= 6)})
    cs.append({'name': 'pred_and', 'cxx': "predicates_and< range< 'a', 'z' >, not_one< 'q' > >", 'inc': 'tao/pegtl/contrib/predicates.hpp',
               'cond': "HAVE(1) && B(S) >= 'a' && B(S) <= 'z' && B(S) != 'q'", 'len': '1', 'alphabet': 'aqz{'})
    cs.append({'name': 'pred_or', 'cxx': "predicates_or< one< '\\n' >, range< '0', '9' > >", 'inc': 'tao/pegtl/contrib/predicates.hpp',
               'cond': "HAVE(1) && (B(S) == '\\n' || (B(S) >= '0' && B(S) <= '9'))", 'len': '1', 'alphabet': '09\\n:'})
    cs.append({'name': 'pred_not', 'cxx': "predicate_not< one< 'a', '\\n' > >", 'inc': 'tao/pegtl/contrib/predicates.hpp',
               'cond': "HAVE(1) && B(S) != 'a' && B(S) != '\\n'", 'len': '1', 'alphabet': 'ab\\n'})
    cs.append({'name': 'eolf', 'cxx': 'eolf', 'cond': "S == lf_n || B(S) == '\\n' || (HAVE(2) && B(S) == '\\r' && B(S + 1) == '\\n')",
               'len': "(S == lf_n ? 0 : B(S) == '\\n' ? 1 : 2)", 'alphabet': '\\r\\na'})
    cs.append({'name': 'bytes2', 'cxx': 'bytes< 2 >', 'cond': 'HAVE(2)', 'len': '2', 'alphabet': 'a\\n'})
    cs.append({'name': 'istring', 'cxx': "istring< 'a', '1', 'Z' >", 'cond': "HAVE(3) && (B(S) == 'a' || B(S) == 'A') && B(S + 1) == '1' && (B(S + 2) == 'z' || B(S + 2) == 'Z')", 'len': '3', 'alphabet': 'aA1zZ'})
    return cs


def plan(ctx):
    doc = pegspec.Doc(os.path.join(vf.REPO, 'doc', 'Rule-Reference.md'))
    N = 3 if ctx.quick() else 4
    K = 3
    qs = []
    cases = []
    for n, t in C01.CLASSICAL + C01.NESTED:
        cases.append({'name': 'k_' + n, 'cxx': t, 'spec': t, 'inc': None, 'bytes': False, 'heavy': False, 'k2': 0})
    for c in C09.sym_cases(True):
        c = dict(c, name='v_' + c['name'])
        cases.append(c)
    for n, t, inc in EXTRA:
        cases.append({'name': 'x_' + n, 'cxx': t, 'spec': t, 'inc': inc, 'bytes': False, 'heavy': False, 'k2': 2 if 'sym2' in t else 0})
    if ctx.quick():
        # the quick tier keeps one representative per implementation (one header = one match() body); thorough runs all
        seen = set()
        keep = []
        for c in cases:
            head = c['cxx'].split('<')[0].strip()
            key = head + ('/' + str(c['cxx'].count('sym')) if head in ('seq', 'sor', 'rematch', 'until', 'must', 'opt_must', 'if_must', 'star_strict', 'strict', 'star_must', 'partial') else '') + ('::' if '::' in c['cxx'] else '')
            if (key in seen and not c['name'].startswith('x_')) or c['heavy']:
                continue
            seen.add(key)
            keep.append(c)
        cases = keep
    for c in cases:
        n = N
        if c['heavy']:
            n = 3
        unit = ctx.unit('c02_' + c['name'], text=symgen.wrapper_text([c], includes=[c['inc']] if c['inc'] else (), variants='7'))
        text, low, seen = symgen.harness_text(c, n, K, doc, maxres=3, variants=('ar', 'ao', 'pr', 'po', 'qr', 'xr', 'xo'), bytes_=c['bytes'], k2=c['k2'])
        h = ctx.write('h_%s.c' % c['name'], text)
        for grp in (('ar', 'ao'), ('pr', 'po'), ('qr', 'xr', 'xo')):
            cd = {'VF_SPLIT': 1}
            cd.update(('V_' + v, 1) for v in grp)
            qs.append(vf.Query('sym/%s/%s' % (c['name'], '+'.join(grp)), unit, h, unwind=n + 3, cbmc_defines=cd,
                               bounds={'N': n, 'K': K, 'rule': c['cxx'], 'variants': grp, 'actions': 'none' if grp[0][0] == 'a' else 'void apply' if grp[0][0] == 'p' else 'void apply0 / void apply with apply_mode::nothing'},
                               mem_gb=3 if c['heavy'] else 2, note='rewind contract of %s over symbolic sub-rules' % c['cxx']))
    NA = 4 if ctx.quick() else 6
    for c in leaf_cases():
        unit = ctx.unit('c02l_' + c['name'], text=leafgen.wrapper_text([c], includes=[c['inc']] if c.get('inc') else ()))
        h = ctx.write('l_%s.c' % c['name'], leafgen.harness_text(c, NA))
        qs.append(vf.Query('leaf/' + c['name'], unit, h, unwind=NA + 3, bounds={'bytes': NA, 'rule': c['cxx']},
                           note='rewind contract + language of %s on symbolic bytes' % c['cxx']))
    # contrib rules whose language is specified elsewhere (C15, C16): here only the rewind contract, on symbolic bytes
    CONTRACT = r'''/* generated harness (C02/contract): rewind contract of a byte-level rule, no language specification */
#define VF_ALPHABET "%(alphabet)s"
#include "verif.h"
#include "leaf.h"
#define NA %(NA)d
static void harness(void) {
  lf_setup(NA);
  u64 o[8], p[8];
  w_%(name)s_ar(lf_buf, lf_n, lf_start, o);
  CHECK(o[1] <= lf_n, "cursor inside the input");
  if (o[0] == 0) CHECK(o[1] == lf_start && o[4] == 1 && o[5] == 1 + lf_start, "local failure under rewind_mode::required leaves byte, line and column where they were");
  if (o[0] == 1) CHECK(o[1] >= lf_start, "success never moves the cursor backwards");
  w_%(name)s_nr(lf_buf, lf_n, lf_start, p);
  CHECK(p[0] == o[0] && p[1] == o[1], "result and cursor independent of the apply mode");
  w_%(name)s_ao(lf_buf, lf_n, lf_start, p);
  CHECK(p[0] == o[0] && (o[0] == 0 || p[1] == o[1]), "result (and consumption on success) independent of the rewind mode");
  OBS(o[0]); OBS(o[1]);
  REACH(o[0] == 1 && o[1] > lf_start, "rule matched and consumed");
  REACH(o[0] == 0 && lf_start < lf_n, "rule failed with input left");
}
'''
    contract = [
        {'name': 'raw_string', 'cxx': "raw_string< '[', '=', ']' >", 'inc': 'tao/pegtl/contrib/raw_string.hpp', 'alphabet': '[[=]]\\na', 'NA': 5},
        {'name': 'raw_string_content', 'cxx': "raw_string< '[', '=', ']', not_one< 'x' > >", 'inc': 'tao/pegtl/contrib/raw_string.hpp', 'alphabet': '[[=]]xa', 'NA': 5},
        {'name': 'unsigned_rule', 'cxx': 'unsigned_rule', 'inc': 'tao/pegtl/contrib/integer.hpp', 'alphabet': '0019a', 'NA': NA},
        {'name': 'signed_rule', 'cxx': 'signed_rule', 'inc': 'tao/pegtl/contrib/integer.hpp', 'alphabet': '+-019a', 'NA': NA},
        {'name': 'maximum_rule_u8', 'cxx': 'maximum_rule< std::uint8_t >', 'inc': 'tao/pegtl/contrib/integer.hpp', 'alphabet': '012569', 'NA': NA},
        {'name': 'maximum_rule_u16_999', 'cxx': 'maximum_rule< std::uint16_t, 999 >', 'inc': 'tao/pegtl/contrib/integer.hpp', 'alphabet': '0199', 'NA': NA},
    ]
    for c in contract:
        unit = ctx.unit('c02c_' + c['name'], text=leafgen.wrapper_text([c], includes=[c['inc']]))
        h = ctx.write('c_%s.c' % c['name'], CONTRACT % c)
        qs.append(vf.Query('contract/' + c['name'], unit, h, unwind=c['NA'] + 3, mem_gb=3, bounds={'bytes': c['NA'], 'rule': c['cxx']},
                           note='rewind contract of %s on symbolic bytes' % c['cxx']))
    # if_apply with a vetoing action, at top level and directly under opt<>/sor<> (no enclosing guard): protocol harness (veto table)
    import evplan
    from props import C04
    qs += evplan.queries(ctx, 'c02', [g for g in C04.GRAMMARS if g[0].startswith('if_apply_')], ['plain'], N, modes=('ar', 'ao'))
    # http chunk helper rules (state-taking match functions)
    hu = ctx.unit('c02_http', cpp=os.path.join(vf.VERIF, 'harness', 'c02_http.cpp'))
    # http::chunk as a whole (size, ext, CRLF, data, CRLF) gave no verdict within 800 s / 10 GB at 4 bytes: only its two hand-written match functions are claimed
    for sel in ('chunk_size', 'chunk_data'):
        qs.append(vf.Query('http/' + sel, hu, os.path.join(vf.VERIF, 'harness', 'c02_http.c'), defines={'NA': NA}, cbmc_defines={'VF_SPLIT': 1, 'V_' + sel: 1},
                           unwind=NA + 3, mem_gb=4, bounds={'bytes': NA, 'rule': 'http::' + sel}, note='http chunk rules: rewind contract on symbolic bytes'))
    return qs
