"""C08 — control hooks form a balanced, truthful protocol."""
import evplan
from props import C08_cov

LEVEL_TEXT = ('bounded symbolic equivalence of event logs: the complete sequence of control-hook and action calls (start, apply/apply0, success, failure, '
              'unwind, raise, with their positions) produced by the real match() machinery for named rules over symbolic sub-rules is compared by CBMC with '
              'the reference protocol generated from the PEG semantics, for controls with and without unwind(), with no / void / bool (vetoing or throwing) '
              'actions, including runs ended by exceptions from must-rules, sub-rules and actions; balance of whole runs follows by induction on frames. '
              'Coverage facility (props/C08_cov.py): ' + C08_cov.LEVEL_TEXT)
ASSUMPTIONS = list(C08_cov.ASSUMPTIONS)

S0, S1, S2 = 'sym<0>', 'sym<1>', 'sym<2>'
GRAMMARS = [
    ('seq', 'named< 0, %s, %s >' % (S0, S1), {}),
    ('backtrack', 'named< 0, sor< named< 1, %s, %s >, %s > >' % (S0, S1, S2), {}),
    ('star', 'named< 0, star< named< 1, %s > >, %s >' % (S0, S1), {'evmax': 40}),
    ('must', 'named< 0, %s, must< %s > >' % (S0, S1), {}),
    ('lookahead', 'named< 0, at< named< 1, %s > >, not_at< %s >, %s >' % (S0, S1, S2), {}),
    ('trycatch', 'named< 1, sor< try_catch_type_return_false< verif_exc, named< 0, %s, must< %s > > >, %s > >' % (S0, S1, S2), {}),
    ('trycatch_any', 'named< 1, sor< try_catch_any_return_false< named< 0, %s, must< %s > > >, %s > >' % (S0, S1, S2), {}),
    ('if_must', 'named< 0, opt_must< %s, %s >, %s >' % (S0, S1, S2), {}),
]


def plan(ctx):
    return _protocol(ctx) + C08_cov.plan(ctx)


def _protocol(ctx):
    N = 3 if ctx.quick() else 4
    if ctx.quick():
        return (evplan.queries(ctx, 'c08', GRAMMARS, ['plain', 'plain_nu', 'void0', 'bool', 'bool0'], N, modes=('ar', 'ao')) +
                evplan.queries(ctx, 'c08', GRAMMARS[:5], ['statectl_bool'], N, modes=('ar',)) +
                evplan.queries(ctx, 'c08', GRAMMARS[5:], ['statectl'], N, modes=('ar',)) +
                evplan.queries(ctx, 'c08', GRAMMARS[:4], ['statectl_rot', 'rmfirst'], N, modes=('ar',)) +
                evplan.queries(ctx, 'c08', [GRAMMARS[0], GRAMMARS[1], GRAMMARS[5]], ['leaf'], N, modes=('ar', 'ao')) +
                evplan.queries(ctx, 'c08', [GRAMMARS[1]], ['leaf_bool'], N, modes=('ar',)) +
                evplan.queries(ctx, 'c08', [GRAMMARS[1], GRAMMARS[5]], ['unw'], N, modes=('ar', 'ao')) +
                evplan.queries(ctx, 'c08', [GRAMMARS[1]], ['unw_bool'], N, modes=('ar',)) +
                evplan.queries(ctx, 'c08', [GRAMMARS[3], GRAMMARS[5]], ['rot0'], N, modes=('ar',)))
    return evplan.queries(ctx, 'c08', GRAMMARS, ['leaf', 'leaf_bool', 'unw', 'unw_bool', 'rot0', 'plain', 'plain_nu', 'void', 'void_nu', 'bool', 'bool_nu', 'void0', 'bool0', 'statectl', 'statectl_bool', 'statectl_void0', 'statectl_rot', 'rmfirst'], N, modes=('ar', 'ao', 'nr', 'no'))
