"""C05 (parse_error part) — what the caller sees of the parse_error built by normal<Rule>::raise / raise_nested: what(), message(),
position_string(), position_object(), and the nested exception of the try_catch_*_raise_nested family and of parse_nested.

Complements props/C05.py, which replaces Control::raise / raise_nested by a stub control and therefore does not encode any of this code."""
import os
import vf

LEVEL_TEXT = (
    'bounded symbolic model checking (CBMC on the ll2c translation of the clang -O1 IR) of the REAL normal< Rule >::raise and normal< Rule >::raise_nested '
    '(normal.hpp), parse_error_template / parse_error_base constructors, what() (virtual call), message(), position_string(), position_object() '
    '(parse_error.hpp, parse_error_base.hpp), internal::stream_to_string, operator<<( std::ostream&, const position& ) (position.hpp), '
    'internal::extract_position, demangle< Rule >(), memory_input::position() (eager and lazy tracking), the libstdc++ inline code of std::string, '
    'std::throw_with_nested / std::_Nested_exception / std::nested_exception::nested_ptr, and - through parse() with the default control `normal` - must<>, '
    'try_catch_raise_nested, try_catch_any_raise_nested, try_catch_std_raise_nested, try_catch_type_raise_nested (internal/try_catch_raise_nested.hpp) and '
    'parse_nested (parse.hpp).  Decided for all symbolic inputs within the bounds: '
    '(a) normal< R >::raise( in ) for a rule with and a rule without error_message, on a memory_input< eager|lazy, lf_crlf, std::string > built with symbolic '
    'initial byte/line/column and a symbolic source of 0..3 characters after consuming 0..N symbolic bytes (newlines included): the exception is a parse_error '
    'and not a std::nested_exception; what() == source ":" decimal(line) ":" decimal(column) ": " message (numerals read back digit by digit by the oracle, '
    'no leading zeros, nothing after the message); message() and position_string() are exactly the message and the source:line:column part of what() (offset '
    'and length); position_object() is byte/line/column/source of the input at the time of the raise (independent recount); the message is the rule\'s '
    'error_message or "parse error matching " + demangle< Rule >(); '
    '(b) normal< R >::raise_nested( am ), am a position with symbolic byte/line/column/source, called outside any handler, inside the handler of a foreign '
    'exception and inside the handler of a parse_error: the exception is a parse_error with the same obligations for am AND a std::nested_exception whose '
    'nested_ptr() is null / rethrows exactly the object being handled (same address, same content: foreign id, resp. what()/message()/position of the inner '
    'parse_error); '
    '(c) parse< seq< star< one< p, \\n > >, try_catch_*_raise_nested< G > > > over symbolic bytes, G := a ( d [action throws a foreign exception] | must< c > ) with and '
    'without error_message on G: result/consumption when nothing is thrown; when must<> fails or the action throws, exactly the exception types the family names '
    'are converted: the caller sees a parse_error for G at the position where G began (what()/message()/position as above) that is a nested_exception whose '
    'nested exception is the original one unchanged (inner parse_error of the must<> with its own message and position after the `a`; foreign id = byte '
    'position of the action); all other exceptions reach the caller unchanged and not nested; (d) the same through parse_nested( am, in ) with a symbolic ambient '
    'position (catches std::exception).  Translation validation compares the stub-based translated unit with the g++ build against the GENUINE libstdc++ '
    '(std::ostringstream, std::runtime_error, exception_ptr, nested_exception) on 20000 random inputs per query; counterexamples are replayed on that build.')

ASSUMPTIONS = [
    'C05_perr: std::ostream / std::ostringstream are replaced, in the clang (IR) builds only, by the array-backed stand-ins lib/stubstream/{ostream,sstream} '
    '(append-only buffer of 32 characters - exceeding it is reported -; operator<< for char, const char*, const std::string& appends verbatim, for unsigned long '
    'prints decimal without sign, grouping or leading zeros; str() returns the characters written); PEGTL\'s operator<<( std::ostream&, const position& ) and '
    'stream_to_string are compiled unchanged against them.  The g++ build used for translation validation and replay uses the genuine libstdc++ streams, so every '
    'run compares the stand-ins with the real library ("C" locale, default stream state)',
    'C05_perr: out-of-line libstdc++ 12 functions are C models (harness/c05_perr_models.h, lib/models.h), validated the same way: std::runtime_error '
    '(const std::string& / copy / move constructors, destructor, what(): the message is a NUL-terminated copy in a 48/64-byte buffer, longer messages are reported; '
    'copies share it; never freed), std::string::_M_create/_M_append/_M_mutate/_M_replace on the real SSO layout (heap buffers are objects of constant size 64, a '
    'larger request is reported; quick tier: appending within the capacity of a heap buffer is reported - it cannot happen with 3-digit numerals -, thorough tier: modelled; doubling growth policy), std::exception_ptr::_M_addref/_M_release '
    '(no-ops: exception objects are never freed in the lowered exception model), std::current_exception (innermost exception being handled, or null), '
    'std::rethrow_exception (throws the same object again with its original dynamic type), std::nested_exception::~nested_exception (no-op), strlen, '
    '__assert_fail (reported), operator delete.  Allocation never fails',
    'C05_perr: exception handling is lowered by ll2c (--eh-nested): pending-exception flag; handlers are selected by the static inheritance graph read from the '
    'type_info initialisers in the IR, including multiple inheritance (__vmi_class_type_info) with the base-class offset applied to the pointer the handler '
    'receives; a stack of exceptions being handled (pushed by __cxa_begin_catch, popped by __cxa_end_catch) answers current_exception and `throw;`; the dynamic '
    'type of the last 8 thrown objects is remembered for rethrow_exception; exception objects are typed allocations (--typed-exc) and are never destroyed '
    '(destructors of exception objects, reference counts and std::terminate paths are not modelled).  Virtual calls (what()) are resolved by comparing the '
    'function pointer loaded from the object\'s virtual table with the functions stored in the virtual tables of the module (--vcall); any other target is reported',
    'C05_perr: bounds - raise / raise_nested queries: input bytes N = 3 (quick) / 4 (thorough); initial byte, line, column (raise) and ambient byte, line, column '
    '(raise_nested) in 0..99 / 0..9999 (line and column of an input >= 1: memory_input asserts it), so numerals have 1..3 / 1..5 digits; rule and parse_nested queries: '
    'N = 3, counters 0..99 in both tiers (the thorough tier adds the other four families and the second message variant); source: 0..3 arbitrary non-NUL characters '
    '(a NUL inside the source truncates what() as a C string: outside the claim); message texts: the three error_message constants of the wrapper TU and the '
    'default message of the rules c05p_rd / c05p_g / c05p_ptop (28..30 characters); what() therefore has at most 47 characters.  Longer sources, larger counters '
    'and longer messages run through the same code (std::string growth, the digit loop) but are outside the claim',
    'C05_perr: the default message is compared with "parse error matching " followed by demangle< Rule >() as evaluated by the SAME build through a wrapper '
    '(clang: compile-time constant from __PRETTY_FUNCTION__; g++ real build: its own spelling), and the name must be non-empty; demangle itself is not specified here',
    'C05_perr: dynamic type: "is a parse_error" / "is a std::nested_exception" / "is not a nested_exception" are decided by handlers (catch by reference), not by typeid; '
    'identity of the nested exception is compared by address for raise_nested called directly (the wrapper knows the object being handled) and by content '
    '(what(), message(), position, foreign id) through parse() / parse_nested()',
    'C05_perr: tracking_mode::eager inputs in the rule queries; eol::lf_crlf; ambient type of raise_nested is tao::pegtl::position (what try_catch_raise_nested '
    'passes); Source = std::string; inputs of tokens (extract_position third branch) are not covered',
]

STUB = os.path.join(vf.LIB, 'stubstream')
MODELS = os.path.join(vf.VERIF, 'harness', 'c05_perr_models.h')
S_ = 'x__ZNSt7__cxx1112basic_stringIcSt11char_traitsIcESaIcEE'
FAM = ['try_catch_raise_nested', 'try_catch_any_raise_nested', 'try_catch_std_raise_nested', 'try_catch_type_raise_nested<foreign>', 'try_catch_type_raise_nested<parse_error>']


def plan(ctx):
    cpp = os.path.join(vf.VERIF, 'harness', 'c05_perr.cpp')
    h = os.path.join(vf.VERIF, 'harness', 'c05_perr.c')
    quick = ctx.quick()
    qs = []

    def setup(big):
        """bounds, harness defines, loop bounds, ll2c flags for the small (quick) or the big (thorough) ranges"""
        N = 4 if big else 3
        CMAX = 9999 if big else 99
        MAXDIG = len(str(CMAX + N))
        CAP = 64 if big else 48          # what() buffer / constant-offset window of the std::string models (longer strings are reported)
        base = {'C05P_N': N, 'C05P_CMAX': CMAX, 'C05P_MAXDIG': MAXDIG, 'C05P_NSRC': 3, 'C05P_WHAT_CAP': CAP, 'VF_STRING_SPLIT_STORES': CAP}
        if big:
            base['C05P_INPLACE_HEAP_APPEND'] = 1     # source:line:column + ": " can exceed the 15-byte in-object buffer: the message is then appended in place on the heap
        bnd = {'input_bytes': N, 'initial/ambient byte, line, column': '0..%d (line, column of an input >= 1)' % CMAX, 'digits per numeral': '1..%d' % MAXDIG,
               'source': '0..3 arbitrary non-NUL characters', 'what() capacity of the models': CAP - 1}
        # loops of the harness and of the models (names under this check's control) get their exact bounds; the global --unwind of a query is the bound for
        # the loops of the code under test (digit loops of the formatting, bump, star, copy loops); unwinding assertions apply to all of them
        C1 = CAP + 2
        hloops = (['harness.%d:100' % i for i in range(8)] +
                  ['x_strlen.0:%d' % C1, 'exact_alloc_n.0:12', 'read_dec.0:24', 'advance.0:12', 'check_record.0:50', 'check_record.1:50', 'check_record.2:50',
                   'obs_record.0:50', 'obs_record.1:50', 'expected_message.0:50', 'expected_message.1:50', 'expected_message.2:50', 'draw_source.0:8',
                   '__exc_type_of.0:10', 'w_name.0:18', 'vf_memcpy.0:18',
                   S_ + '9_M_appendEPKcm.0:%d' % C1, S_ + '9_M_appendEPKcm.1:18', S_ + '9_M_appendEPKcm.2:%d' % C1, S_ + '9_M_appendEPKcm.3:%d' % C1,
                   S_ + '9_M_mutateEmmPKcm.0:%d' % C1, S_ + '9_M_mutateEmmPKcm.1:%d' % C1, S_ + '9_M_mutateEmmPKcm.2:%d' % C1,
                   S_ + '10_M_replaceEmmPKcm.0:%d' % C1, S_ + '10_M_replaceEmmPKcm.1:%d' % C1,
                   'x__ZNSt13runtime_errorC2ERKNSt7__cxx1112basic_stringIcSt11char_traitsIcESaIcEEE.0:%d' % C1])
        ll2c = ['--vcall', '--eh-nested', '--inline-gep', '--typed-exc', '--split-store', str(CAP), '--include', MODELS]
        K = max(MAXDIG, N, 3) + 2
        return {'N': N, 'base': base, 'bnd': bnd, 'hloops': hloops, 'll2c': ll2c, 'K': K, 'tag': 'big' if big else 'small'}

    def unit(cfg, group, msg, extra=()):
        name = 'c05p_%s_%s%s_%s' % (group.lower(), 'msg' if msg else 'default', ''.join('_' + e.replace('C05P_', '').replace('=', '').lower() for e in extra), cfg['tag'])
        return ctx.unit(name, cpp=cpp, cxxflags=['-I', STUB, '-DC05P_' + group, '-DC05P_WITH_MSG=%d' % msg] + ['-D' + e for e in extra], ll2c=cfg['ll2c'])

    def mname(msg):
        return 'error_message' if msg else 'default_message'

    # raise / raise_nested: small ranges in the quick tier, big ranges in the thorough tier
    c = setup(not quick)
    # (a) normal< R >::raise( in )
    for msg in (1, 0):
        for lazy in (0, 1):
            if quick and lazy and not msg:
                continue
            d = dict(c['base'], C05P_RAISE=1, C05P_WITH_MSG=msg)
            qs.append(vf.Query('raise/%s/%s' % (mname(msg), 'lazy' if lazy else 'eager'), unit(c, 'RAISE', msg, ['C05P_LAZY=1'] if lazy else []), h, defines=d,
                               unwind=c['K'], unwindset=c['hloops'], mem_gb=3,
                               bounds=dict(c['bnd'], tracking='lazy' if lazy else 'eager', bytes_consumed_before_the_raise='0..%d' % c['N']),
                               note='normal< R >::raise( in ): parse_error, what() == source:line:column: message, message(), position_string(), position_object()'))
    # (b) normal< R >::raise_nested( am )
    for msg in (1, 0):
        for mode, what in (('none', 'no exception being handled'), ('foreign', 'inside the handler of a foreign exception'), ('perr', 'inside the handler of a parse_error')):
            d = dict(c['base'], C05P_NESTED=1, C05P_WITH_MSG=msg)
            qs.append(vf.Query('raise_nested/%s/%s' % (mname(msg), mode), unit(c, 'NESTED', msg), h, defines=d, cbmc_defines={'VF_SPLIT': 1, 'V_' + mode: 1},
                               unwind=c['K'], unwindset=c['hloops'], mem_gb=3, bounds=dict(c['bnd'], handled=what),
                               note='normal< R >::raise_nested( am ): parse_error for am that is a std::nested_exception; nested_ptr() is exactly the exception being handled'))
    # (c) the real rules under the default control, (d) parse_nested: two exceptions are built and inspected per run, which is 3-10 times as costly
    # (measured with the big ranges: 600-1650 s per query); both tiers use the small ranges, the thorough tier runs every family with and without error_message
    c = setup(False)
    rules = [(1, 1), (0, 0)] if quick else [(m, f) for m in (1, 0) for f in range(5)]
    for msg, fam in rules:
        d = dict(c['base'], C05P_RULES=1, C05P_WITH_MSG=msg, C05P_FAMILY=fam)
        qs.append(vf.Query('rules/%s/%s' % (FAM[fam], mname(msg)), unit(c, 'RULES', msg, ['C05P_FAMILY=%d' % fam]), h, defines=d,
                           unwind=c['K'] + 1, unwindset=c['hloops'], mem_gb=4,
                           bounds=dict(c['bnd'], grammar='seq< star< one< p, \\n > >, %s< G > >, G := seq< one< a >, sor< d [action throws], must< c > > >' % FAM[fam]),
                           note='what the caller of parse() sees: converted (nested) or unchanged exception, position where the guarded rule began'))
    for msg in ((0,) if quick else (1, 0)):
        d = dict(c['base'], C05P_PNESTED=1, C05P_WITH_MSG=msg)
        qs.append(vf.Query('parse_nested/%s' % mname(msg), unit(c, 'PNESTED', msg), h, defines=d, unwind=c['K'] + 1, unwindset=c['hloops'], mem_gb=4,
                           bounds=dict(c['bnd'], grammar='seq< star< one< p, \\n > >, G >', ambient='position( byte, line, column, source ) symbolic'),
                           note='what the caller of parse_nested( am, in ) sees'))
    return qs
