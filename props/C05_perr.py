"""C05 (parse_error part) — what() / message() / position of the parse_error thrown by normal<Rule>::raise and raise_nested; nested exceptions."""
import os
import vf

LEVEL_TEXT = 'TODO'
ASSUMPTIONS = []

STUB = os.path.join(vf.LIB, 'stubstream')
MODELS = os.path.join(vf.VERIF, 'harness', 'c05_perr_models.h')
S_ = 'x__ZNSt7__cxx1112basic_stringIcSt11char_traitsIcESaIcEE'
# loops of the harness and of the models (names under this check's control) get their exact bounds; the global --unwind of a query is the bound for
# the loops of the code under test (digit loops of the formatting, bump, copy loops); unwinding assertions apply to all of them
HLOOPS = (['harness.%d:100' % i for i in range(8)] +
          ['x_strlen.0:50', 'exact_alloc_n.0:12', 'read_dec.0:24', 'advance.0:12', 'check_record.0:50', 'check_record.1:50', 'check_record.2:50',
           'obs_record.0:50', 'obs_record.1:50', 'expected_message.0:50', 'expected_message.1:50', 'expected_message.2:50', 'draw_source.0:8',
           '__exc_type_of.0:10', 'w_name.0:18',
           S_ + '9_M_appendEPKcm.0:66', S_ + '9_M_appendEPKcm.1:18', S_ + '9_M_appendEPKcm.2:66', S_ + '9_M_appendEPKcm.3:66',
           S_ + '9_M_mutateEmmPKcm.0:66', S_ + '9_M_mutateEmmPKcm.1:66', S_ + '9_M_mutateEmmPKcm.2:66',
           S_ + '10_M_replaceEmmPKcm.0:66', S_ + '10_M_replaceEmmPKcm.1:66',
           'x__ZNSt13runtime_errorC2ERKNSt7__cxx1112basic_stringIcSt11char_traitsIcESaIcEEE.0:66'])
LL2C = ['--vcall', '--eh-nested', '--inline-gep', '--typed-exc', '--split-store', '64', '--include', MODELS]


def plan(ctx):
    cpp = os.path.join(vf.VERIF, 'harness', 'c05_perr.cpp')
    h = os.path.join(vf.VERIF, 'harness', 'c05_perr.c')
    quick = ctx.quick()
    qs = []

    def unit(group, msg, extra=()):
        name = 'c05p_%s_%s%s' % (group.lower(), 'msg' if msg else 'default', ''.join('_' + e.split('=')[0].replace('C05P_', '').lower() + (e.split('=')[1] if '=' in e else '') for e in extra))
        return ctx.unit(name, cpp=cpp, cxxflags=['-I', STUB, '-DC05P_' + group, '-DC05P_WITH_MSG=%d' % msg] + ['-D' + e for e in extra],
                        ll2c=LL2C)

    for msg in (1, 0):
        d = {'C05P_RAISE': 1, 'C05P_WITH_MSG': msg}
        qs.append(vf.Query('raise/%s/eager' % ('error_message' if msg else 'default_message'), unit('RAISE', msg), h, defines=d, unwind=5, unwindset=HLOOPS + ['vf_memcpy.0:13'], mem_gb=3,
                           bounds={}, note='normal<R>::raise( in )'))
    for msg in (1, 0):
        for mode in ('none', 'foreign', 'perr'):
            d = {'C05P_NESTED': 1, 'C05P_WITH_MSG': msg}
            qs.append(vf.Query('raise_nested/%s/%s' % ('error_message' if msg else 'default_message', mode), unit('NESTED', msg), h, defines=d, cbmc_defines={'VF_SPLIT': 1, 'V_' + mode: 1},
                               unwind=5, unwindset=HLOOPS + ['vf_memcpy.0:18'], mem_gb=3, bounds={}, note='normal<R>::raise_nested( am )'))
    FAM = ['try_catch_raise_nested', 'try_catch_any_raise_nested', 'try_catch_std_raise_nested', 'try_catch_type_raise_nested<foreign>', 'try_catch_type_raise_nested<parse_error>']
    for msg in (1, 0):
        for fam in range(5):
            d = {'C05P_RULES': 1, 'C05P_WITH_MSG': msg, 'C05P_FAMILY': fam}
            qs.append(vf.Query('rules/%s/%s' % (FAM[fam], 'error_message' if msg else 'default_message'), unit('RULES', msg, ['C05P_FAMILY=%d' % fam]), h, defines=d,
                               unwind=6, unwindset=HLOOPS + ['vf_memcpy.0:18'], mem_gb=4, bounds={}, note='parse< seq< star< one< p, \\n > >, %s< G > > >' % FAM[fam]))
        d = {'C05P_PNESTED': 1, 'C05P_WITH_MSG': msg}
        qs.append(vf.Query('parse_nested/%s' % ('error_message' if msg else 'default_message'), unit('PNESTED', msg), h, defines=d,
                           unwind=6, unwindset=HLOOPS + ['vf_memcpy.0:18'], mem_gb=4, bounds={}, note='parse_nested< G >( am, in )'))
    return qs
