"""C16 — raw_string implements Lua long-bracket literals."""
import os
import vf

LEVEL_TEXT = ('bounded symbolic equivalence on bytes: the real raw_string<Open,Marker,Close[,Contents]> (raw_string_open, at_raw_string_close, raw_string_until, '
              'content action) is run on n fully symbolic bytes (every length 0..n, every start offset) and compared by CBMC with an independent scanner written from '
              'the Lua definition (opening bracket of level k, first closing bracket of the same level, one line ending after the opener dropped from the content, '
              'other levels ignored, failure without consumption), for lazy and eager inputs, three end-of-line policies, custom bracket characters and content rules')
ASSUMPTIONS = ['literals longer than the byte bound are outside the claim (quick: 6 bytes; thorough: 8 bytes, which includes a level-1 literal containing a level-0 closing bracket)']


def plan(ctx):
    cpp = os.path.join(vf.VERIF, 'harness', 'c16.cpp')
    h = os.path.join(vf.VERIF, 'harness', 'c16.c')
    NA = int(os.environ.get('C16_NA', '0')) or (6 if ctx.quick() else 9)
    cfgs = [('lua', {}, {}), ('lua_lf', {'C16_EOL': 'lf'}, {'C16_POL': 1}), ('lua_crlf', {'C16_EOL': 'crlf'}, {'C16_POL': 2}),
            ('custom', {'C16_OPEN': "'{'", 'C16_MARK': "'#'", 'C16_CLOSE': "'}'"}, {'C16_OPEN': "'{'", 'C16_MARK': "'#'", 'C16_CLOSE': "'}'", 'C16_ALPHA': '"{{#}}}\\n\\rax"'}),
            # bracket characters with the high bit set (negative as plain char): comparisons must not mix char and unsigned char
            ('latin1', {'C16_OPEN': "'\\xab'", 'C16_MARK': "'\\xb7'", 'C16_CLOSE': "'\\xbb'"}, {'C16_OPEN': '0xab', 'C16_MARK': '0xb7', 'C16_CLOSE': '0xbb', 'C16_ALPHA': '"\\xab\\xab\\xb7\\xbb\\xbb\\n\\rax"'}),
            ('stingy', {'C16_STINGY': 1}, {}), ('stingy_any', {'C16_STINGY': 1, 'C16_CONTENT_ANY': 1}, {'C16_CONTENT': 1}),
            ('content_any', {'C16_CONTENT_ANY': 1}, {'C16_CONTENT': 1}), ('content_notx', {'C16_CONTENT_NOTX': 1}, {'C16_CONTENT': 2})]
    qs = []
    for name, cxd, hd in cfgs:
        unit = ctx.unit('c16_' + name, cpp=cpp, cxxflags=['-D%s=%s' % kv for kv in cxd.items()])
        for m in ('lazy_r', 'lazy_o', 'eager_r'):
            d = dict(hd, NA=NA)
            qs.append(vf.Query('%s/%s' % (name, m), unit, h, defines=d, cbmc_defines={'VF_SPLIT': 1, 'V_' + m: 1}, unwind=NA + 3, mem_gb=6,
                               bounds={'bytes': NA, 'config': name, 'mode': m}, note='raw_string vs independent long-bracket scanner'))
    return qs
