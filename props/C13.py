"""C13 — state and action switching is scoped to the rule it is attached to."""
import os
import vf
import evgen
import pegspec
from pegspec import E, parse, ival
from evgen import EV

LEVEL_TEXT = ('bounded symbolic equivalence of event logs: grammars of named rules over symbolic sub-rules with state<> rules and rules whose action class derives '
              'from change_state / change_states / change_action / change_action_and_state / change_control / enable_action / disable_action (and the '
              'action<> / control<> rules) are run with logging state, action and control classes; CBMC compares the complete log — state constructor, which '
              'state instance and which action class every action sees, which control sees the hooks, success() exactly once with the cursor after the match '
              'and the outer state, destructor — with the reference protocol, including local failure, exceptions and what follows the scoped rule')

EVS = {'CTOR': 8, 'SSUCC': 9, 'DTOR': 10}

# pseudo combinators of the grammar notation (see module doc in DESIGN.md C13):
#   cs< i, ID, R... >      named<ID,R...> whose action class specialisation derives from change_state< vstate<i> >
#   css< i, ID, R... >     ... from change_states< vstate<i> > (with a user success())
#   ca< T, ID, R... >      ... from change_action< act T >
#   cas< T, i, ID, R... >  ... from change_action_and_state< act T, vstate<i> >
#   cc< ID, R... >         ... from change_control< quiet control >
#   ea< ID, R... > / da< ID, R... >   enable_action / disable_action
#   state< i, R... >       the state rule with vstate<i>;  action< T, R... >, control< R... > the rule forms
PSEUDO = ('cs', 'csd', 'css', 'css2', 'ca', 'cas', 'casd', 'cc', 'ea', 'da', 'cas_cs', 'cas_da', 'ca_cs')   # x_y: switch x whose NEW action class carries switch y for the SAME rule   # ...d: with a state that is only default-constructible
ACTNAME = {1: 'actA', 2: 'actB'}


class Gen13(evgen.EvGen):
    """context is dynamically scoped in C globals: cx_act (0 none, 1 actA, 2 actB), cx_st (visible state id), cx_quiet"""

    def frame(s, e, body_call, own_action=True):
        r = evgen.rid(e) if e.name != 'named_noact' else 100 + ival(e.args[0])
        L = ['  if (!cx_quiet) sv(%d, %d, p, 0);' % (EV['START'], r)]
        L.append('  out_t b = %s;' % body_call)
        L.append('  if (b.r >= 2) { if (!cx_quiet) sv(%d, %d, 0, 0); return b; }' % (EV['UNWIND'], r))
        if own_action:
            L.append('  if (b.r == 1 && a && cx_act) sv(%d, %d, cx_st, cx_act);' % (EV['APPLY0'], r))
        L.append('  if (b.r == 1) { if (!cx_quiet) sv(%d, %d, b.pos, 0); return b; }' % (EV['SUCCESS'], r))
        L.append('  if (!cx_quiet) sv(%d, %d, 0, 0); return sp_fail(p, b.far);' % (EV['FAILURE'], r))
        return '\n'.join(L)

    def named_of(s, e, skip, own_action=False):
        # the rule a switch is attached to: its action-class specialisation derives from the switch (maybe_nothing) and has no apply0 of its own,
        # except where the switch replaces the action class for the rule itself (change_action, change_action_and_state)
        return E('named' if own_action else 'named_noact', e.args[skip:])

    def body(s, e):
        n, a = e.name, e.args
        if n == 'named_noact':
            return s.frame(e, '%s(p, a)' % s.fn(E('seq', a[1:])), own_action=False)
        if n == 'state':
            i = ival(a[0])
            f = s.fn(E('seq', a[1:]))
            return ('  int ost = cx_st; sv(%d, %d, p, ost); cx_st = %d; out_t x = %s(p, a); cx_st = ost;\n'
                    '  if (x.r == 1) sv(%d, %d, x.pos, ost);\n  sv(%d, %d, 0, 0); return x;' % (EVS['CTOR'], i, i, f, EVS['SSUCC'], i, EVS['DTOR'], i))
        if n == 'stated':
            i = ival(a[0])
            f = s.fn(E('seq', a[1:]))
            return ('  int ost = cx_st; sv(%d, %d, 0, 0); cx_st = %d; out_t x = %s(p, a); cx_st = ost;\n'
                    '  if (x.r == 1) sv(%d, %d, x.pos, ost);\n  sv(%d, %d, 0, 0); return x;' % (EVS['CTOR'], i, i, f, EVS['SSUCC'], i, EVS['DTOR'], i))
        if n in ('cs', 'css', 'csd'):
            i = ival(a[0])
            f = s.fn(s.named_of(e, 1))
            ctor = 'sv(%d, %d, p, ost);' % (EVS['CTOR'], i) if n == 'cs' else 'sv(%d, %d, 0, 0);' % (EVS['CTOR'], i)
            succ = 'sv(%d, %d, x.pos, ost);' % (EVS['SSUCC'], i) if n in ('cs', 'csd') else 'sv(%d, %d, x.pos, ost);' % (EVS['SSUCC'], 40 + i)
            return ('  int ost = cx_st; %s cx_st = %d; out_t x = %s(p, a); cx_st = ost;\n'
                    '  if (x.r == 1 && a) %s\n  sv(%d, %d, 0, 0); return x;' % (ctor, i, f, succ, EVS['DTOR'], i))
        if n == 'css2':
            # change_states< vstate<i>, qstate<j> >: exactly the two new states are visible below, whatever the number of outer states
            i, j = ival(a[0]), ival(a[1])
            f = s.fn(s.named_of(e, 2))
            return ('  int ost = cx_st; sv(%d, %d, 0, 0); cx_st = %d; out_t x = %s(p, a); cx_st = ost;\n'
                    '  if (x.r == 1 && a) sv(%d, %d, x.pos, ost);\n  sv(%d, %d, 0, 0); return x;' % (EVS['CTOR'], i, i + 16 * j, f, EVS['SSUCC'], 40 + i, EVS['DTOR'], i))
        if n == 'ca':
            t = ival(a[0])
            f = s.fn(s.named_of(e, 1, True))
            return '  int oa = cx_act; cx_act = %d; out_t x = %s(p, a); cx_act = oa; return x;' % (t, f)
        if n in ('cas', 'casd'):
            t, i = ival(a[0]), ival(a[1])
            f = s.fn(s.named_of(e, 2, True))
            if n == 'casd':
                return ('  int ost = cx_st, oa = cx_act; sv(%d, %d, 0, 0); cx_st = %d; cx_act = %d; out_t x = %s(p, a); cx_st = ost; cx_act = oa;\n'
                        '  if (x.r == 1 && a) sv(%d, %d, x.pos, ost);\n  sv(%d, %d, 0, 0); return x;' % (EVS['CTOR'], i, i, t, f, EVS['SSUCC'], i, EVS['DTOR'], i))
            return ('  int ost = cx_st, oa = cx_act; sv(%d, %d, p, ost); cx_st = %d; cx_act = %d; out_t x = %s(p, a); cx_st = ost; cx_act = oa;\n'
                    '  if (x.r == 1 && a) sv(%d, %d, x.pos, ost);\n  sv(%d, %d, 0, 0); return x;' % (EVS['CTOR'], i, i, t, f, EVS['SSUCC'], i, EVS['DTOR'], i))
        if n == 'cas_cs':
            # Old< R > : change_action_and_state< actB, vstate<i> > ;  actB< R > : change_state< vstate<j> >
            t, i, j = 2, ival(a[0]), ival(a[1])
            f = s.fn(s.named_of(e, 2))        # actB< R > is the inner switch: R has no apply0 of its own
            return ('  int ost = cx_st, oa = cx_act; sv(%d, %d, p, ost); sv(%d, %d, p, %d); cx_st = %d; cx_act = %d; out_t x = %s(p, a); cx_st = ost; cx_act = oa;\n'
                    '  if (x.r == 1 && a) sv(%d, %d, x.pos, %d);\n  sv(%d, %d, 0, 0);\n'
                    '  if (x.r == 1 && a) sv(%d, %d, x.pos, ost);\n  sv(%d, %d, 0, 0); return x;'
                    % (EVS['CTOR'], i, EVS['CTOR'], j, i, j, t, f, EVS['SSUCC'], j, i, EVS['DTOR'], j, EVS['SSUCC'], i, EVS['DTOR'], i))
        if n == 'cas_da':
            # Old< R > : change_action_and_state< actB, vstate<i> > ;  actB< R > : disable_action
            t, i = 2, ival(a[0])
            f = s.fn(s.named_of(e, 1))
            return ('  int ost = cx_st, oa = cx_act; sv(%d, %d, p, ost); cx_st = %d; cx_act = %d; out_t x = %s(p, 0); cx_st = ost; cx_act = oa;\n'
                    '  if (x.r == 1 && a) sv(%d, %d, x.pos, ost);\n  sv(%d, %d, 0, 0); return x;' % (EVS['CTOR'], i, i, t, f, EVS['SSUCC'], i, EVS['DTOR'], i))
        if n == 'ca_cs':
            # Old< R > : change_action< actB > ;  actB< R > : change_state< vstate<j> >
            t, j = 2, ival(a[0])
            f = s.fn(s.named_of(e, 1))
            return ('  int ost = cx_st, oa = cx_act; sv(%d, %d, p, ost); cx_st = %d; cx_act = %d; out_t x = %s(p, a); cx_st = ost; cx_act = oa;\n'
                    '  if (x.r == 1 && a) sv(%d, %d, x.pos, ost);\n  sv(%d, %d, 0, 0); return x;' % (EVS['CTOR'], j, j, t, f, EVS['SSUCC'], j, EVS['DTOR'], j))
        if n == 'cc':
            f = s.fn(s.named_of(e, 0))
            return '  int oq = cx_quiet; cx_quiet = 1; out_t x = %s(p, a); cx_quiet = oq; return x;' % f
        if n == 'ea':
            return '  return %s(p, 1);' % s.fn(s.named_of(e, 0))
        if n == 'da':
            return '  return %s(p, 0);' % s.fn(s.named_of(e, 0))
        if n == 'action':
            t = ival(a[0])
            return '  int oa = cx_act; cx_act = %d; out_t x = %s(p, a); cx_act = oa; return x;' % (t, s.fn(E('seq', a[1:])))
        if n == 'control':
            return '  int oq = cx_quiet; cx_quiet = 1; out_t x = %s(p, a); cx_quiet = oq; return x;' % s.fn(E('seq', a))
        return evgen.EvGen.body(s, e)


def cxx(e, act, specs):
    """C++ type text; collects the action-class specialisations that attach the switches"""
    n, a = e.name, e.args
    if n in PSEUDO:
        skip = {'cs': 1, 'csd': 1, 'css': 1, 'css2': 2, 'ca': 1, 'cas': 2, 'casd': 2, 'cc': 0, 'ea': 0, 'da': 0, 'cas_cs': 2, 'cas_da': 1, 'ca_cs': 1}[n]
        inner_act = act
        if n in ('ca', 'cas', 'casd'):
            inner_act = ival(a[0])
        if n in ('cas_cs', 'cas_da', 'ca_cs'):
            inner_act = 2
        if act == 0:
            raise ValueError('switch attached while no action class is in force')
        body = ', '.join(cxx(x, inner_act, specs) for x in a[skip + 1:])
        ty = 'named< %d, %s >' % (ival(a[skip]), body)
        an = ACTNAME[act]
        if n in ('cas_cs', 'cas_da', 'ca_cs'):
            if act != 1:
                raise ValueError('chained switches are generated for the base action class only')
            outer = {'cas_cs': 'tao::pegtl::change_action_and_state< actB, vf::vstate< %d > >' % ival(a[0]),
                     'cas_da': 'tao::pegtl::change_action_and_state< actB, vf::vstate< %d > >' % ival(a[0]),
                     'ca_cs': 'tao::pegtl::change_action< actB >'}[n]
            inner = {'cas_cs': 'tao::pegtl::change_state< vf::vstate< %d > >' % ival(a[1]) if n == 'cas_cs' else '',
                     'cas_da': 'tao::pegtl::disable_action',
                     'ca_cs': 'tao::pegtl::change_state< vf::vstate< %d > >' % ival(a[0])}[n]
            specs.append('template<> struct actA< %s > : %s {};' % (ty, outer))
            specs.append('template<> struct actB< %s > : %s {};' % (ty, inner))
            return ty
        if n == 'cs':
            base = 'tao::pegtl::change_state< vf::vstate< %d > >' % ival(a[0])
        elif n == 'csd':
            base = 'tao::pegtl::change_state< vf::vstate_d< %d > >' % ival(a[0])
        elif n == 'casd':
            base = 'tao::pegtl::change_action_and_state< %s, vf::vstate_d< %d > >' % (ACTNAME[ival(a[0])], ival(a[1]))
        elif n == 'css':
            i = ival(a[0])
            base = ('tao::pegtl::change_states< vf::vstate< %d > >\n{\n   template< typename ParseInput, typename... States >\n'
                    '   static void success( const ParseInput& in, vf::vstate< %d >& /*unused*/, States&&... /*unused*/ )\n   {\n'
                    '      vf::verif_event( vf::EV_STATE_SUCCESS, %d, in.byte(), vf::first_sid< States... >::value );\n   }\n' % (i, i, 40 + i))
            specs.append('template<> struct %s< %s > : %s};' % (an, ty, base))
            return ty
        elif n == 'css2':
            i, j = ival(a[0]), ival(a[1])
            base = ('tao::pegtl::change_states< vf::vstate< %d >, vf::qstate< %d > >\n{\n   template< typename ParseInput, typename... States >\n'
                    '   static void success( const ParseInput& in, vf::vstate< %d >& /*unused*/, vf::qstate< %d >& /*unused*/, States&&... /*unused*/ )\n   {\n'
                    '      vf::verif_event( vf::EV_STATE_SUCCESS, %d, in.byte(), vf::first_sid< States... >::value );\n   }\n' % (i, j, i, j, 40 + i))
            specs.append('template<> struct %s< %s > : %s};' % (an, ty, base))
            return ty
        elif n == 'ca':
            base = 'tao::pegtl::change_action< %s >' % ACTNAME[ival(a[0])]
        elif n == 'cas':
            base = 'tao::pegtl::change_action_and_state< %s, vf::vstate< %d > >' % (ACTNAME[ival(a[0])], ival(a[1]))
        elif n == 'cc':
            base = 'tao::pegtl::change_control< vf::vcontrol >'
        elif n == 'ea':
            base = 'tao::pegtl::enable_action'
        else:
            base = 'tao::pegtl::disable_action'
        specs.append('template<> struct %s< %s > : %s {};' % (an, ty, base))
        return ty
    if n == 'state':
        return 'state< vf::vstate< %d >, %s >' % (ival(a[0]), ', '.join(cxx(x, act, specs) for x in a[1:]))
    if n == 'stated':
        return 'state< vf::vstate_d< %d >, %s >' % (ival(a[0]), ', '.join(cxx(x, act, specs) for x in a[1:]))
    if n == 'action':
        return 'tao::pegtl::action< %s, %s >' % (ACTNAME[ival(a[0])], ', '.join(cxx(x, ival(a[0]), specs) for x in a[1:]))
    if n == 'control':
        return 'tao::pegtl::control< vf::vcontrol, %s >' % ', '.join(cxx(x, act, specs) for x in a)
    if not a:
        return n
    return '%s< %s >' % (n, ', '.join(cxx(x, act, specs) for x in a))


WRAP = '''// generated wrapper TU (C13): state / action / control switching attached through action-class specialisations
#include "common.hpp"
using namespace tao::pegtl;
using vf::sym;
using vf::named;
template< typename Rule > struct actA : vf::act_s< Rule, 1 > {};
template< typename Rule > struct actB : vf::act_s< Rule, 2 > {};
%(specs)s
using G = %(g)s;
%(wraps)s
'''

HARNESS = r'''/* generated harness (C13): state / action / control scoping protocol */
#define SP_N %(N)d
#define SP_K 3
#define SP_MAXRES 3
#define SP_EVENTS 1
#define EV_VETO_MAX 0
#define EV_MAX %(evmax)d
#include "verif.h"
#include "symtab.h"
#include "events.h"
#include "symcheck.h"
static int cx_act, cx_st, cx_quiet;
%(spec)s
static void harness(void) {
  sp_setup();
  ev_setup();
  u64 o[8];
  out_t e;
%(calls)s
  ASSUME(!sp_exhausted);
  REACH(ev_nspec >= 5, "protocol with several events");
%(reach)s
}
'''

S0, S1, S2 = 'sym<0>', 'sym<1>', 'sym<2>'
GRAMMARS = [
    ('state_rule', 'named< 0, state< 1, named< 1, %s, %s > >, %s >' % (S0, S1, S2)),
    ('state_nested', 'named< 0, state< 1, %s, state< 2, %s > >, %s >' % (S0, S1, S2)),
    ('state_backtrack', 'named< 0, sor< state< 1, %s, %s >, %s > >' % (S0, S1, S2)),
    ('state_in_at', 'named< 0, at< state< 1, %s > >, %s >' % (S0, S1)),
    ('change_state', 'named< 0, cs< 1, 1, %s, %s >, %s >' % (S0, S1, S2)),
    ('change_state_star', 'named< 0, star< cs< 1, 1, %s > >, %s >' % (S0, S1)),
    ('change_states', 'named< 0, css< 3, 1, %s >, %s >' % (S0, S1)),
    ('change_states2', 'named< 0, css2< 3, 2, 1, %s, named< 2, %s > >, %s >' % (S0, S1, S2)),
    ('change_action', 'named< 0, ca< 2, 1, %s, %s >, %s >' % (S0, S1, S2)),
    ('change_action_and_state', 'named< 0, cas< 2, 1, 1, %s, %s >, %s >' % (S0, S1, S2)),
    ('change_control', 'named< 0, cc< 1, %s, %s >, %s >' % (S0, S1, S2)),
    ('enable_disable', 'named< 0, da< 1, %s, ea< 2, %s > >, %s >' % (S0, S1, S2)),
    ('disable_in_at', 'named< 0, at< ea< 1, %s > >, da< 2, %s >, %s >' % (S0, S1, S2)),
    ('action_rule', 'named< 0, action< 2, named< 1, %s > >, %s >' % (S0, S1)),
    ('control_rule', 'named< 0, control< named< 1, %s > >, %s >' % (S0, S1)),
    ('change_state_default', 'named< 0, at< csd< 1, 1, %s > >, csd< 2, 2, %s >, %s >' % (S0, S0, S1)),
    ('change_state_default_disabled', 'named< 0, disable< csd< 1, 1, %s, %s > >, %s >' % (S0, S1, S2)),
    ('state_rule_default', 'named< 0, stated< 1, named< 1, %s > >, at< stated< 2, %s > >, %s >' % (S0, S1, S2)),
    ('cas_default', 'named< 0, not_at< casd< 2, 1, 1, %s > >, casd< 2, 2, 2, %s >, %s >' % (S0, S1, S2)),
    ('change_state_in_at', 'named< 0, at< cs< 1, 1, %s > >, cs< 2, 2, %s >, %s >' % (S0, S0, S1)),
    ('chain_cas_cs', 'named< 0, cas_cs< 1, 2, 1, %s, %s >, %s >' % (S0, S1, S2)),
    ('chain_cas_da', 'named< 0, cas_da< 1, 1, %s, %s >, %s >' % (S0, S1, S2)),
    ('chain_ca_cs', 'named< 0, ca_cs< 1, 1, %s, %s >, %s >' % (S0, S1, S2)),
    ('nested_switches', 'named< 0, cs< 1, 1, ca< 2, 2, %s >, %s >, %s >' % (S0, S1, S2)),
]

MODES = {'ar': ('action', 'required', 1, 1), 'ao': ('action', 'optional', 1, 0), 'nr': ('nothing', 'required', 0, 1)}


def plan(ctx):
    doc = pegspec.Doc(os.path.join(vf.REPO, 'doc', 'Rule-Reference.md'))
    N = 3 if ctx.quick() else 4
    evmax = 40
    qs = []
    for name, text in GRAMMARS:
        e = parse(text)
        specs = []
        gt = cxx(e, 1, specs)
        wraps = []
        for m, (am, rm, a, req) in MODES.items():
            wraps.append('VF_WRAP_ST( w_%s_%s, G, tao::pegtl::apply_mode::%s, tao::pegtl::rewind_mode::%s, actA, vf::lcontrol )' % (name, m, am, rm))
        unit = ctx.unit('c13_' + name, text=WRAP % {'specs': '\n'.join(specs), 'g': gt, 'wraps': '\n'.join(wraps)})
        g = Gen13(doc, action=None, unwind=True)
        fn = g.fn(e)
        calls = []
        for m, (am, rm, a, req) in MODES.items():
            calls.append('#if !defined(VF_SPLIT) || defined(V_%s)\n  cx_act = 1; cx_st = 9; cx_quiet = 0; ev_reset_spec(); e = %s(sp_start, %d); ASSUME(e.r != 4); ASSUME(ev_nspec <= EV_MAX);\n'
                         '  ev_reset_real(); w_%s_%s(sp_buf, sp_n, sp_start, o); check_variant("", o, e, %d); ev_compare();\n#endif' % (m, fn, a, name, m, req))
        reach = []
        if 'state' in text or 'cs<' in text or 'cas<' in text or 'csd<' in text or 'casd<' in text or 'cas_' in text or 'ca_cs' in text:
            reach.append('  REACH(e.r == 1 && ev_nspec >= 6, "scoped rule matched");')
        h = ctx.write('h_%s.c' % name, HARNESS % {'N': N, 'evmax': evmax, 'spec': g.text(), 'calls': '\n'.join(calls), 'reach': '\n'.join(reach)})
        for m in MODES:
            qs.append(vf.Query('%s/%s' % (name, m), unit, h, unwind=N + 3, cbmc_defines={'VF_SPLIT': 1, 'V_' + m: 1},
                               unwindset=['ev_setup.1:13', 'ev_setup.0:%d' % (N + 2), 'ev_compare.0:%d' % (evmax + 1)],
                               bounds={'N': N, 'grammar': text, 'cxx': gt, 'mode': m, 'max_events': evmax},
                               note='state/action/control scoping: event log of the real run == reference protocol'))
    return qs
