"""C09 — convenience and contrib rules equal their documented expansions."""
import os
import vf
import symgen
import pegspec
import leafgen

LEVEL_TEXT = ('bounded symbolic equivalence: each convenience/contrib rule, compiled from the real headers and run over symbolic sub-rules '
              '(which may consume before failing, be nullable, or raise), is compared by CBMC with the PEG semantics of the expansion that '
              'doc/Rule-Reference.md gives for it (the [Equivalent] clause is parsed from the documentation at run time); byte-level '
              'members are compared on symbolic bytes with their documented expansions')

S0, S1, S2 = 'sym<0>', 'sym<1>', 'sym<2>'


def sym_cases(quick):
    c = []

    def add(name, cxx, spec=None, inc=None, bytes_=False, heavy=False, k2=0):
        c.append({'name': name, 'cxx': cxx, 'spec': spec or cxx, 'inc': inc, 'bytes': bytes_, 'heavy': heavy, 'k2': k2})

    add('if_must2', 'if_must< %s, %s >' % (S0, S1))
    add('if_must3', 'if_must< %s, %s, %s >' % (S0, S1, S2))
    add('if_must1', 'if_must< %s >' % S0)
    add('if_must_else', 'if_must_else< %s, %s, %s >' % (S0, S1, S2))
    add('if_then_else', 'if_then_else< %s, %s, %s >' % (S0, S1, S2))
    add('list2', 'list< %s, %s >' % (S0, S1))
    add('list3', 'list< %s, %s, %s >' % (S0, S1, S2), heavy=True)
    add('list_must2', 'list_must< %s, %s >' % (S0, S1))
    add('list_must3', 'list_must< %s, %s, %s >' % (S0, S1, S2), heavy=True)
    add('list_tail2', 'list_tail< %s, %s >' % (S0, S1))
    add('list_tail3', 'list_tail< %s, %s, %s >' % (S0, S1, S2), heavy=True)
    add('must1', 'must< %s >' % S0)
    add('must2', 'must< %s, %s >' % (S0, S1))
    add('must3', 'must< %s, %s, %s >' % (S0, S1, S2))
    add('opt_must1', 'opt_must< %s >' % S0)
    add('opt_must2', 'opt_must< %s, %s >' % (S0, S1))
    add('opt_must3', 'opt_must< %s, %s, %s >' % (S0, S1, S2))
    # opt_must inside a sequence: the context in which a partial match of the condition must not leak
    add('opt_must_ctx', 'seq< opt_must< seq< %s, %s >, %s >, %s >' % (S0, S1, S2, S2))
    add('pad2', 'pad< %s, %s >' % (S0, S1))
    add('pad3', 'pad< %s, %s, %s >' % (S0, S1, S2))
    add('pad_opt', 'pad_opt< %s, %s >' % (S0, S1))
    add('partial1', 'partial< %s >' % S0)
    add('partial3', 'partial< %s, %s, %s >' % (S0, S1, S2))
    add('star_partial2', 'star_partial< %s, %s >' % (S0, S1))
    add('star_must2', 'star_must< %s, %s >' % (S0, S1))
    add('star_must3', 'star_must< %s, %s, %s >' % (S0, S1, S2))
    add('strict1', 'strict< %s >' % S0)
    add('strict2', 'strict< %s, %s >' % (S0, S1))
    add('strict3', 'strict< %s, %s, %s >' % (S0, S1, S2))
    add('star_strict1', 'star_strict< %s >' % S0)
    add('star_strict2', 'star_strict< %s, %s >' % (S0, S1))
    add('until1', 'until< %s >' % S0, bytes_=True)
    add('until2', 'until< %s, %s >' % (S0, S1))
    add('until3', 'until< %s, %s, %s >' % (S0, S1, S2))
    for n in range(0, 4):
        add('rep%d' % n, 'rep< %d, %s >' % (n, S0))
        add('rep_max%d' % n, 'rep_max< %d, %s >' % (n, S0))
        add('rep_min%d' % n, 'rep_min< %d, %s >' % (n, S0))
        if n:   # rep_opt< 0, R > with a single R does not compile (ambiguous partial specialisations); see DESIGN.md
            add('rep_opt%d' % n, 'rep_opt< %d, %s >' % (n, S0))
    add('rep2_2', 'rep< 2, %s, %s >' % (S0, S1))
    add('rep_opt0_2', 'rep_opt< 0, %s, %s >' % (S0, S1))
    add('rep_opt2_2', 'rep_opt< 2, %s, %s >' % (S0, S1))
    add('rep_min1_2', 'rep_min< 1, %s, %s >' % (S0, S1))
    add('rep_max2_2', 'rep_max< 2, %s, %s >' % (S0, S1))
    hi = 3 if quick else 4
    for a in range(0, hi + 1):
        for b in range(a, hi + 1):
            add('rep_min_max%d_%d' % (a, b), 'rep_min_max< %d, %d, %s >' % (a, b, S0))
    add('rep_min_max1_2_2', 'rep_min_max< 1, 2, %s, %s >' % (S0, S1))
    # rematch / minus: the re-matched rules run on the sub-input that the head matched; sym2<k> may depend on where its input ends
    add('rematch1', 'rematch< %s >' % S0)
    add('rematch2', 'rematch< %s, sym2<0> >' % S0, k2=2)
    add('rematch3', 'rematch< %s, sym2<0>, sym2<1> >' % S0, k2=2)
    add('minus', 'minus< %s, sym2<0> >' % S0, k2=2)
    add('separated_seq', 'separated_seq< %s, %s, %s, %s >' % (S0, S1, S2, S1), spec='seq< %s, %s, %s, %s, %s >' % (S1, S0, S2, S0, S1), inc='tao/pegtl/contrib/separated_seq.hpp')
    add('separated_seq1', 'separated_seq< %s, %s >' % (S0, S1), spec=S1, inc='tao/pegtl/contrib/separated_seq.hpp')
    add('if_then', 'if_then< %s, %s, %s >' % (S0, S1, S2), spec='if_then_else< %s, seq< %s, %s >, failure >' % (S0, S1, S2), inc='tao/pegtl/contrib/if_then.hpp')
    add('if_then_else_then', 'if_then< %s, %s >::else_then< %s >' % (S0, S1, S2), spec='if_then_else< %s, %s, %s >' % (S0, S1, S2), inc='tao/pegtl/contrib/if_then.hpp')
    add('if_then_elif', 'if_then< %s, %s >::else_if_then< %s, %s >' % (S0, S1, S2, S1),
        spec='if_then_else< %s, %s, if_then_else< %s, %s, failure > >' % (S0, S1, S2, S1), inc='tao/pegtl/contrib/if_then.hpp')
    return c


def plan(ctx):
    doc = pegspec.Doc(os.path.join(vf.REPO, 'doc', 'Rule-Reference.md'))
    N = 3 if ctx.quick() else 5
    K = 3
    qs = []
    for c in sym_cases(ctx.quick()):
        unit = ctx.unit('c09_' + c['name'], text=symgen.wrapper_text([c], includes=[c['inc']] if c['inc'] else (), variants='4'))
        n = N
        if c['heavy']:
            n = 2 if ctx.quick() else 4     # star nested in star: cost grows with N^2 unwindings
        text, low, seen = symgen.harness_text(c, n, K, doc, maxres=3, variants=('ar', 'ao', 'nr', 'no'), bytes_=c['bytes'], k2=c['k2'])
        h = ctx.write('h_%s.c' % c['name'], text)
        groups = (('ar', 'ao', 'nr', 'no'),) if (ctx.quick() and not c['heavy']) else (('ar', 'ao'), ('nr', 'no'))
        for grp in groups:
            cd = {'VF_SPLIT': 1}
            cd.update(('V_' + v, 1) for v in grp)
            qs.append(vf.Query('sym/%s/%s' % (c['name'], '+'.join(grp)), unit, h, unwind=n + 3, cbmc_defines=cd,
                               bounds={'N': n, 'K': K, 'rule': c['cxx'], 'documented_expansion': low, 'outcomes': seen, 'variants': grp},
                               mem_gb=2, note='real %s vs documented expansion, over symbolic sub-rules' % c['cxx']))
    ctx.notes.append({'doc_clauses_used': doc.used})
    return qs
