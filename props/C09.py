"""C09 — convenience and contrib rules equal their documented expansions."""
import os
import vf
import symgen
import pegspec
import leafgen

LEVEL_TEXT = ('bounded symbolic equivalence: each convenience/contrib rule, compiled from the real headers and run over symbolic sub-rules '
              '(which may consume before failing, be nullable, or raise), is compared by CBMC with the PEG semantics of the expansion that '
              'doc/Rule-Reference.md gives for it (the [Equivalent] clause is parsed from the documentation at run time); byte-level '
              'members are compared on symbolic bytes with their documented expansions')

S0, S1, S2 = 'sym<0>', 'sym<1>', 'sym<2>'


def sym_cases(quick):
    c = []

    def add(name, cxx, spec=None, inc=None, bytes_=False, heavy=False, k2=0):
        c.append({'name': name, 'cxx': cxx, 'spec': spec or cxx, 'inc': inc, 'bytes': bytes_, 'heavy': heavy, 'k2': k2})

    add('if_must2', 'if_must< %s, %s >' % (S0, S1))
    add('if_must3', 'if_must< %s, %s, %s >' % (S0, S1, S2))
    add('if_must1', 'if_must< %s >' % S0)
    add('if_must_else', 'if_must_else< %s, %s, %s >' % (S0, S1, S2))
    add('if_then_else', 'if_then_else< %s, %s, %s >' % (S0, S1, S2))
    add('list2', 'list< %s, %s >' % (S0, S1))
    add('list3', 'list< %s, %s, %s >' % (S0, S1, S2), heavy=True)
    add('list_must2', 'list_must< %s, %s >' % (S0, S1))
    add('list_must3', 'list_must< %s, %s, %s >' % (S0, S1, S2), heavy=True)
    add('list_tail2', 'list_tail< %s, %s >' % (S0, S1))
    add('list_tail3', 'list_tail< %s, %s, %s >' % (S0, S1, S2), heavy=True)
    add('must1', 'must< %s >' % S0)
    add('must2', 'must< %s, %s >' % (S0, S1))
    add('must3', 'must< %s, %s, %s >' % (S0, S1, S2))
    add('opt_must1', 'opt_must< %s >' % S0)
    add('opt_must2', 'opt_must< %s, %s >' % (S0, S1))
    add('opt_must3', 'opt_must< %s, %s, %s >' % (S0, S1, S2))
    # opt_must inside a sequence: the context in which a partial match of the condition must not leak
    add('opt_must_ctx', 'seq< opt_must< seq< %s, %s >, %s >, %s >' % (S0, S1, S2, S2))
    add('pad2', 'pad< %s, %s >' % (S0, S1))
    add('pad3', 'pad< %s, %s, %s >' % (S0, S1, S2))
    add('pad_opt', 'pad_opt< %s, %s >' % (S0, S1))
    add('partial1', 'partial< %s >' % S0)
    add('partial3', 'partial< %s, %s, %s >' % (S0, S1, S2))
    add('star_partial2', 'star_partial< %s, %s >' % (S0, S1))
    add('star_must2', 'star_must< %s, %s >' % (S0, S1))
    add('star_must3', 'star_must< %s, %s, %s >' % (S0, S1, S2))
    add('strict1', 'strict< %s >' % S0)
    add('strict2', 'strict< %s, %s >' % (S0, S1))
    add('strict3', 'strict< %s, %s, %s >' % (S0, S1, S2))
    add('star_strict1', 'star_strict< %s >' % S0)
    add('star_strict2', 'star_strict< %s, %s >' % (S0, S1))
    add('until1', 'until< %s >' % S0, bytes_=True)
    add('until2', 'until< %s, %s >' % (S0, S1))
    add('until3', 'until< %s, %s, %s >' % (S0, S1, S2))
    for n in range(0, 4):
        add('rep%d' % n, 'rep< %d, %s >' % (n, S0))
        add('rep_max%d' % n, 'rep_max< %d, %s >' % (n, S0))
        add('rep_min%d' % n, 'rep_min< %d, %s >' % (n, S0))
        if n:   # rep_opt< 0, R > with a single R does not compile (ambiguous partial specialisations); see DESIGN.md
            add('rep_opt%d' % n, 'rep_opt< %d, %s >' % (n, S0))
    add('rep2_2', 'rep< 2, %s, %s >' % (S0, S1))
    add('rep_opt0_2', 'rep_opt< 0, %s, %s >' % (S0, S1))
    add('rep_opt2_2', 'rep_opt< 2, %s, %s >' % (S0, S1))
    add('rep_min1_2', 'rep_min< 1, %s, %s >' % (S0, S1))
    add('rep_max2_2', 'rep_max< 2, %s, %s >' % (S0, S1))
    hi = 3 if quick else 4
    for a in range(0, hi + 1):
        for b in range(a, hi + 1):
            add('rep_min_max%d_%d' % (a, b), 'rep_min_max< %d, %d, %s >' % (a, b, S0))
    add('rep_min_max1_2_2', 'rep_min_max< 1, 2, %s, %s >' % (S0, S1))
    # rematch / minus: the re-matched rules run on the sub-input that the head matched; sym2<k> may depend on where its input ends
    add('rematch1', 'rematch< %s >' % S0)
    add('rematch2', 'rematch< %s, sym2<0> >' % S0, k2=2)
    add('rematch3', 'rematch< %s, sym2<0>, sym2<1> >' % S0, k2=2)
    add('minus', 'minus< %s, sym2<0> >' % S0, k2=2)
    add('separated_seq', 'separated_seq< %s, %s, %s, %s >' % (S0, S1, S2, S1), spec='seq< %s, %s, %s, %s, %s >' % (S1, S0, S2, S0, S1), inc='tao/pegtl/contrib/separated_seq.hpp')
    add('separated_seq1', 'separated_seq< %s, %s >' % (S0, S1), spec=S1, inc='tao/pegtl/contrib/separated_seq.hpp')
    add('if_then', 'if_then< %s, %s, %s >' % (S0, S1, S2), spec='if_then_else< %s, seq< %s, %s >, failure >' % (S0, S1, S2), inc='tao/pegtl/contrib/if_then.hpp')
    add('if_then_else_then', 'if_then< %s, %s >::else_then< %s >' % (S0, S1, S2), spec='if_then_else< %s, %s, %s >' % (S0, S1, S2), inc='tao/pegtl/contrib/if_then.hpp')
    add('if_then_elif', 'if_then< %s, %s >::else_if_then< %s, %s >' % (S0, S1, S2, S1),
        spec='if_then_else< %s, %s, if_then_else< %s, %s, failure > >' % (S0, S1, S2, S1), inc='tao/pegtl/contrib/if_then.hpp')
    add('if_then_elif2', 'if_then< %s, %s >::else_if_then< %s, %s >::else_if_then< %s, %s >::else_then< %s >' % (S0, S1, S1, S2, S2, S0, S1),
        spec='if_then_else< %s, %s, if_then_else< %s, %s, if_then_else< %s, %s, %s > > >' % (S0, S1, S1, S2, S2, S0, S1), inc='tao/pegtl/contrib/if_then.hpp')
    return c


def plan(ctx):
    doc = pegspec.Doc(os.path.join(vf.REPO, 'doc', 'Rule-Reference.md'))
    N = 3 if ctx.quick() else 5
    K = 3
    qs = []
    for c in sym_cases(ctx.quick()):
        unit = ctx.unit('c09_' + c['name'], text=symgen.wrapper_text([c], includes=[c['inc']] if c['inc'] else (), variants='4'))
        n = N
        if c['heavy']:
            n = 2 if ctx.quick() else 4     # star nested in star: cost grows with N^2 unwindings
            if c['name'] == 'list_tail3' and ctx.quick():
                n = 3                       # element, separator, element, padding: the shortest input on which trailing padding matters needs 3 positions
        text, low, seen = symgen.harness_text(c, n, K, doc, maxres=3, variants=('ar', 'ao', 'nr', 'no'), bytes_=c['bytes'], k2=c['k2'])
        h = ctx.write('h_%s.c' % c['name'], text)
        groups = (('ar', 'ao', 'nr', 'no'),) if (ctx.quick() and not c['heavy']) else (('ar', 'ao'), ('nr', 'no'))
        for grp in groups:
            cd = {'VF_SPLIT': 1}
            cd.update(('V_' + v, 1) for v in grp)
            qs.append(vf.Query('sym/%s/%s' % (c['name'], '+'.join(grp)), unit, h, unwind=n + 3, cbmc_defines=cd,
                               bounds={'N': n, 'K': K, 'rule': c['cxx'], 'documented_expansion': low, 'outcomes': seen, 'variants': grp},
                               mem_gb=2, note='real %s vs documented expansion, over symbolic sub-rules' % c['cxx']))
    qs += byte_level(ctx, doc)
    qs += subinput_policy(ctx)
    ctx.notes.append({'doc_clauses_used': doc.used})
    return qs


# ---- byte-level members: the documented expansion is itself valid C++ (built from rules verified in C01/C10), so the real rule and
# ---- the real expansion are run on the same symbolic bytes and must agree on result, consumption and raised error

BYTE_RULES = [
    # (name, instantiation, documentation heading, substitutions for the heading's parameters, NA quick/thorough, alphabet)
    ('identifier', 'identifier', 'identifier', {}, 4, 'a_1 '),
    ('keyword', "keyword< 'a', 'b' >", 'keyword< C... >', {'C...': "'a', 'b'"}, 4, 'ab_1'),
    ('shebang', 'shebang', 'shebang', {}, 5, '#!a\\n\\r'),
    ('everything', 'everything', 'everything', {}, 4, 'a\\n'),
    ('ellipsis', 'ellipsis', 'ellipsis', {}, 4, '..a'),
    ('eolf', 'eolf', 'eolf', {}, 3, '\\r\\na'),
    ('eol', 'eol', 'eol', {}, 3, '\\r\\na'),
    ('forty_two', "forty_two< 'a', 'b' >", 'forty_two< C... >', {'C...': "'a', 'b'"}, 44, 'ab'),
]
CONTRIB_BYTE_RULES = [
    ('rep_string', "rep_string< 2, 'a', 'b' >", "rep< 2, string< 'a', 'b' > >", 'tao/pegtl/contrib/rep_string.hpp', 5, 'ab'),
    ('rep_string0', "rep_string< 0, 'a' >", "rep< 0, string< 'a' > >", 'tao/pegtl/contrib/rep_string.hpp', 2, 'ab'),
    ('rep_one_min_max', "rep_one_min_max< 1, 3, 'a' >", "rep_min_max< 1, 3, one< 'a' > >", 'tao/pegtl/contrib/rep_one_min_max.hpp', 5, 'ab'),
    ('rep_one_min_max0', "rep_one_min_max< 0, 2, 'a' >", "rep_min_max< 0, 2, one< 'a' > >", 'tao/pegtl/contrib/rep_one_min_max.hpp', 4, 'ab'),
]

BYTE_HARNESS = r'''/* generated harness (C09 byte level): %(rule)s  vs its documented expansion  %(exp)s  (both real code) */
#define VF_ALPHABET "%(alphabet)s"
#include "verif.h"
#include "leaf.h"
#define NA %(NA)d
static void harness(void) {
  lf_setup(NA);
  u64 a[8], b[8];
  w_rule_ar(lf_buf, lf_n, lf_start, a); w_exp_ar(lf_buf, lf_n, lf_start, b);
  CHECK(a[0] == b[0], "the rule and its documented expansion agree on success / local failure / global failure");
  if (a[0] == 1) CHECK(a[1] == b[1], "the rule and its documented expansion consume the same prefix");
  if (a[0] == 0) CHECK(a[1] == lf_start && b[1] == lf_start, "local failure consumes nothing");
  if (a[0] == 2) CHECK(a[3] == b[3], "global failure raised at the same position");
  if (a[0] == 1) CHECK(a[4] == b[4] && a[5] == b[5], "same line and column afterwards");
  w_rule_ao(lf_buf, lf_n, lf_start, a); w_exp_ao(lf_buf, lf_n, lf_start, b);
  CHECK(a[0] == b[0] && (a[0] != 1 || a[1] == b[1]), "... also under rewind_mode::optional");
  OBS(a[0]); OBS(a[1]);
  REACH(a[0] == 1%(reach_consume)s, "rule matched");
%(reach_fail)s
}
'''


def subinput_policy(ctx):
    """rematch<> / minus<> re-match on a sub-input that has to follow the same end-of-line policy (and source type) as the input it was cut from:
    eol-sensitive rules inside the re-match rules, on inputs with a non-default policy"""
    import leafgen
    qs = []
    for pol, ch in (('cr', "'\\r'"), ('lf', "'\\n'")):
        it = 'tao::pegtl::memory_input< tao::pegtl::tracking_mode::eager, tao::pegtl::eol::%s, const char* >' % pol
        cases = [
            {'name': 'rematch_eol_' + pol, 'cxx': 'rematch< rep< 3, any >, seq< any, eol, any > >', 'cond': 'HAVE(3) && B(S + 1) == %s' % ch, 'len': '3', 'alphabet': 'a\\r\\n'},
            {'name': 'minus_eol_' + pol, 'cxx': 'minus< rep< 2, any >, seq< eol, any > >', 'cond': 'HAVE(2) && B(S) != %s' % ch, 'len': '2', 'alphabet': 'a\\r\\n'},
        ]
        for c in cases:
            unit = ctx.unit('c09_' + c['name'], text=leafgen.wrapper_text([c], input_t=it))
            h = ctx.write('sp_%s.c' % c['name'], leafgen.harness_text(c, 4, defs='#define LF_EOL %s' % ch))
            qs.append(vf.Query('subinput/%s' % c['name'], unit, h, unwind=7, mem_gb=2, bounds={'bytes': 4, 'rule': c['cxx'], 'input': 'eol::' + pol},
                               note='eol-sensitive re-match rules under eol::%s: the sub-input keeps the policy of the outer input' % pol))
    return qs


def byte_level(ctx, doc):
    import leafgen
    qs = []
    items = []
    for name, inst, heading, sub, na, alpha in BYTE_RULES:
        cl = doc.clauses.get(heading) or []
        if not cl:
            raise vf.Inconclusive('no [Equivalent] clause for %s in the rule reference' % heading)
        exp = cl[0][0]
        for k, v in sub.items():
            exp = exp.replace(k, v)
        doc.used.append((inst, heading, cl[0][0], 'byte level: compiled as C++'))
        items.append((name, inst, exp, None, na, alpha))
    for name, inst, exp, inc, na, alpha in CONTRIB_BYTE_RULES:
        items.append((name, inst, exp, inc, na, alpha))
    for name, inst, exp, inc, na, alpha in items:
        if name == 'forty_two' and ctx.quick():
            continue
        cases = [{'name': 'rule', 'cxx': inst}, {'name': 'exp', 'cxx': exp}]
        unit = ctx.unit('c09b_' + name, text=leafgen.wrapper_text(cases, includes=[inc] if inc else ()))
        never_fails = name in ('everything', 'rep_string0', 'rep_one_min_max0')
        h = ctx.write('b_%s.c' % name, BYTE_HARNESS % {'rule': inst, 'exp': exp, 'alphabet': alpha, 'NA': na,
                                                        'reach_consume': '' if name in ('eolf', 'rep_string0', 'rep_one_min_max0', 'everything') else ' && a[1] > lf_start',
                                                        'reach_fail': '' if never_fails else '  REACH(a[0] != 1, "rule did not match");'})
        qs.append(vf.Query('bytes/' + name, unit, h, unwind=na + 3, mem_gb=4, bounds={'bytes': na, 'rule': inst, 'documented_expansion': exp},
                           note='real %s vs its documented expansion (real code) on symbolic bytes' % inst))
    return qs
