"""C05 — global failure: identity, position, propagation and conversion of exceptions."""
import os
import vf
import symgen
import pegspec
import evplan
from props import C05_perr

LEVEL_TEXT = ('bounded symbolic equivalence: rules of the must/raise/try_catch families, nested inside predicates, repetitions and choices and compiled from '
              'the real headers, are run over symbolic sub-rules that may fail after consuming, raise a global failure or throw a foreign exception; CBMC '
              'compares exception identity (first blamed rule in evaluation order), position range, byte/line/column consistency, unchanged propagation of '
              'both exception types and exact conversion by the try_catch family (with cursor restore) against the reference semantics. '
              'Second part (props/C05_perr.py): ' + C05_perr.LEVEL_TEXT)
ASSUMPTIONS = ['first part (rules over symbolic sub-rules): Control::raise is the documented customisation point and throws a POD carrying rule identity and '
               'byte/line/column; the real normal<Rule>::raise / raise_nested, parse_error and what() are the subject of the second part'] + C05_perr.ASSUMPTIONS

S0, S1, S2 = 'sym<0>', 'sym<1>', 'sym<2>'
CASES = [
    ('raise', 'seq< %s, raise< %s > >' % (S0, S1)),
    ('must_in_at', 'seq< at< %s, must< %s > >, %s >' % (S0, S1, S2)),
    ('must_in_not_at', 'seq< not_at< %s, must< %s > >, %s >' % (S0, S1, S2)),
    ('must_in_star', 'star< %s, must< %s > >' % (S0, S1)),
    ('must_in_plus', 'plus< %s, must< %s, %s > >' % (S0, S1, S2)),
    ('must_in_sor', 'sor< seq< %s, must< %s > >, %s >' % (S0, S1, S2)),
    ('must_first_of_two', 'seq< must< %s >, must< %s >, %s >' % (S0, S1, S2)),
    ('if_must_in_opt', 'seq< opt< if_must< %s, %s > >, %s >' % (S0, S1, S2)),
    ('if_must_else_in_star', 'star< if_must_else< %s, %s, %s > >' % (S0, S1, S2)),
    ('opt_must_in_seq', 'seq< opt_must< %s, %s >, %s >' % (S0, S1, S2)),
    ('star_must', 'seq< star_must< %s, %s >, %s >' % (S0, S1, S2)),
    ('list_must', 'list_must< %s, %s >' % (S0, S1)),
    ('must_in_until', 'until< %s, must< %s > >' % (S0, S1)),
    ('must_in_rep', 'rep< 2, %s, must< %s > >' % (S0, S1)),
    ('tc_verif', 'sor< try_catch_type_return_false< verif_exc, %s, must< %s > >, %s >' % (S0, S1, S2)),
    ('tc_foreign', 'sor< try_catch_type_return_false< foreign_exc, %s, must< %s > >, %s >' % (S0, S1, S2)),
    ('tc_any', 'sor< try_catch_any_return_false< %s, must< %s > >, %s >' % (S0, S1, S2)),
    ('tc_std', 'sor< try_catch_std_return_false< %s, must< %s > >, %s >' % (S0, S1, S2)),
    ('tc_default', 'sor< try_catch_return_false< %s, must< %s > >, %s >' % (S0, S1, S2)),
    ('tc_nested', 'try_catch_type_return_false< verif_exc, %s, try_catch_type_return_false< foreign_exc, %s, must< %s > > >' % (S0, S1, S2)),
    ('tc_in_star', 'star< try_catch_any_return_false< %s, must< %s > > >' % (S0, S1)),
    ('tcn_verif', 'sor< try_catch_type_raise_nested< verif_exc, named< 0, %s, must< %s > > >, %s >' % (S0, S1, S2)),
    ('tcn_foreign', 'seq< %s, try_catch_type_raise_nested< foreign_exc, named< 0, %s, must< %s > > > >' % (S2, S0, S1)),
    ('tcn_any', 'try_catch_any_raise_nested< named< 0, %s, must< %s > > >' % (S0, S1)),
    ('tcn_default', 'try_catch_raise_nested< named< 0, %s, must< %s > > >' % (S0, S1)),
    ('tcn_multi', 'try_catch_any_raise_nested< %s, must< %s > >' % (S0, S1)),
    ('tc_any_single', 'sor< try_catch_any_return_false< %s >, %s >' % (S0, S1)),
    ('tc_type_single', 'sor< try_catch_type_return_false< foreign_exc, %s >, %s >' % (S0, S1)),
    ('tc_any_if_must', 'seq< opt< try_catch_any_return_false< if_must< %s, %s > > >, %s >' % (S0, S1, S2)),
    ('tc_empty', 'seq< try_catch_any_return_false<>, %s >' % S0),
]

PROTO = [
    ('mi_seq', 'named< 0, %s, %s >' % (S0, S1), {}),
    ('mi_sor', 'named< 0, sor< named< 1, %s, %s >, %s > >' % (S0, S1, S2), {}),
    ('mi_opt', 'named< 2, opt< named< 1, %s > >, %s >' % (S0, S1), {}),
]


def plan(ctx):
    doc = pegspec.Doc(os.path.join(vf.REPO, 'doc', 'Rule-Reference.md'))
    N = 3 if ctx.quick() else 5
    K = 3
    qs = []
    for name, text in CASES:
        c = {'name': name, 'cxx': text, 'spec': text}
        unit = ctx.unit('c05_' + name, text=symgen.wrapper_text([c], variants='4'))
        htext, low, seen = symgen.harness_text(c, N, K, doc, maxres=3, variants=('ar', 'ao', 'nr', 'no'))
        h = ctx.write('h_%s.c' % name, htext)
        for grp in (('ar', 'ao'), ('nr', 'no')):
            cd = {'VF_SPLIT': 1}
            cd.update(('V_' + v, 1) for v in grp)
            qs.append(vf.Query('exc/%s/%s' % (name, '+'.join(grp)), unit, h, unwind=N + 3, cbmc_defines=cd,
                               bounds={'N': N, 'K': K, 'rule': text, 'reference': low, 'outcomes': seen, 'variants': grp},
                               note='exception identity/position/propagation/conversion vs reference semantics'))
    # global failure raised inside the re-match rule of rematch<> (sub-input), on a LAZY input: the byte position must still lie in the window
    c = {'name': 'rematch_must_lazy', 'cxx': 'rematch< %s, seq< sym2<0>, must< sym2<1> > > >' % S0, 'spec': 'rematch< %s, seq< sym2<0>, sor< sym2<1>, raise< sym2<1> > > > >' % S0}
    unit = ctx.unit('c05_' + c['name'], text=symgen.wrapper_text([c], variants='4L'))
    htext, low, seen = symgen.harness_text(c, N, K, doc, maxres=3, variants=('ar', 'ao'), k2=2, lazy=True)
    h = ctx.write('h_%s.c' % c['name'], htext)
    qs.append(vf.Query('exc/%s' % c['name'], unit, h, unwind=N + 3, bounds={'N': N, 'rule': c['cxx'], 'input': 'lazy'}, mem_gb=3,
                       note='exception position of a must<> inside the re-match rule of rematch<> on a lazy input'))
    # must_if<> controls: a rule whose control raises on local failure turns that failure into a global one, blaming that rule
    qs += evplan.queries(ctx, 'c05', PROTO, ['mustif', 'mustif_bool'], N if ctx.quick() else 4, modes=('ar', 'ao', 'nr'))
    # the real normal< Rule >::raise / raise_nested, parse_error construction, what(), nested exceptions (props/C05_perr.py)
    qs += C05_perr.plan(ctx)
    return qs
