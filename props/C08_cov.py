"""C08 (coverage facility) — the counters produced by contrib/coverage.hpp satisfy start = success + failure + unwind and are truthful.

Code under test: the REAL  tao::pegtl::coverage< Rule, Action, Control >( in, result )  (contrib/coverage.hpp): internal::coverage_state
(start/success/failure/unwind/raise/raise_nested hook bodies, name stack), internal::coverage_insert + visit<> (visit.hpp),
state_control< Control >::type (contrib/state_control.hpp + contrib/shuffle_states.hpp) and the match() machinery below them.

For a grammar of `vf::named< ID, ... >` rules and PEGTL combinators over symbolic sub-rules `vf::sym< K >` this module generates
  * a wrapper TU that calls coverage<>() (and, in "state mode", the three statements of coverage<>() spelled out so that the
    coverage_state object survives) and flattens the coverage_result into arrays indexed by rule ids (harness/c08_cov.hpp),
  * a C harness with a reference semantics (PEG semantics + the hook protocol of C08, same conventions as lib/evgen.py) that counts,
    per rule type and per (enclosing rule type, rule type) pair, the start/success/failure/unwind/raise/raise_nested events of the
    run; the enclosing rule is a static argument of every call site, no stack is kept on the reference side (harness/c08_cov.h).
Rule ids: every rule TYPE that gets a match() frame has an id — named rules, symbolic sub-rules, the public combinators spelled in the
grammar and the internal rules PEGTL interposes (internal::seq< A, B > under star< A, B >, internal::must< A > under must< A, B >, ...).
The generator spells the list of these types (its structural model); the library's own visit<>/subs_t decide what is in the map, and
the harness CHECKs that both agree (an entry for every listed type, no others; a branch entry exactly for the direct sub-rules).
"""
import os
import vf
import pegspec
from pegspec import E, parse, ival

LEVEL_TEXT = ('bounded symbolic model checking of the real coverage facility: tao::pegtl::coverage<>() (internal::coverage_state hook bodies with their '
              'std::map/std::vector bookkeeping, internal::coverage_insert driven by visit<>, state_control<>::type / rotate_states_right) is run by CBMC on '
              'small grammars of named rules and combinators over symbolic sub-rules (arbitrary success / failure / consumption / exception behaviour per '
              'position, vetoing and throwing actions); the returned coverage_result is flattened by the wrapper and compared, counter by counter, per rule '
              'and per (parent, child) branch, with the event counts of a generated reference protocol; start == success + failure + unwind is checked for '
              'every entry of the real map in every outcome (true, false, global failure, foreign exception), the set of entries and branch entries is '
              'compared with the rule structure, std::map::at is shown never to miss, and the name stack is shown to be empty after every outcome')

ASSUMPTIONS = [
    'CBMC and the translated native build see std::map / std::vector as the array-backed stand-ins of lib/stubstd (typed variants selected with '
    '-DVSTUB_TYPED: slots are real arrays of { key, value } / string_view objects, fixed capacity; each query proves the capacity is never exceeded; a '
    'missing key in map::at is reported to the harness and then thrown as a stand-in exception); the g++/ASan/UBSan build used for translation validation '
    '(20 000 inputs per query) and for replays uses the GENUINE libstdc++ containers (Unit real_cxxflags), so stand-ins + translation are compared with the '
    'genuine library on every run',
    'rule names are the compile-time constants demangle< Rule >() of clang 14; the stand-in map takes two keys as equal if they are the same object with '
    'the same length or equal by the real std::string_view operator== (length, then bytes: memcmp model of lib/models.h, unwound to the longest rule name); '
    'measured: with the byte-buffer stand-ins of C11 no verdict in 900 s for a 7-rule grammar, typed stand-ins 26 s / 1.1 GB',
    'Control = vf::vcontrol (normal<> with the documented raise / raise_nested customisation points throwing a POD instead of building a parse_error: '
    'std::string / iostream formatting is outside the encodable code); print_coverage.hpp (iostream) is not covered',
    'translation options of these units: clang -O1 with -mllvm -inline-threshold=1000000 (+ cold/hint thresholds) and -sink-common-insts=false, so that the '
    'whole run is one function: exceptional and normal control flow then only join where the C++ code catches (with out-of-line callees the lowered '
    'exception flag merges both at every function exit and the stack depth becomes a solver term: no verdict in 900 s); ll2c --inline-gep --typed-memset '
    '--single-exit; like every translation they are validated per query against the g++ build (which uses none of these options)',
    'inputs of at most N positions, sub-rule behaviour tables over those positions; repetitions that make no progress and recursion deeper than the stated '
    'level (the real parse does not terminate / nests deeper) are excluded by assumption on the reference before the real run',
    'grammars use seq, sor, opt, star, plus, at, not_at, must, opt_must, try_catch_type/any_return_false, try_catch_type/any_raise_nested, one directly '
    'recursive rule, raise< T > with T occurring elsewhere in the grammar (the branch entry ( raise< T >, T ) is created on demand when the raise is counted)',
]

S0, S1, S2 = 'sym<0>', 'sym<1>', 'sym<2>'


# ------------------------------------------------------------------ structural model of a grammar: which rule types get a match() frame

class Node:
    def __init__(s, cxx, kind=None, rid=-1):
        s.cxx = cxx        # C++ spelling of the rule type (inside `using namespace tao::pegtl`)
        s.kind = kind      # semantics of its match(): sym seq sor opt star plus at not_at must tcrf tcrn raise success failure eof
        s.kids = []        # direct sub-rules (subs_t), each with a frame of its own
        s.rid = rid        # vf::rid<> value (identified rules: sym, named, recursive defs), else -1
        s.what = None      # exception filter of try_catch rules
        s.target = None    # raise< T >
        s.isdef = False
        s.idx = None


PACK1 = ('opt', 'star', 'plus', 'at', 'not_at')
TC = {'try_catch_return_false': ('tcrf', 'parse_error_base'), 'try_catch_any_return_false': ('tcrf', 'any_type'), 'try_catch_std_return_false': ('tcrf', 'std_exception'),
      'try_catch_raise_nested': ('tcrn', 'parse_error_base'), 'try_catch_any_raise_nested': ('tcrn', 'any_type'), 'try_catch_std_raise_nested': ('tcrn', 'std_exception'),
      'try_catch_type_return_false': ('tcrf', None), 'try_catch_type_raise_nested': ('tcrn', None)}


class Model:
    def __init__(s, grammar, defs=None):
        s.defs = {k: (v[0], parse(v[1])) for k, v in (defs or {}).items()}
        s.nodes = {}
        s.order = []
        s.root = s.build(parse(grammar))

    def add(s, node):
        node.idx = len(s.order)
        s.nodes[node.cxx] = node
        s.order.append(node)
        return node

    def get(s, cxx, kind, kids_e=None, kids=None, rid=-1):
        if cxx in s.nodes:
            return s.nodes[cxx]
        node = s.add(Node(cxx, kind, rid))
        node.kids = kids if kids is not None else [s.build(x) for x in kids_e]
        return node

    def iseq(s, args):
        """the rule PEGTL interposes for a pack of several rules"""
        return s.get('tao::pegtl::internal::seq< %s >' % ', '.join(map(repr, args)), 'seq', kids_e=args)

    def one(s, args):
        return s.build(args[0]) if len(args) == 1 else s.iseq(args)

    def shape(s, node, e):
        """fill kind / kids of `node` from the combinator expression e"""
        n, a = e.name, e.args
        if n in ('seq', 'sor'):
            if not a:
                node.kind = 'success' if n == 'seq' else 'failure'
                return
            node.kind = n
            node.kids = [s.build(x) for x in a]
        elif n in PACK1:
            if not a:
                node.kind = 'success'
                return
            node.kind = n
            node.kids = [s.one(a)]
        elif n == 'must':
            if len(a) == 1:
                node.kind = 'must'
                node.kids = [s.build(a[0])]
            else:
                node.kind = 'seq'
                node.kids = [s.get('tao::pegtl::internal::must< %r >' % x, 'must', kids_e=[x]) for x in a]
        elif n in ('if_must', 'opt_must'):
            # internal::if_must< Default, Cond, Rules... >: subs_t = < Cond, internal::must< Rules... > >
            node.kind = n
            rules = a[1:]
            if len(rules) == 1:
                mu = s.get('tao::pegtl::internal::must< %r >' % rules[0], 'must', kids_e=rules)
            else:
                mu = s.get('tao::pegtl::internal::must< %s >' % ', '.join(map(repr, rules)), 'seq',
                           kids=[s.get('tao::pegtl::internal::must< %r >' % x, 'must', kids_e=[x]) for x in rules])
            node.kids = [s.build(a[0]), mu]
        elif n in TC:
            kind, what = TC[n]
            rules = a
            if what is None:
                what, rules = a[0].name, a[1:]
            node.kind = kind
            node.what = what
            node.kids = [s.one(rules)]
        elif n == 'raise':
            node.kind = 'raise'
            node.target = a[0]
        elif n in ('success', 'failure', 'eof'):
            node.kind = n
        else:
            raise ValueError('no structural model for %r' % e)

    def build(s, e):
        n, a = e.name, e.args
        cxx = repr(e)
        if cxx in s.nodes:
            return s.nodes[cxx]
        if n in s.defs and not a:
            node = s.add(Node(cxx, None, s.defs[n][0]))      # registered before its body is built: the body may mention it
            node.isdef = True
            s.shape(node, s.defs[n][1])                        # struct R : body {}  — R's match() is the body's, the body type has no frame of its own
            return node
        if n == 'sym':
            return s.add(Node(cxx, 'sym', ival(a[0])))
        if n == 'named':
            node = s.add(Node(cxx, 'seq', 100 + ival(a[0])))
            node.kids = [s.build(x) for x in a[1:]]
            if not node.kids:
                node.kind = 'success'
            return node
        node = s.add(Node(cxx))
        s.shape(node, e)
        return node

    def depth(s, maxrec):
        """deepest nesting of frames (name stack)"""
        memo = {}

        def d(node, lvl):
            if node.isdef:
                if lvl >= maxrec:
                    return 0
                lvl += 1
            k = (node.idx, lvl)
            if k not in memo:
                memo[k] = 0
                memo[k] = 1 + max([d(x, lvl) for x in node.kids] or [0])
            return memo[k]
        return d(s.root, 0)


# ------------------------------------------------------------------ reference semantics with counters

def exc_cond(what, v='x'):
    if what in ('void', 'any_type'):
        return '%s.r == 2 || %s.r == 3' % (v, v)
    if what.endswith('verif_exc'):
        return '%s.r == 2' % v
    if what.endswith('foreign_exc'):
        return '%s.r == 3' % v
    return '0'          # parse_error_base, std::exception: neither harness exception derives from them


class RefGen:
    """action: None | 'bool' (vetoes or throws) | 'void' (throws), attached to the identified rules"""

    def __init__(s, model, action=None, maxrec=3):
        s.m = model
        s.action = action
        s.maxrec = maxrec
        s.fns = {}
        s.protos = []
        s.order = []

    def fn(s, node, lvl):
        if node.isdef:
            lvl += 1
        k = (node.idx, lvl)
        if k in s.fns:
            return s.fns[k]
        name = 'f%d_%d' % k
        s.fns[k] = name
        s.protos.append('static out_t %s(u64 p, int a, int par);' % name)
        if node.isdef and lvl > s.maxrec:
            text = '  (void)a; (void)par; return sp_div(p);   /* recursion deeper than the bound: excluded */'
        else:
            text = s.frame(node, lvl)
        s.order.append('/* rule %d = %s  (level %d) */\nstatic out_t %s(u64 p, int a, int par) {\n%s\n}\n' % (node.idx, node.cxx, lvl, name, text))
        return name

    def frame(s, node, lvl):
        t = node.idx
        L = ['  const int t = %d;' % t, '  cnt(C_START, t, par);', '  out_t b;', '  {', s.body(node, lvl), '  }']
        L.append('  if (b.r == 4) return b;')
        L.append('  if (b.r >= 2) { cnt(C_UNWIND, t, par); return b; }')
        L.append('  int ok = (b.r == 1);')
        if s.action and node.rid >= 0:
            L.append('  if (ok && a) {')
            L.append('    int v = sp_veto(%d, p);' % node.rid)
            L.append('    if (v == 2) { cnt(C_UNWIND, t, par); out_t x = { 3, p, %d, p, b.far }; return x; }   /* the action throws: the frame is left by an exception */' % (3000 + node.rid))
            if s.action == 'bool':
                L.append('    if (v == 0) ok = 0;                                                              /* the action vetoes: failure hook instead of success */')
            L.append('  }')
        L.append('  if (ok) { cnt(C_SUCCESS, t, par); return b; }')
        L.append('  cnt(C_FAILURE, t, par); return sp_fail(p, b.far);')
        return '\n'.join(L)

    def body(s, node, lvl):
        """C statements that set `b` to the outcome of the rule's own match() at p (sub-rule frames are called with par = t)"""
        k = node.kind
        call = lambda kid, pos, am='a': '%s(%s, %s, t)' % (s.fn(kid, lvl), pos, am)
        if k == 'sym':
            return '    b = sp_sym(%d, p);' % node.rid
        if k == 'success':
            return '    b = sp_succ(p, p);'
        if k == 'failure':
            return '    b = sp_fail(p, p);'
        if k == 'eof':
            return '    b = (p == sp_n) ? sp_succ(p, p) : sp_fail(p, p);'
        if k == 'seq':
            L = ['    u64 q = p, far = p; out_t x; int done = 0;']
            for kid in node.kids:
                L.append('    if (!done) { x = %s; if (x.far > far) far = x.far; if (x.r != 1) { done = 1; if (x.r == 0) b = sp_fail(p, far); else b = x; } else q = x.pos; }' % call(kid, 'q'))
            L.append('    if (!done) b = sp_succ(q, far);')
            return '\n'.join(L)
        if k == 'sor':
            L = ['    u64 far = p; out_t x; int done = 0;']
            for kid in node.kids:
                L.append('    if (!done) { x = %s; if (x.far > far) far = x.far; if (x.r != 0) { if (x.r == 1 || (x.r == 2 && x.id < 1000)) x.far = far; b = x; done = 1; } }' % call(kid, 'p'))
            L.append('    if (!done) b = sp_fail(p, far);')
            return '\n'.join(L)
        kid = node.kids[0] if node.kids else None
        if k == 'opt':
            return '    out_t x = %s; if (x.r == 0) b = sp_succ(p, x.far); else b = x;' % call(kid, 'p')
        if k == 'at':
            return '    out_t x = %s; if (x.r == 1) b = sp_succ(p, x.far); else b = x;' % call(kid, 'p', '0')
        if k == 'not_at':
            return '    out_t x = %s; if (x.r == 1) b = sp_fail(p, x.far); else if (x.r == 0) b = sp_succ(p, x.far); else b = x;' % call(kid, 'p', '0')
        if k in ('star', 'plus'):
            L = ['    u64 q = p, far = p; int done = 0; out_t x;']
            if k == 'plus':
                L.append('    x = %s; if (x.r != 1) { b = x; done = 1; } else { q = x.pos; far = x.far; }' % call(kid, 'p'))
            L.append('    for (unsigned i = 0; i <= SP_N + 1; ++i) if (!done) { x = %s; if (x.far > far) far = x.far;' % call(kid, 'q'))
            L.append('      if (x.r == 0) { b = sp_succ(q, far); done = 1; } else if (x.r != 1) { b = x; done = 1; } else if (x.pos == q) { b = sp_div(q); done = 1; } else q = x.pos; }')
            L.append('    if (!done) b = sp_div(q);')
            return '\n'.join(L)
        if k == 'must':
            # Control< Rule >::raise is called for the SUB-rule while the must<> frame is the innermost open one
            return ('    out_t x = %s; if (x.r == 0) { cnt(C_RAISE, %d, t); out_t o = { 2, p, %d, p, x.far }; b = o; } else b = x;'
                    % (call(kid, 'p'), kid.idx, kid.rid))
        if k == 'tcrf':
            return '    out_t x = %s; if (%s) b = sp_fail(p, x.far); else b = x;' % (call(kid, 'p'), exc_cond(node.what))
        if k == 'tcrn':
            # Control< Rule >::raise_nested for the sub-rule, after its frame was unwound; the new exception carries the start position
            return ('    out_t x = %s; if (%s) { cnt(C_RAISE_NESTED, %d, t); out_t o = { 2, p, %d, p, p }; b = o; } else b = x;'
                    % (call(kid, 'p'), exc_cond(node.what), kid.idx, 5000 + kid.rid))
        if k in ('if_must', 'opt_must'):
            dflt = 'sp_succ(p, x.far)' if k == 'opt_must' else 'sp_fail(p, x.far)'
            return ('    out_t x = %s; if (x.r == 1) { out_t y = %s; if (y.far < x.far) y.far = x.far; b = y; } else if (x.r == 0) b = %s; else b = x;'
                    % (call(node.kids[0], 'p'), call(node.kids[1], 'x.pos'), dflt))
        if k == 'raise':
            tgt = s.m.nodes.get(repr(node.target))
            return ('    %s{ out_t o = { 2, p, %d, p, p }; b = o; }' % (('cnt(C_RAISE, %d, t); ' % tgt.idx) if tgt else '', tgt.rid if tgt else -1))
        raise ValueError('no semantics for kind %r' % k)

    def text(s):
        return '\n'.join(s.protos) + '\n\n' + '\n'.join(s.order)


WRAP = '''// generated wrapper TU — C08 coverage check: the real tao::pegtl::coverage<>() from /repo/include, result flattened by harness/c08_cov.hpp
#include "c08_cov.hpp"
using namespace tao::pegtl;
using vf::sym;
using vf::named;
using vf::verif_exc;
using vf::foreign_exc;
%(preamble)s
using G = %(grammar)s;
// every rule type of the grammar that gets a match() frame; position in this list = rule id of the harness
using RL = type_list<
   %(types)s >;
VF_COV_WRAP( w_cov, cov_run, G, RL, %(action)s )
VF_COV_WRAP( w_stk, cov_run_state, G, RL, %(action)s )
'''

HARNESS = r'''/* generated harness — C08 coverage check
 * grammar: %(grammar)s
%(rules)s */
#define SP_N %(N)d
#define SP_K %(K)d
#define SP_MAXRES %(maxres)d
#define COV_NR %(NR)d
#define COV_VETO_MAX %(vetomax)d
#define VF_MAXIN 768
#include "verif.h"
#include "symtab.h"
#include "symcheck.h"
static const u8 cov_kid[COV_NR * COV_NR] = { %(kid)s };
static const u8 cov_nkids[COV_NR] = { %(nkids)s };
static const u8 cov_dyn[COV_NR * COV_NR] = { %(dyn)s };   /* ( raise< T >, T ): branch entry created on demand when the raise is counted */
#include "c08_cov.h"

%(spec)s

static u64 cov_total(int kind) { u64 s = 0; for (unsigned i = 0; i < COV_NR; ++i) s += cov_exp_rule[i * 6 + kind]; return s; }
static int cov_twice(void) { int r = 0; for (unsigned i = 0; i < COV_NR; ++i) if (cov_exp_rule[i * 6 + C_START] >= 2) r = 1; return r; }

static void harness(void) {
  sp_setup();
  cov_setup();
  u64 o[8];
  out_t e = %(root)s(sp_start, 1, -1);
  ASSUME(e.r != 4);             /* no progress / recursion beyond the bound: outside the claim */
#if !defined(VF_SPLIT) || defined(V_cov)
  cov_clear_out();
  w_cov((const char *)sp_buf, sp_n, sp_start, o, cov_rl, cov_br, cov_meta);
  ASSUME(!sp_exhausted);
  CHECK(o[0] != 9, "nothing but the parse outcome leaves coverage<>() (no std::out_of_range from std::map::at)");
  check_variant("", o, e, 0);
  cov_compare();
#endif
#if !defined(VF_SPLIT) || defined(V_stk)
  cov_clear_out();
  w_stk((const char *)sp_buf, sp_n, sp_start, o, cov_rl, cov_br, cov_meta);
  ASSUME(!sp_exhausted);
  CHECK(o[0] != 9, "nothing but the parse outcome leaves the run (no std::out_of_range from std::map::at)");
  check_variant("", o, e, 0);
  CHECK(cov_meta[2] == 0, "the name stack of coverage_state is empty after the run, whatever the outcome (every push was popped by success, failure or unwind)");
  cov_compare();
#endif
  REACH(e.r == 1, "coverage() returns true");
%(reach)s
}
'''


def texts(gtext, opts, quick):
    defs = opts.get('defs')
    maxrec = opts.get('maxrec', 3)
    m = Model(gtext, defs)
    action = opts.get('action')
    g = RefGen(m, action=action, maxrec=maxrec)
    root = g.fn(m.root, 0)
    NR = len(m.order)
    pre = []
    for name, (rid, body) in m.defs.items():
        pre.append('struct %s : %s {};' % (name, repr(body)))
        pre.append('template<> struct vf::rid< %s > { static constexpr int value = %d; };' % (name, rid))
    act = {'bool': 'vf::act_bool', 'void': 'vf::act_void', None: 'tao::pegtl::nothing'}[action]
    wrap = WRAP % {'preamble': '\n'.join(pre), 'grammar': repr(parse(gtext)), 'types': ',\n   '.join(n.cxx for n in m.order), 'action': act}
    kid = []
    nk = []
    dyn = []
    for a in m.order:
        ks = {k.idx for k in a.kids}
        nk.append(len(ks))
        kid += ['1' if b.idx in ks else '0' for b in m.order]
        # raise< T >: T is not a sub-rule (subs_t is empty); the branch entry ( raise< T >, T ) is created when the raise is counted
        tgt = m.nodes.get(repr(a.target)) if a.kind == 'raise' and a.target is not None else None
        dyn += ['1' if (tgt is not None and b.idx == tgt.idx) else '0' for b in m.order]
    N = opts.get('N', 3 if quick else 4)
    reach = ['  REACH(%s, "%s");' % (c, t) for (c, t) in opts.get('reach', [])]
    h = HARNESS % {'grammar': gtext, 'rules': '\n'.join(' *   rule %2d = %s   [%s, subs: %s]' % (n.idx, n.cxx, n.kind, ' '.join(str(k.idx) for k in n.kids) or '-') for n in m.order),
                   'N': N, 'K': opts.get('K', 3), 'maxres': opts.get('maxres', 3), 'NR': NR, 'vetomax': 2 if action else 0,
                   'kid': ', '.join(kid), 'nkids': ', '.join(map(str, nk)), 'dyn': ', '.join(dyn), 'spec': g.text(), 'root': root, 'reach': '\n'.join(reach)}
    return m, wrap, h, N


# reach conditions
R_FALSE = ('e.r == 0', 'coverage() returns false')
R_GLOBAL = ('e.r == 2', 'run ended by a global failure')
R_FOREIGN2 = ('e.r == 3 && cov_total(C_UNWIND) >= 2', 'run ended by a foreign exception with >= 2 frames open')
R_TWICE = ('cov_twice()', 'a rule was started twice')
R_RAISE = ('cov_total(C_RAISE) >= 1', 'raise counted')
R_NESTED = ('cov_total(C_RAISE_NESTED) >= 1', 'raise_nested counted')
R_CONT = lambda r: ('(e.r == 0 || e.r == 1) && cov_total(C_UNWIND) >= %d' % r, 'frames were unwound by an exception that was caught inside the run, parsing went on')


def exp_rule(i, kind):
    return 'cov_exp_rule[%d * 6 + %s]' % (i, kind)


# name, grammar, options
GRAMMARS = [
    # seq / sor / opt nesting with backtracking; sym<0> occurs under two different parents (named<1> and the opt)
    ('backtrack', 'named< 0, sor< named< 1, %s, %s >, %s >, opt< %s > >' % (S0, S1, S2, S0),
     {'stk': True, 'reach': [R_FALSE, R_GLOBAL, R_FOREIGN2, R_TWICE]}),
    # repetitions: star over a named rule; plus over a pack (internal::seq interposed)
    ('star', 'named< 0, star< named< 1, %s > >, %s >' % (S0, S1),
     {'reach': [R_FALSE, R_FOREIGN2, R_TWICE, ('%s >= 3' % exp_rule(2, 'C_START'), 'the starred rule was started three times')]}),
    ('plus', 'named< 0, plus< %s, %s >, %s >' % (S0, S1, S2),
     {'reach': [R_FALSE, R_FOREIGN2, R_TWICE, ('%s >= 2' % exp_rule(2, 'C_SUCCESS'), 'the repeated sequence matched twice')]}),
    # predicates: hooks still run inside at<> / not_at<>; named<1> occurs inside at<> and directly under named<0>
    ('lookahead', 'named< 0, at< named< 1, %s > >, not_at< %s >, named< 1, %s >, %s >' % (S0, S1, S0, S2),
     {'reach': [R_FALSE, R_FOREIGN2, R_TWICE]}),
    # must<> over a pack: internal::must< R > frames, raise counted for the sub-rule under the must frame
    ('must', 'named< 0, %s, must< %s, named< 1, %s > > >' % (S0, S1, S2),
     {'stk': True, 'reach': [R_FALSE, R_GLOBAL, R_RAISE, R_FOREIGN2]}),
    # global failure caught inside the run: frames unwound, parsing goes on with the next alternative
    ('trycatch', 'named< 1, sor< try_catch_type_return_false< verif_exc, named< 0, %s, must< %s > > >, %s >, %s >' % (S0, S1, S2, S0),
     {'stk': True, 'reach': [R_FALSE, R_GLOBAL, R_RAISE, R_FOREIGN2, R_TWICE, R_CONT(2)]}),
    # raise_nested: a foreign exception is converted inside the run, the converted one is caught further out
    ('nested', 'named< 0, sor< try_catch_any_return_false< try_catch_type_raise_nested< foreign_exc, named< 1, %s, %s > > >, %s > >' % (S0, S1, S2),
     {'stk': True, 'reach': [R_FALSE, R_NESTED, R_CONT(3), R_GLOBAL]}),
    # bool action: a veto turns the success hook into the failure hook; the action may also throw
    ('veto', 'named< 0, sor< named< 1, %s >, %s >, %s >' % (S0, S1, S2),
     {'action': 'bool', 'reach': [R_FALSE, R_FOREIGN2, ('e.r == 1 && sp_veto(101, sp_start) == 0 && T_res[0][sp_start] == 1', 'a rule matched, its action vetoed, the run still succeeded')]}),
    # void action that throws, caught inside the run
    ('throwact', 'named< 0, sor< try_catch_any_return_false< named< 1, %s > >, %s >, %s >' % (S0, S1, S2),
     {'stk': True, 'action': 'void', 'reach': [R_FALSE, R_FOREIGN2, R_CONT(1), ('e.r == 1 && sp_veto(101, sp_start) == 2 && T_res[0][sp_start] == 1', 'the action of a rule that matched threw, the exception was caught inside the run')]}),
    # raise< T >: the blamed rule is not a sub-rule of raise< T >; coverage<>() used to throw std::out_of_range here (fixed: known_findings.json C08_COVRAISE)
    ('raise', 'named< 0, opt< %s >, raise< %s >, %s >' % (S0, S1, S1),
     {'raise_only': True, 'mem_gb': 12, 'N': 2, 'reach': [R_GLOBAL]}),
    # thorough tier only
    ('optmust', 'named< 0, opt_must< %s, %s, named< 1, %s > >, %s >' % (S0, S1, S2, S2),
     {'thorough_only': True, 'reach': [R_FALSE, R_GLOBAL, R_RAISE, R_FOREIGN2]}),
    ('combo', 'named< 0, star< sor< named< 1, %s, %s >, %s > >, opt< named< 1, %s, %s > > >' % (S0, S1, S2, S0, S1),
     {'thorough_only': True, 'N': 3, 'mem_gb': 6, 'reach': [R_FOREIGN2, R_TWICE, ('%s >= 3' % exp_rule(3, 'C_START'), 'the rule with two parents was started three times')]}),   # star + opt: never returns false
    ('nested_act', 'named< 0, sor< try_catch_type_return_false< verif_exc, try_catch_any_raise_nested< named< 1, %s >, %s > >, %s > >' % (S0, S1, S2),
     {'thorough_only': True, 'action': 'bool', 'reach': [R_FALSE, R_NESTED, R_CONT(2)]}),
    # directly recursive named rule
    ('recursive', 'named< 0, R, %s >' % S2,
     {'defs': {'R': (150, 'sor< seq< sym<0>, R >, sym<1> >')}, 'maxrec': 3, 'N': 2, 'K': 3, 'stk': True, 'thorough': {'N': 3},
      'reach': [R_FALSE, R_FOREIGN2, R_TWICE, ('%s >= 3' % exp_rule(1, 'C_START'), 'the recursive rule was nested three levels deep')]}),
]


def plan(ctx):
    stub = os.path.join(vf.LIB, 'stubstd')
    only = os.environ.get('C08COV_GRAMMARS')
    qs = []
    for (gname, gtext, opts) in GRAMMARS:
        if only and gname not in only.split(','):
            continue
        if ctx.quick() and opts.get('thorough_only'):
            continue
        if opts.get('raise_only') and not os.environ.get('C08COV_RAISE'):
            continue   # whole-run query for raise< T >: no verdict in 760 s (the result map grows at run time); the hook is checked as one step below
        o = dict(opts)
        if not ctx.quick():
            o.update(opts.get('thorough', {}))
        m, wrap, htext, N = texts(gtext, o, ctx.quick())
        NR = len(m.order)
        maxrec = o.get('maxrec', 3)
        cap = max(NR, m.depth(maxrec + 1 if m.defs else maxrec) + 1, 2)   # name stack: deepest nesting incl. the recursion level that the reference excludes (symex still enters it)
        capb = max([len({k.idx for k in n.kids}) for n in m.order] + [1])        # branch maps: distinct direct sub-rules of one rule
        unit = ctx.unit('c08cov_' + gname, text=wrap, cxxflags=['-I', stub, '-DVSTUB_CAP=%d' % cap, '-DVSTUB_CAP_SMALL=%d' % capb, '-DVSTUB_SMALL_BYTES=48', '-DVSTUB_TYPED', '-mllvm', '-inline-threshold=1000000', '-mllvm', '-sink-common-insts=false', '-mllvm', '-inline-cold-callsite-threshold=1000000', '-mllvm', '-inlinecold-threshold=1000000', '-mllvm', '-inlinehint-threshold=1000000'], ll2c=['--inline-gep', '--typed-memset', '--single-exit'], real_cxxflags=[])
        h = ctx.write('h_%s.c' % gname, htext)
        us = ['cov_setup.%d:%d' % (i, max(NR * NR * 6, 13) + 1) for i in range(6)]
        us += ['cov_clear_out.%d:%d' % (i, NR * NR * 7 + 1) for i in range(3)]
        us += ['cov_compare.%d:%d' % (i, max(NR + 1, 8)) for i in range(5)]
        us += ['cov_total.0:%d' % (NR + 1), 'cov_twice.0:%d' % (NR + 1)]
        try:
            b = vf.build_unit(ctx, unit)
            # std::string_view operator== of the real library compares bytes (memcmp model of lib/models.h): bounded by the longest rule name
            import re
            ll = open(os.path.join(b['dir'], 'w.ll')).read()
            longest = max([len(x) for x in re.findall(r'demangle\(\) \[T = ([^\n]*)\]\\00', ll)] or [0])
            us += ['x_memcmp.0:%d' % (longest + 2), 'x_bcmp.0:%d' % (longest + 2)]
            for f in b['defined']:
                if 'star_partial' in f or 'internal4plus' in f:
                    us += ['%s.%d:%d' % (f, i, N + 3) for i in range(2)]     # repetition over symbolic sub-rules: at most N + 1 productive iterations
                if m.defs and not f.startswith('w_') and 'match' in f and 'unwind_guard' not in f:
                    us.append('%s:%d' % (f, maxrec + 1))      # whatever function clang left out of line in the recursive cycle: recursion bounded by the level bound
        except vf.Inconclusive:
            pass          # reported by the query itself
        unwind = max(N + 3, cap + 2, NR + 2, 8)
        ctx.write('us_%s.txt' % gname, '%d\n%s\n' % (unwind, ','.join(us)))      # for manual runs (VERIF_KEEP=1)
        modes = ('cov', 'stk') if (not ctx.quick() or o.get('stk', False)) else ('cov',)
        for mode in modes:
            qs.append(vf.Query('%s/%s' % (gname, mode), unit, h, unwind=unwind, mem_gb=o.get('mem_gb', 4), unwindset=us,
                               cbmc_defines={'VF_SPLIT': 1, 'V_' + mode: 1},
                               bounds={'N': N, 'K': o.get('K', 3), 'grammar': gtext, 'rule_types': NR, 'container_capacity': cap, 'branch_map_capacity': capb,
                                       'action': {'bool': 'vf::act_bool (veto / throw)', 'void': 'vf::act_void (throw)'}.get(o.get('action'), 'nothing'),
                                       'encoded': 'tao::pegtl::coverage< G, Action, vf::vcontrol >() with everything below it inlined into the wrapper by clang: '
                                                  'internal::coverage_state::{start,success,failure,unwind,raise,raise_nested,apply}< Rule >, '
                                                  'internal::coverage_insert< Rule >::{visit,visit_branches}, visit<>, parse<>, state_control<>::control< Rule > hooks, '
                                                  'shuffle_states (rotate_states_right), match<>, internal::match_control_unwind, internal::unwind_guard, the rules\' match()',
                                       'mode': 'coverage<>() itself' if mode == 'cov' else 'coverage_state + state_control<>::type driven through parse<> (name stack observable)'},
                               note='counters of the real coverage_result: balanced, equal to the reference event counts per rule and per branch; map structure == rule structure'
                                    if mode == 'cov' else 'same, and the name stack is empty after every outcome'))
            # if the solver times out, a check that already failed on the real build for one of the 20 000 validation inputs is replayed and reported (a defect in the
            # bookkeeping can make the symbolic run much more expensive: exceptions from map::at open many more paths)
            qs[-1].replay_failing_samples = True
    # the raise hook for raise< T > as one step of the real coverage_state from the map visit<> builds (T inside / outside the grammar, with / without parent)
    su = ctx.unit('c08cov_raise_step', cpp=os.path.join(vf.VERIF, 'harness', 'c08_covraise.cpp'),
                  cxxflags=['-I', stub, '-DVSTUB_CAP=8', '-DVSTUB_CAP_SMALL=4', '-DVSTUB_SMALL_BYTES=48', '-DVSTUB_TYPED'], ll2c=['--inline-gep', '--typed-memset'], real_cxxflags=[])
    qs.append(vf.Query('raise_step', su, os.path.join(vf.VERIF, 'harness', 'c08_covraise.c'), unwind=12, unwindset=['x_memcmp.0:90', 'x_bcmp.0:90'], mem_gb=4,
                       bounds={'grammars': ['seq< sor< T1, raise< T1 > > >', 'seq< sor< T1, raise< T2 > > >'], 'state': 'result map as filled by visit<>, name stack empty or [ raise< T > ]'},
                       note='coverage_state::raise< T >() counts the raise and does not throw although ( raise< T >, T ) is not a sub-rule edge'))
    return qs
