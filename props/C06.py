"""C06 — reported positions are a function of the consumed prefix only; eager == lazy."""
import vf

LEVEL_TEXT = ('bounded model checking of the real position bookkeeping: for every byte-consuming atom family (any, bytes, one, not_one, range, not_range, '
              'ranges, string, istring, UTF-8 any/one/not_one/range/ranges, eol, eolf, until<eol>, rep_one_min_max, space/identifier, the integer rules\' '
              'use of bump_in_this_line) and for small backtracking / raising grammars, compiled from the real headers for each of the five end-of-line '
              'policies, CBMC runs the rule on symbolic bytes after a symbolic generic bump(s), on an eager and on a lazy memory_input constructed with '
              'symbolic initial byte/line/column, and compares every observable position (input counters, position(), Control::start/success/failure/raise, '
              'action_input::position(), parse-tree node begin/end) with an independent recount of the consumed prefix, and eager with lazy. '
              'Lifting to whole runs: an eager input\'s counters are only ever changed by bump/bump_in_this_line/bump_to_next_line (called by the atoms checked '
              'here from arbitrary counters) and by rewinding to a saved copy; the recount is compositional over concatenation; a lazy position() depends on '
              '(begin, cursor) only.')

ASSUMPTIONS = [
    'position.source: Source = const char* inputs with source ""; the std::string( "" ) construction inlined into position() stays in the small-string '
    'buffer (heap growth _M_create and the null-pointer logic_error path are modelled as traps and proved unreachable)',
    'initial line and column are >= 1 (asserted by the inputerator constructor); initial counters range over [0, 1000] (quick) / [0, 2^40] (thorough)',
    'buffer_input counters are not encoded here (same internal::bump* functions; buffer_input is the subject of C07); UTF-16/32 and multi-byte binary rules excluded as documented',
    'raw_string (bump_in_this_line over its brackets, eol after the opening bracket) is not encoded here: over 300 s per policy already at 4 bytes, where no line ending fits inside a match; '
    'contrib/http.hpp chunk helper (bump_in_this_line over hex digits) needs parser state and is not encoded',
    'parse-tree nodes: node::start/success/begin/end are called directly as parse_tree::parse calls them; the tree builder itself (state stack, transformers) is the subject of C12',
    'parse_error construction (message formatting) is replaced by a control whose raise() throws the in.position() triple that parse_error( msg, in ) would store',
]

POLICIES = [('lf', '\\n'), ('cr', '\\r'), ('crlf', '\\n'), ('lf_crlf', '\\n'), ('cr_crlf', '\\r')]

# D12 predicates (known finding: under eol::cr_crlf the eol rule consumes "\r\n" with bump_to_next_line( 2 ))
D12_AT_S = "(c06_s + 2 <= c06_n && c06_buf[c06_s] == '\\r' && c06_buf[c06_s + 1] == '\\n')"
D12_FIRST_CR = "c06_first_cr_is_crlf()"
H_FIRST_CR = r'''static int c06_first_cr_is_crlf(void) { /* the first CR at or behind the start is immediately followed by LF */
  int st = 0; for (u64 i = 0; i < C06_N; ++i) { if (i < c06_s || i >= c06_n || st) continue; if (c06_buf[i] == '\r') st = (i + 1 < c06_n && c06_buf[i + 1] == '\n') ? 2 : 1; }
  return st == 2; }'''
H_REP = r'''static int c06_rep_hits_crlf(void) { /* rep< 2, sor< eol, one< 'a', '\n' > > > under cr_crlf: one of the iterations matches eol on CR LF (a failing second
  iteration still shows the position behind the first one to Control::failure before the rule is rewound) */
  u64 p = c06_s; int hit = 0;
  for (int k = 0; k < 2; ++k) { if (p >= c06_n) break;
    if (c06_buf[p] == '\r') { if (p + 1 < c06_n && c06_buf[p + 1] == '\n') { hit = 1; p += 2; } else p += 1; }
    else if (c06_buf[p] == 'a' || c06_buf[p] == '\n') p += 1; else break; }
  return hit; }'''
U8 = 'ab\\n\\r\\xc3\\xa4\\xe2\\x82\\xac'

# name, rule, bytes among "\n\r" the rule itself can consume, options
CASES = [
    dict(name='any', deep=1, cxx='any', eats='\n\r', quick=1),
    dict(name='bytes2', cxx='bytes< 2 >', eats='\n\r', quick=1),
    dict(name='bump_only', cxx='success', eats='', can_fail=0, consumes=0, quick=1),
    dict(name='one_a', cxx="one< 'a' >", eats='', quick=1),
    dict(name='one_lf', cxx="one< '\\n' >", eats='\n'),
    dict(name='one_mix', deep=1, cxx="one< 'a', '\\r', '\\n' >", eats='\n\r', quick=1),
    dict(name='not_one_a', cxx="not_one< 'a' >", eats='\n\r', quick=1),
    dict(name='not_one_lf', cxx="not_one< '\\n' >", eats='\r', quick=1),
    dict(name='not_one_eols', cxx="not_one< '\\r', '\\n' >", eats=''),
    dict(name='range_az', cxx="range< 'a', 'z' >", eats=''),
    dict(name='range_ctl', cxx="range< '\\t', '\\r' >", eats='\n\r', quick=1),
    dict(name='not_range', cxx="not_range< 'a', 'z' >", eats='\n\r', quick=1),
    dict(name='ranges_lf', cxx="ranges< 'a', 'z', '\\n' >", eats='\n', quick=1),
    dict(name='ranges_even', cxx="ranges< 'a', 'z', '\\t', '\\r' >", eats='\n\r', quick=1),   # even argument count, both line-counting characters in the LAST pair
    dict(name='ranges_ctl', cxx="ranges< '\\t', '\\n', 'a', 'z', '\\r' >", eats='\n\r'),
    dict(name='string_ab', cxx="string< 'a', 'b' >", eats=''),
    dict(name='string_alfb', cxx="string< 'a', '\\n', 'b' >", eats='\n', quick=1),
    dict(name='string_crlf', cxx="string< '\\r', '\\n' >", eats='\n\r', quick=1),
    dict(name='istring_acrb', cxx="istring< 'a', '\\r', 'B' >", eats='\r', quick=1),
    dict(name='istring_ab', cxx="istring< 'a', 'b' >", eats=''),
    dict(name='space', cxx='space', eats='\n\r'),
    dict(name='identifier', cxx='identifier', eats='', alphabet='ab_1\\n\\r'),
    dict(name='utf8_any', cxx='utf8::any', eats='\n\r', alphabet=U8, quick=1),
    dict(name='utf8_one', cxx='utf8::one< 0xe4, 0x20ac >', eats='', alphabet=U8, quick=1),
    dict(name='utf8_one_lf', cxx="utf8::one< '\\n', 0x20ac >", eats='\n', alphabet=U8),
    dict(name='utf8_not_one', cxx="utf8::not_one< 'a' >", eats='\n\r', alphabet=U8),
    dict(name='utf8_range', cxx='utf8::range< 0x80, 0x10ffff >', eats='', alphabet=U8, quick=1),
    dict(name='utf8_ranges', cxx='utf8::ranges< 0x9, 0xd, 0x80, 0x7ff >', eats='\n\r', alphabet=U8),
    dict(name='utf8_string', cxx="utf8::string< 0xe4, '\\n' >", eats='\n', alphabet=U8),
    dict(name='eol', allpol=1, deep=1, cxx='eol', eats='\n\r', d12=D12_AT_S, quick=1),
    dict(name='eolf', allpol=1, deep=1, cxx='eolf', eats='\n\r', d12=D12_AT_S, quick=1),
    dict(name='until_eol', allpol=1, cxx='until< eol >', eats='\n\r', d12=D12_FIRST_CR, helpers=H_FIRST_CR, quick=1),
    dict(name='until_eol_any', cxx='until< eol, any >', eats='\n\r', d12=D12_FIRST_CR, helpers=H_FIRST_CR),
    dict(name='rep_one_lf', cxx="rep_one_min_max< 1, 3, '\\n' >", eats='\n', includes=['tao/pegtl/contrib/rep_one_min_max.hpp'], quick=1),
    dict(name='rep_one_a', cxx="rep_one_min_max< 0, 2, 'a' >", eats='', can_fail=1, includes=['tao/pegtl/contrib/rep_one_min_max.hpp']),
    dict(name='unsigned', cxx='unsigned_rule', eats='', includes=['tao/pegtl/contrib/integer.hpp'], alphabet='0129a\\n\\r', quick=1),
    # grammars: backtracking over line endings, global failure behind a line ending, repetition
    dict(name='g_backtrack', cxx="sor< seq< any, eol, one< 'x' > >, seq< any, any > >", eats='\n\r', alphabet='ax\\n\\r', quick=1,
         d12="(c06_s + 4 <= c06_n && c06_buf[c06_s + 1] == '\\r' && c06_buf[c06_s + 2] == '\\n' && c06_buf[c06_s + 3] == 'x')"),
    dict(name='g_raise', cxx='seq< until< eol >, must< eof > >', eats='\n\r', can_raise=1, d12=D12_FIRST_CR, helpers=H_FIRST_CR, quick=1),
    dict(name='g_rep', cxx="rep< 2, sor< eol, one< 'a', '\\n' > > >", eats='\n\r', d12='c06_rep_hits_crlf()', helpers=H_REP, alphabet='ab\\n\\r'),
    # positions observed INSIDE the re-match rules of rematch<> (they run on a sub-input): a raise in the second re-match rule
    dict(name='g_rematch_raise', cxx="rematch< seq< any, any >, any, seq< any, must< one< 'x' > > > >", eats='\n\r', can_raise=1, alphabet='ax\\n\\r', quick=1, start0=1),
    # rewind_mode::optional: a local failure may leave the cursor moved; the position must still be the one of that cursor
    dict(name='g_optional', cxx="seq< sor< eol, any >, one< 'b' > >", eats='\n\r', d12=D12_AT_S, alphabet='ab\\n\\r', mode='optional', quick=1),
    # positions stored in parse-tree nodes (node::start/success as called by parse_tree::parse, then node.begin()/end())
    dict(name='tree', cxx='sor< eol, any >', eats='\n\r', d12=D12_AT_S, tree=1, quick=1),
]

WRAP_TREE = '''// generated wrapper TU (C06, parse-tree nodes): %(cxx)s under the five end-of-line policies, eager and lazy
#include "c06_tree.hpp"
%(includes)s
using namespace tao::pegtl;
C06_TREE( w_%(name)s, %(cxx)s )
'''

WRAP = '''// generated wrapper TU (C06): %(cxx)s under the five end-of-line policies, eager and lazy
#include "c06_common.hpp"
%(includes)s
using namespace tao::pegtl;
C06_WRAP( w_%(name)s, %(mode)s, %(cxx)s )
'''

HARNESS = '''/* generated harness (C06): %(cxx)s */
#define VF_ALPHABET "%(alphabet)s"
#define C06_N %(N)d
#define C06_CMAX %(cmax)s
#define C06_NAME w_%(name)s
#define C06_EATS(ch) (%(eats)s)
#define C06_CAN_MATCH %(can_match)d
#define C06_CAN_FAIL %(can_fail)d
#define C06_CAN_RAISE %(can_raise)d
#define C06_MODE_OPTIONAL %(optional)d
#define C06_D12 %(d12)s
#include "c06_harness.h"
'''


def c_char(ch):
    return {'\n': "'\\n'", '\r': "'\\r'"}[ch]


def plan(ctx):
    qs = []
    N = 4 if ctx.quick() else 5
    CMAX = '1000' if ctx.quick() else '(1ULL << 40)'
    for c in CASES:
        if ctx.quick() and not c.get('quick'):
            continue
        n = min(N + (0 if ctx.quick() else c.get('deep', 0)), c.get('nmax', N))
        mode = c.get('mode', 'required')
        unit = ctx.unit('c06_' + c['name'], text=(WRAP_TREE if c.get('tree') else WRAP) % {'cxx': c['cxx'], 'name': c['name'], 'mode': mode,
                                                        'includes': '\n'.join('#include <%s>' % i for i in c.get('includes', []))})
        eats = ' || '.join('(ch) == %s' % c_char(x) for x in c['eats']) or '0'
        text = HARNESS % {'cxx': c['cxx'], 'alphabet': c.get('alphabet', 'ab\\n\\r'), 'N': n, 'name': c['name'], 'eats': eats,
                          'can_match': 1 if c.get('consumes', 1) else 0, 'can_fail': c.get('can_fail', 1), 'can_raise': c.get('can_raise', 0),
                          'optional': 1 if mode == 'optional' else 0, 'd12': c.get('d12', '0'), 'cmax': CMAX}
        if c.get('tree'):
            text = text.replace('#include "c06_harness.h"', '#define C06_TREE_MODE 1\n#include "c06_harness.h"')
        if c.get('start0'):
            text = text.replace('#include "c06_harness.h"', '#define C06_START0 1\n#include "c06_harness.h"')
        if c.get('helpers'):
            # predicates of the known-finding cases: need the globals of c06_harness.h, which includes this file in front of harness()
            ctx.write('c06_helpers_%s.h' % c['name'], c['helpers'] + '\n')
            text = text.replace('#include "c06_harness.h"', '#define C06_HELPERS "c06_helpers_%s.h"\n#include "c06_harness.h"' % c['name'])
        h = ctx.write('c06_%s.c' % c['name'], text)
        for pol, ch in POLICIES:
            if ctx.quick() and not c.get('allpol') and pol not in ('lf_crlf', 'cr_crlf'):
                # quick tier: only eol, eolf and until< eol > (the policy-specific eol_match code) run under all five policies; every other
                # rule sees just Eol::ch, one policy per line-counting character ('\n': lf_crlf, '\r': cr_crlf); the thorough tier runs all five
                continue
            cd = {'VF_SPLIT': 1, 'V_' + pol: 1}
            bounds = {'bytes': n, 'rule': c['cxx'], 'policy': 'eol::' + pol, 'tracking': ['eager', 'lazy'], 'rewind_mode': mode,
                      'initial_counters': 'symbolic byte in [0,%s], line/column in [1,%s]' % (CMAX, CMAX), 'start': 'symbolic bump(s), s <= n'}
            kw = dict(unwind=n + 2 + c.get('loops', 0), cbmc_defines=cd, mem_gb=3 if c.get('heavy') else 2, bounds=bounds)
            known = ['C06_LAZYTREE'] if c.get('tree') else ['C06_LAZYBYTE']
            base = list(known)
            d12 = pol == 'cr_crlf' and c.get('d12')
            if d12:
                known.append('D12')
            qs.append(vf.Query('%s/%s' % (c['name'], pol), unit, h, known=known,
                               note='real %s under eol::%s, eager and lazy, every observable position vs recount of the consumed prefix' % (c['cxx'], pol), **kw))
            if d12:
                qs.append(vf.Query('known/D12/%s' % c['name'], unit, h, expect_fail='D12', known=base,
                                   note='confirmation of D12: %s under eol::cr_crlf when the eol rule matches CR LF' % c['cxx'], **kw))
            if c.get('tree') and pol == 'lf_crlf':
                qs.append(vf.Query('known/C06_LAZYTREE/%s' % pol, unit, h, expect_fail='C06_LAZYTREE',
                                   note='confirmation: parse-tree nodes built from a lazy input report byte 0, line 1, column 1', **kw))
    # the lazy input's byte() with a non-zero initial byte (independent of the rule)
    for c in CASES:
        if c['name'] == 'any':
            unit = ctx.units['c06_any']
            h = ctx.path('c06_any.c')
            qs.append(vf.Query('known/C06_LAZYBYTE/any/lf_crlf', unit, h, expect_fail='C06_LAZYBYTE', unwind=N + 2, cbmc_defines={'VF_SPLIT': 1, 'V_lf_crlf': 1},
                               bounds={'bytes': N, 'rule': 'any', 'policy': 'eol::lf_crlf'},
                               note='confirmation: lazy memory_input::byte() ignores a non-zero initial byte'))
    return qs
