"""C18 — depth and byte limits are enforced exactly and leave no residue."""
import os
import vf

LEVEL_TEXT = ('bounded symbolic model checking: the real limit_depth<N> / input_with_depth guard on a recursive rule and the real limit_bytes<N> guard on a rule '
              'that starts at an arbitrary offset are run over symbolic sub-rules that report the nesting depth and the input end they observe and may fail, '
              'succeed or throw; CBMC compares results and the complete observation log with the reference (depth = number of guarded levels entered, deeper '
              'than N => error raised where the attempt starts, window = min(N, remaining) bytes from the start of the guarded match) and proves counter and '
              'input end restored after success, local failure and exceptions')


def plan(ctx):
    qs = []
    cpp = os.path.join(vf.VERIF, 'harness', 'c18.cpp')
    h = os.path.join(vf.VERIF, 'harness', 'c18.c')
    N = 3 if ctx.quick() else 4
    lims = (2,) if ctx.quick() else (1, 2, 3)
    for lim in lims:
        unit = ctx.unit('c18_lim%d' % lim, cpp=cpp, cxxflags=['-DLIM=%d' % lim])
        for kind in ('DEPTH', 'BYTES'):
            for m in ('ar', 'ao', 'nr'):
                d = {'SP_N': N, 'LIM': lim}
                if kind == 'DEPTH':
                    d['DEPTH'] = 1
                qs.append(vf.Query('%s/lim%d/%s' % (kind.lower(), lim, m), unit, h, defines=d, cbmc_defines={'VF_SPLIT': 1, 'V_' + m: 1}, unwind=max(N, lim) + 4,
                                   unwindset=['setup.0:%d' % (N + 2), 'setup.1:%d' % (N + 2), 'setup.2:4', 'compare_logs.0:25', 'harness.0:%d' % (N + 2), 'harness.1:%d' % (N + 2)],
                                   mem_gb=3, bounds={'N': N, 'limit': lim, 'mode': m},
                                   note='limit_%s<%d> over symbolic sub-rules' % (kind.lower(), lim)))
    # one guarded step from an arbitrary pre-state: any number of levels already entered, limits that do not fit 16 bits
    for big in ((70000,) if ctx.quick() else (65535, 70000, 4294967296)):
        unit = ctx.unit('c18_big%d' % big, cpp=cpp, cxxflags=['-DLIM=2', '-DBIG=%d' % big])
        qs.append(vf.Query('depth_step/big%d' % big, unit, h, defines={'SP_N': N, 'LIM': 2, 'STEP': 1, 'BIG': big}, unwind=N + 4,
                           unwindset=['setup.0:%d' % (N + 2), 'setup.1:%d' % (N + 2), 'setup.2:4'], mem_gb=3, bounds={'N': N, 'limit': big, 'entered_levels': 'any value below 2^64 - 1'},
                           note='limit_depth<%d>: one guarded level entered from an arbitrary depth counter' % big))
    return qs
