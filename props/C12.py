"""C12 — the parse tree is exactly the surviving derivation of the selected rules."""
import os
import vf
import pegspec
import treegen

LEVEL_TEXT = ('bounded symbolic equivalence of trees: the real parse_tree::parse<> (internal::state, make_control::state_handler start/success/failure/unwind, '
              'is_leaf/selector machinery, basic_node, the transformers store_content/remove_content/fold_one/discard_empty) is run by CBMC on small grammars of '
              'named rules over symbolic sub-rules (arbitrary success/failure/consumption/exception behaviour per position); the returned tree is reported '
              'position by position and compared with the node list of a generated PEG reference that records, in pre-order, every successful match of a '
              'selected rule and drops everything recorded inside a rule that fails or is left by an exception; result, cursor and exception are also compared '
              'with the plain parse of the same grammar; whole-run claim for the corpus grammars by the frame argument of DESIGN.md (C12) on top of C08')

ASSUMPTIONS = [
    'std::vector (children, builder stack) is the array-backed stand-in lib/stubstd/vector (typed slots of std::unique_ptr, fixed capacity; the query proves '
    'the capacity is never exceeded within its bounds); std::unique_ptr, basic_node, internal::state, make_control and the selectors are the real code',
    'node deallocation is cut in the translated build: the harness node class (derived from parse_tree::basic_node, documented custom-node interface) carries a '
    'std::default_delete specialisation that releases nothing, because the recursive ~node -> ~vector -> ~unique_ptr chain unfolds to capacity^depth copies at '
    'every pop_back in a bounded model checker (measured: no verdict in 600 s / 20 GB); freeing popped subtrees is exercised by the g++/ASan build on every '
    'translation-validation input (20 000 per query) and on every replay, with the real deleter',
    'node identity is an integer recorded by the custom node\'s start<Rule>() next to the real basic_node::start<Rule>(); the type member is checked by address '
    'and length against demangle<Rule>() (first disjunct of is_type<>()), the memcmp fallback of is_type<>() is not exercised',
    'inputs of at most N bytes, at most C12_MAXN nodes alive in the reference at any time, at most C12_MAXCH children per node and C12_MAXD levels '
    '(assumed on the reference before the real run; the witnesses show the bounds leave trees of the advertised shapes); repetitions and recursive rules '
    'that make no progress (the real parse does not terminate) are excluded',
    'matches made inside at<> are look-ahead: their nodes are part of the tree (as the property says) but need not lie inside their parent nor before their '
    'later siblings by position; for grammars with at<> the positional containment/ordering checks are replaced by the comparison with the reference order',
    'parse_tree::parse fixes apply_mode::action and rewind_mode::optional; parse_tree_to_dot and nodes over a std::string source are not covered',
    'grammars are built from seq, sor, star, opt, at, not_at, must, try_catch_type_return_false, plus, until, if_then_else, a directly recursive rule and named/leaf rules; the other '
    'combinators (rep*, list, rematch, ...) reach the tree builder through the same Control< Rule >::match frames (C08) and are not run here',
    'translation options for these units: ll2c --inline-gep (address computations written out at their use) and --typed-new (operator new of a node allocates '
    'a typed object); like every translation they are validated per query against the g++ build on 20 000 inputs',
]

S0, S1, S2 = 'sym<0>', 'sym<1>', 'sym<2>'
N0 = lambda body: 'named< 0, %s >' % body
N1 = 'named< 1, %s >' % S0
N2 = 'named< 2, %s >' % S2
ALL = {100: 'store', 101: 'store', 102: 'store', 103: 'store'}

# conditions on the behaviour tables for the witnesses
OK0 = 'T_res[0][sp_start] == 1'                       # sym<0> matches at the start
Q0 = 'T_np[0][sp_start]'                              # ... up to here

# name, grammar, {selector tag: selector}, options
#   cap   capacity of the stand-in vector (>= builder stack depth, >= children per node; the query proves it suffices)
#   maxch / maxd / maxn   children per node, levels, nodes alive in the reference
#   stack  selector tags for which the builder stack is inspected as well (separate query)
GRAMMARS = [
    ('seq', N0('%s, %s' % (N1, N2)),
     {'all': ALL, 'subset': {100: 'store', 102: 'store'}, 'remove': {100: 'remove', 101: 'store', 102: 'remove'}, 'discard': {100: 'discard', 101: 'discard', 102: 'store'}},
     {'cap': 3, 'maxch': 2, 'maxd': 2, 'maxn': 4, 'stack': ['all'],
      'reach': [('e.r == 1 && ts_n >= 2', 'tree with several nodes'), ('e.r == 0', 'no tree'), ('e.r == 3', 'foreign exception aborts the run')]}),
    ('nested', N0('named< 1, named< 2, %s >, %s >, %s' % (S0, S1, S2)),
     {'all': ALL, 'middle_out': {100: 'store', 102: 'store'}, 'fold': {100: 'store', 101: 'fold', 102: 'store'}, 'discard': {100: 'discard', 101: 'discard', 102: 'store'}},
     {'cap': 4, 'maxch': 2, 'maxd': 3, 'maxn': 4,
      'reach': [('e.r == 1 && ts_n >= 2 && ts_d[ts_n - 1] >= 1', 'nested nodes'), ('e.r == 0 && %s' % OK0, 'inner rule matched, outer rule failed: no tree')]}),
    ('backtrack', 'sor< seq< %s, %s >, %s >' % (N1, S1, N2),
     {'all': ALL, 'second_only': {102: 'store'}},
     {'cap': 4, 'maxch': 2, 'maxd': 1, 'maxn': 3, 'stack': ['all'],
      'reach': [('e.r == 1 && %s && T_res[1][%s] == 0' % (OK0, Q0), 'first alternative backtracked after its named rule matched, second alternative builds the tree'),
                ('e.r == 1 && %s && T_res[1][%s] == 1' % (OK0, Q0), 'first alternative kept')]}),
    ('star', N0('star< %s >, %s' % (N1, S1)),
     {'all': ALL, 'fold': {100: 'fold', 101: 'store'}, 'discard': {100: 'discard', 101: 'store'}, 'remove': {100: 'store', 101: 'remove'}},
     {'cap': 4, 'maxch': 3, 'maxd': 2, 'maxn': 5, 'thorough': {'cap': 6, 'maxch': 5, 'maxn': 7},
      'reach': [('e.r == 1 && ts_n >= 3', 'several sibling nodes'), ('e.r == 1 && ts_n <= 1', 'repetition matched nothing')]}),
    ('at', N0('at< %s >, %s' % (N1, N1)),
     {'all': ALL, 'inner_only': {101: 'store'}},
     {'cap': 4, 'maxch': 2, 'maxd': 2, 'maxn': 4, 'lookahead': True,
      'reach': [('e.r == 1 && ts_n >= 2 && ts_id[ts_n - 1] == 101 && ts_id[ts_n - 2] == 101', 'node of the look-ahead match and node of the real match'), ('e.r == 0', 'no tree')]}),
    ('not_at', N0('not_at< %s, %s >, %s' % (N1, S1, N2)),
     {'all': ALL},
     {'cap': 5, 'maxch': 2, 'maxd': 2, 'maxn': 4,
      'reach': [('e.r == 1 && %s' % OK0, 'named rule matched inside a not_at<> that succeeded: its node is gone'), ('e.r == 0 && %s' % OK0, 'not_at<> failed')]}),
    ('opt', N0('opt< %s, %s >, %s' % (N1, S1, N2)),
     {'all': ALL, 'fold': {100: 'fold', 101: 'store', 102: 'store'}},
     {'cap': 5, 'maxch': 2, 'maxd': 2, 'maxn': 4,
      'reach': [('e.r == 1 && %s && T_res[1][%s] == 0' % (OK0, Q0), 'optional part abandoned after its named rule matched'), ('e.r == 1 && ts_n == 3', 'optional part kept')]}),
    ('must', N0('%s, must< %s >' % (N1, N2)),
     {'all': ALL},
     {'cap': 4, 'maxch': 2, 'maxd': 2, 'maxn': 4, 'stack': ['all'],
      'reach': [('e.r == 2 && e.id == 102', 'must<> raises after a node was built'), ('e.r == 1 && ts_n == 3', 'tree with three nodes')]}),
    ('trycatch', 'sor< try_catch_type_return_false< verif_exc, named< 1, %s, must< %s > > >, %s >' % (S0, S1, N2),
     {'all': ALL},
     {'cap': 4, 'maxch': 2, 'maxd': 1, 'maxn': 3, 'stack': ['all'],
      'reach': [('e.r == 1 && %s && T_res[1][%s] == 0 && ts_id[0] == 102' % (OK0, Q0), 'exception-aborted branch left no node, the alternative builds the tree'),
                ('e.r == 1 && ts_id[0] == 101', 'guarded branch kept'), ('e.r == 3', 'foreign exception passes the guard')]}),
    ('trycatch_seq', 'sor< try_catch_type_return_false< verif_exc, seq< %s, must< %s > > >, %s >' % (N1, S1, N2),
     {'all': ALL},
     {'cap': 5, 'maxch': 2, 'maxd': 1, 'maxn': 3,
      'reach': [('e.r == 1 && %s && T_res[1][%s] == 0 && ts_id[0] == 102' % (OK0, Q0), 'exception passed an unselected frame that held a finished node, the alternative builds the tree'),
                ('e.r == 1 && ts_id[0] == 101', 'guarded branch kept')]}),
    ('leaf', N0('%s, named< 3, %s, opt< %s > >, %s' % (N1, S1, S1, N2)),
     {'leaf_out': {100: 'store', 101: 'store', 102: 'store'}},
     {'cap': 3, 'maxch': 2, 'maxd': 2, 'maxn': 4,
      'reach': [('e.r == 1 && ts_n == 3', 'unselected leaf subtree between two nodes'), ('e.r == 0 && %s' % OK0, 'no tree')]}),
    ('recursive', 'R',
     {'all': {150: 'store'}, 'fold': {150: 'fold'}},
     {'cap': 7, 'maxch': 1, 'maxd': 3, 'maxn': 4, 'N': 2, 'K': 2, 'defs': {'R': (150, 'sor< seq< sym<0>, R >, sym<1> >')}, 'maxrec': 3, 'mem_gb': 6,
      'thorough': {'N': 3, 'maxrec': 4, 'cap': 9, 'maxd': 4, 'maxn': 5},
      'reach': [('e.r == 0', 'no tree')],
      'reach_tag': {'all': [('e.r == 1 && ts_n == 3', 'recursive rule nested three levels')],
                    'fold': [('e.r == 1 && ts_n == 1 && T_res[0][sp_start] == 1 && T_res[0][T_np[0][sp_start]] == 1', 'three nested matches of the recursive rule folded into one node')]}}),
    ('default', 'sor< seq< %s, %s >, %s >' % (S0, S1, S2),
     {'store_all': 'all'},
     {'cap': 4, 'maxch': 2, 'maxd': 3, 'maxn': 5,
      'reach': [('e.r == 1 && ts_n == 4', 'complete tree: sor, seq and both sub-rules'), ('e.r == 1 && ts_n == 2 && %s' % OK0, 'nodes of the backtracked sequence dropped')]}),
    ('veto', N0('%s, %s' % (N1, N2)),
     {'all': ALL},
     {'cap': 3, 'maxch': 2, 'maxd': 2, 'maxn': 4, 'action': 'bool',
      'reach': [('e.r == 0 && %s && c12_veto(101, sp_start) == 0' % OK0, 'action vetoes a rule that matched: no node, no tree'), ('e.r == 1 && ts_n == 3', 'tree with three nodes'),
                ('e.r == 3 && e.id >= 3000', 'action throws')]}),
    ('veto_sor', 'named< 0, sor< named< 1, %s >, %s >, %s >' % (S0, N2, S1),
     {'all': ALL, 'inner_only': {101: 'store', 102: 'store'}},
     {'cap': 4, 'maxch': 2, 'maxd': 2, 'maxn': 4, 'action': 'bool',
      'reach': [('e.r == 1 && %s && c12_veto(101, sp_start) == 0' % OK0, 'the action vetoes a rule that matched, the enclosing choice goes on and succeeds: no node of the vetoed rule'),
                ('e.r == 1 && ts_n >= 1 && ts_id[ts_n - 1] == 101', 'first alternative kept')]}),
    ('trycatch_act', 'sor< try_catch_type_return_false< foreign_exc, named< 1, %s > >, %s >' % (S0, N2),
     {'all': ALL},
     {'cap': 4, 'maxch': 2, 'maxd': 1, 'maxn': 3, 'action': 'bool', 'maxres': 1, 'stack': ['all'],
      'reach': [('e.r == 1 && %s && c12_veto(101, sp_start) == 2 && ts_id[0] == 102' % OK0, "the rule's own action throws, the guard catches: no node of that rule is left"),
                ('e.r == 1 && ts_id[0] == 101', 'guarded branch kept')]}),
    ('trycatch_act0', 'sor< try_catch_type_return_false< foreign_exc, named< 1, %s > >, %s >' % (S0, N2),
     {'all': ALL},
     {'cap': 4, 'maxch': 2, 'maxd': 1, 'maxn': 3, 'action': 'void0', 'maxres': 1, 'stack': ['all'],
      'reach': [('e.r == 1 && %s && c12_veto(101, 0) == 2 && ts_id[0] == 102' % OK0, "the rule's own void apply0 throws, the guard catches: no node of that rule is left"),
                ('e.r == 1 && ts_id[0] == 101', 'guarded branch kept')]}),
    ('plus', N0('plus< %s >, %s' % (N1, S1)),
     {'all': ALL, 'fold': {100: 'fold', 101: 'store'}},
     {'cap': 4, 'maxch': 3, 'maxd': 2, 'maxn': 5,
      'reach': [('e.r == 1 && ts_n >= 3', 'several sibling nodes'), ('e.r == 0 && %s' % OK0, 'nodes built, then the rule fails: no tree')]}),
    ('until', N0('until< %s, %s >' % (N2, N1)),
     {'all': ALL},
     {'cap': 4, 'maxch': 3, 'maxd': 2, 'maxn': 5,
      'reach': [('e.r == 1 && ts_n >= 3', 'body nodes followed by the terminating node'), ('e.r == 0 && %s' % OK0, 'body matched, then the loop fails: no tree')]}),
    ('ite', N0('if_then_else< %s, %s, named< 3, %s > >' % (N1, N2, S1)),
     {'all': ALL, 'else_only': {100: 'store', 103: 'store'}},
     {'cap': 4, 'maxch': 2, 'maxd': 2, 'maxn': 4,
      'reach': [('e.r == 1 && ts_n == 2 && ts_id[1] == 103', 'else-branch: the node of the condition that matched nothing is not there'), ('e.r == 0', 'no tree')],
      'reach_tag': {'all': [('e.r == 1 && ts_n == 3', 'condition and then-branch')], 'else_only': [('e.r == 1 && ts_n == 1 && %s' % OK0, 'then-branch taken, nothing selected in it')]}}),
    # rules that have exactly one sub-rule and can fail after that sub-rule built a node (not_at<R>, rep<2,R>), not selected, directly under opt/sor
    ('wrap_not_at', N0('opt< not_at< %s > >, %s, %s' % (N1, N1, N2)),
     {'all': ALL, 'outer_out': {101: 'store', 102: 'store'}},
     {'cap': 5, 'maxch': 2, 'maxd': 2, 'maxn': 4,
      'reach': [('e.r == 1 && %s' % OK0, 'not_at<> failed because its rule matched (node dropped), the same rule then matches for real')]}),
    ('wrap_rep', 'sor< rep< 2, %s >, seq< %s, %s > >' % (N1, N1, N2),
     {'all': ALL},
     {'cap': 5, 'maxch': 2, 'maxd': 1, 'maxn': 3,
      'reach': [('e.r == 1 && %s && ts_id[ts_n - 1] == 102' % OK0, 'rep<2,R> failed after one match of R, the alternative builds the tree'), ('e.r == 1 && ts_n == 2 && ts_id[1] == 101', 'rep<2,R> kept')]}),
    # a control that raises from failure() (must_if<>): the selected rule's frame must be gone before the exception leaves
    ('mustif', 'sor< try_catch_type_return_false< verif_exc, named< 0, %s, named< 1, %s > > >, %s >' % (S0, S2, N2),
     {'all': ALL},
     {'cap': 5, 'maxch': 2, 'maxd': 2, 'maxn': 4, 'control': 'mustif', 'stack': ['all'],
      'spec': 'sor< try_catch_type_return_false< verif_exc, named< 0, %s, must< named< 1, %s > > > >, %s >' % (S0, S2, N2),
      'reach': [('e.r == 1 && %s && ts_n == 1 && ts_id[0] == 102' % OK0, "the selected rule's failure is turned into a global failure by the control, caught in the grammar, the alternative builds the tree"),
                ('e.r == 1 && ts_n == 2 && ts_id[0] == 100', 'guarded branch kept')]}),
    # a user state handed to parse_tree::parse( in, st ): transformers (fold_one) and the builder's unwind() are selected by SFINAE on the state list
    ('userstate_fold', N0('named< 1, named< 2, %s >, %s >, %s' % (S0, S1, S2)),
     {'fold': {100: 'store', 101: 'fold', 102: 'store'}},
     {'cap': 4, 'maxch': 2, 'maxd': 3, 'maxn': 4, 'control': 'userstate',
      'reach': [('e.r == 1 && ts_n >= 2', 'tree with a folded node')]}),
    ('userstate_trycatch', 'sor< try_catch_type_return_false< verif_exc, seq< %s, must< %s > > >, %s >' % (N1, S1, N2),
     {'all': ALL},
     {'cap': 5, 'maxch': 2, 'maxd': 1, 'maxn': 3, 'control': 'userstate', 'stack': ['all'],
      'reach': [('e.r == 1 && %s && T_res[1][%s] == 0 && ts_id[0] == 102' % (OK0, Q0), 'exception passed an unselected frame that held a finished node, the alternative builds the tree'),
                ('e.r == 1 && ts_id[0] == 101', 'guarded branch kept')]}),
    ('deep', 'sor< seq< ' + 'seq< ' * 9 + N1 + ' >' * 9 + ', %s >, %s >' % (S1, N2),
     {'all': ALL},
     {'cap': 13, 'maxch': 2, 'maxd': 1, 'maxn': 3, 'mem_gb': 8, 'N': 2, 'maxres': 1, 'thorough': {'N': 2},
      'reach': [('e.r == 1 && %s && T_res[1][%s] == 0' % (OK0, Q0), 'selected rule ten levels below the backtracking point dropped'), ('e.r == 1 && ts_id[0] == 101', 'kept')]}),
]


def plan(ctx):
    doc = pegspec.Doc(os.path.join(vf.REPO, 'doc', 'Rule-Reference.md'))
    stub = os.path.join(vf.LIB, 'stubstd')
    only = os.environ.get('C12_GRAMMARS')
    qs = []
    for (gname, gtext, sels, opts) in GRAMMARS:
        if only and gname not in only.split(','):
            continue
        if ctx.quick() and opts.get('thorough_only'):
            continue
        for tag, sel in sels.items():
            o = dict(opts)
            if not ctx.quick():
                o['N'] = o.get('N', 3) + 2
                o.update(opts.get('thorough', {}))
            n = o.get('N', 3)
            K = o.get('K', 3)
            cap, maxch, maxd, maxn = o['cap'], o['maxch'], o['maxd'], o['maxn']
            action = o.get('action')
            defs = o.get('defs')
            htext, gen = treegen.harness_text(o.get('spec', gtext), sel, doc, n, K, maxch, maxd, maxn, defs=defs, maxrec=o.get('maxrec', 3), maxres=o.get('maxres', 3),
                                              action=action, reach=o.get('reach', []) + o.get('reach_tag', {}).get(tag, []), lookahead=o.get('lookahead', False))
            if sel == 'all':
                wtext = treegen.wrapper_text_all(gtext, gen, maxch, maxd)
            else:
                wtext = treegen.wrapper_text(gtext, sel, defs, maxch, maxd, action=action, control=o.get('control'))
            unit = ctx.unit('c12_%s_%s' % (gname, tag), text=wtext, cxxflags=['-I', stub, '-DVSTUB_CAP=%d' % cap], ll2c=['--inline-gep', '--typed-new'])
            h = ctx.write('h_%s_%s.c' % (gname, tag), htext)
            total = sum(maxch ** (k + 1) for k in range(maxd))
            big = total + 10
            rec = []
            if defs:
                # recursive grammar rule: the recursion of match< R, ... > is unfolded maxrec times (the reference excludes deeper nesting,
                # the recursion unwinding assertion proves that the real run does not nest deeper either); the uniform --unwind bound would
                # unfold it as often as the longest container loop.  The mangled name is read from the translated unit.
                try:
                    b = vf.build_unit(ctx, unit)
                    for name in defs:
                        pre = '_ZN3tao5pegtl5matchI%d%sL' % (len(name), name)
                        rec += ['%s:%d' % (f, o.get('maxrec', 3)) for f in b['defined'] if f.startswith(pre)]
                except vf.Inconclusive:
                    pass      # reported by the query itself
            for mode in ['tree'] + (['stack'] if tag in o.get('stack', []) else []):
                qs.append(vf.Query('%s/%s/%s' % (gname, tag, mode), unit, h, unwind=max(n + 3, cap + 2, maxn + 2, maxch + 2, maxd + 3), mem_gb=o.get('mem_gb', 4),
                                   unwindset=['c12_setup.1:9', 'c12_clear.0:%d' % big, 'c12_obs.0:%d' % big, 'c12_structure.0:%d' % big] + rec,
                                   cbmc_defines={'VF_SPLIT': 1, 'V_' + mode: 1},
                                   bounds={'N': n, 'K': K, 'grammar': gtext, 'selector': sel if sel == 'all' else {str(k): v for k, v in sel.items()},
                                           'vector_capacity': cap, 'max_children': maxch, 'max_depth': maxd, 'max_nodes': maxn, 'checked': mode,
                                           'action': {'bool': 'vf::act_bool (veto / throw)', 'void0': 'vf::act0_void (throw)'}.get(action, 'nothing'),
                                           'control': {'mustif': 'must_if< errors, vcontrol >::control (rule 101 raises from failure())', 'userstate': 'vcontrol, one user state passed to parse_tree::parse'}.get(o.get('control'), 'vcontrol'),
                                           'mode': 'apply_mode::action, rewind_mode::optional (fixed by parse_tree::parse)'},
                                   note='tree returned by the real parse_tree::parse == surviving derivation of the selected rules; result == plain parse'
                                        if mode == 'tree' else 'builder stack after the run: exactly the root, nothing below it unless the parse succeeded'))
    return qs
