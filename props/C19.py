"""C19 — error-reporting helpers of memory_input: at / begin_of_line / end_of_line / line_at."""
import os
import vf

LEVEL_TEXT = ('bounded model checking of the real memory_input::{position, at, begin_of_line, end_of_line, line_at} (end_of_line runs the real '
              'until< at< eolf > > on a nested lazy input) compiled from the real headers: for every end-of-line policy, eager and lazy tracking, all inputs '
              'of up to N symbolic bytes (LF, CR, CRLF anywhere), every position 0..size obtained by really consuming k bytes with in.bump( k ) from an input '
              'constructed with symbolic initial byte/line/column, CBMC compares the four helpers with an independent line splitter written in C and checks '
              'numerically that every returned pointer lies inside [begin, end] of the data')

ASSUMPTIONS = [
    'positions are obtained with in.bump( k ) followed by in.position(); positions reached through the eol rule on an eager input differ from these only in the '
    'case recorded as known finding D12 of C06 (CR LF under eol::cr_crlf)',
    'position.source: Source = const char* inputs with source ""; the std::string( "" ) inside position stays in the small-string buffer (libstdc++ heap / error paths modelled in lib/models.h)',
    'end_of_line() and line_at() are only called when at( p ) lies inside the data (otherwise the wrapper reports the bad at( p ) and the harness check fails on it)',
    'initial line and column are >= 1 (asserted by the inputerator constructor)',
]

POLICIES = ['lf', 'cr', 'crlf', 'lf_crlf', 'cr_crlf']
TWO_BYTE = ('crlf', 'lf_crlf', 'cr_crlf')


def plan(ctx):
    qs = []
    N = 5 if ctx.quick() else 8
    CMAX = '1000' if ctx.quick() else '(1ULL << 40)'
    h = os.path.join(vf.VERIF, 'harness', 'c19_harness.c')
    for i, pol in enumerate(POLICIES):
        unit = ctx.unit('c19_' + pol, cpp=os.path.join(vf.VERIF, 'harness', 'c19_%s.cpp' % pol))
        d = {'C19_POL': i, 'C19_W': 'w_c19_' + pol, 'C19_N': N, 'C19_CMAX': CMAX}
        bounds = {'bytes': N, 'policy': 'eol::' + pol, 'tracking': ['eager', 'lazy'], 'position': 'every k in 0..size, reached with in.bump( k )',
                  'initial_counters': 'symbolic byte in [0,%s], line/column in [1,%s]' % (CMAX, CMAX)}
        kw = dict(defines=d, unwind=N + 2, mem_gb=2, bounds=bounds)
        eol2 = ['C19_EOL2'] if pol in TWO_BYTE else []
        qs.append(vf.Query('helpers/%s' % pol, unit, h, known=['D11'] + eol2,
                           note='at/begin_of_line/end_of_line/line_at under eol::%s vs independent line splitter, symbolic initial counters' % pol, **kw))
        # default counters 0/1/1 stated separately (D11 cannot occur there)
        qs.append(vf.Query('helpers-default/%s' % pol, unit, h, known=eol2, defines=dict(d, C19_DEFAULT_COUNTERS=1), unwind=N + 2, mem_gb=2,
                           bounds=dict(bounds, initial_counters='default 0/1/1'),
                           note='same with the default initial counters byte 0, line 1, column 1'))
        # confirmation queries of the recorded findings
        qs.append(vf.Query('known/D11/%s' % pol, unit, h, expect_fail='D11', known=eol2,
                           note='confirmation of D11: non-default initial byte / column make at() and begin_of_line() point outside the data', **kw))
        if eol2:
            qs.append(vf.Query('known/C19_EOL2/%s' % pol, unit, h, expect_fail='C19_EOL2', known=['D11'],
                               note='confirmation: under eol::%s the line delimited by begin_of_line (column, i.e. Eol::ch) and end_of_line (eol rule from the position) '
                                    'is not the line of the eol rule' % pol, **kw))
    # positions at which a real run stopped (success, local failure, global failure raised inside a limit_bytes window), asked on the input of that run
    unit = ctx.unit('c19_after', cpp=os.path.join(vf.VERIF, 'harness', 'c19_after.cpp'))
    NA = 5 if ctx.quick() else 7
    for mode in ('eager', 'lazy'):
        qs.append(vf.Query('after-run/lf/' + mode, unit, h, defines={'C19_POL': 0, 'C19_W': 'w_c19_after_' + mode, 'C19_N': NA, 'C19_CMAX': CMAX, 'C19_AFTER': 1}, unwind=NA + 3, mem_gb=3,
                           bounds={'bytes': NA, 'policy': 'eol::lf', 'tracking': mode, 'grammar': "sor< seq< at< one<'a'> >, G, opt< eol > >, eol >, G = seq< plus< one<'a'> >, must< one<'b'> > > under limit_bytes< 2 >, started after j bytes",
                                   'position': 'where the run stopped (any outcome), helpers asked on the same input object', 'initial_counters': 'symbolic'},
                           note='helpers on the input of a real run that ended by success, failure or a global failure raised inside a limit_bytes window'))
    if ctx.quick():
        # D11 is independent of the policy: one confirmation is enough in the quick tier
        qs = [q for q in qs if not (q.name.startswith('known/D11/') and not q.name.endswith('/lf_crlf'))]
    return qs
