"""C11 — grammar analysis never certifies a grammar that can loop without progress."""
import os
import vf

LEVEL_TEXT = ('bounded symbolic model checking of the analysis algorithm, one frame at a time: the real analyze_cycles_impl::work() (compiled unchanged against '
              'array-backed stand-ins for map/set/vector, recursive calls cut and replaced by a stub with symbolic verdicts) is proved to satisfy the frame '
              'contract from which soundness follows by induction (every sub-rule that can be entered at the same position is explored with the right '
              'accumulated-consumption flag; re-entry without consumption is counted as a problem; the returned "always consumes" verdict is conservative), '
              'and the analyze_traits of every rule family are proved conservative against the real rules over symbolic sub-rules')
ASSUMPTIONS = ['std::map/std::set/std::vector are replaced by array-backed stand-ins of capacity 8 (lib/stubstd); rule names are one-character strings',
               'soundness of the whole analysis from the frame contract and the conservative traits is a written induction argument (DESIGN.md 4.C11)']


def plan(ctx):
    qs = []
    unit = ctx.unit('c11_frame', cpp=os.path.join(vf.VERIF, 'harness', 'c11_frame.cpp'),
                    cxxflags=['-I', os.path.join(vf.LIB, 'stubstd'), '-DVSTUB_CAP=4'], ll2c=['--cut', '4work'],
                    native_cxxflags=['-I', os.path.join(vf.LIB, 'stubstd'), '-DVSTUB_CAP=8'])
    h = os.path.join(vf.VERIF, 'harness', 'c11_frame.c')
    for t, name in ((3, 'sor'), (2, 'seq'), (0, 'any'), (1, 'opt')):
        qs.append(vf.Query('frame/' + name, unit, h, defines={'TYPE': t}, unwind=5, mem_gb=20, timeout=3000, unwindset=['harness.%d:9' % i for i in range(6)],
                           bounds={'subs': '0..3', 'container_capacity': 4, 'analyze_type': name}, validate_iters=20000,
                           note='frame contract of work() for analyze_type::' + name))
    return qs
