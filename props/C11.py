"""C11 — grammar analysis never certifies a grammar that can loop without progress."""
import os
import vf
import symgen
import pegspec
import traitgen
from props import C01, C09

LEVEL_TEXT = ('bounded symbolic model checking of the analysis algorithm, one frame at a time: the real analyze_cycles_impl::work() (compiled unchanged against '
              'array-backed stand-ins for map/set/vector, recursive calls cut and replaced by a stub with symbolic verdicts) is proved to satisfy the frame '
              'contract from which soundness follows by induction (every sub-rule that can be entered at the same position is explored with the right '
              'accumulated-consumption flag; re-entry without consumption is counted as a problem; the returned "always consumes" verdict is conservative), '
              'and the analyze_traits of every rule family are proved conservative against the real rules over symbolic sub-rules')
ASSUMPTIONS = ['std::map/std::set/std::vector are replaced by array-backed stand-ins of capacity 8 (lib/stubstd); rule names are one-character strings',
               'soundness of the whole analysis from the frame contract and the conservative traits is a written induction argument (DESIGN.md 4.C11)']


def plan(ctx):
    qs = []
    unit = ctx.unit('c11_frame', cpp=os.path.join(vf.VERIF, 'harness', 'c11_frame.cpp'),
                    cxxflags=['-I', os.path.join(vf.LIB, 'stubstd'), '-DVSTUB_CAP=4'], ll2c=['--cut', '4work'],
                    native_cxxflags=['-I', os.path.join(vf.LIB, 'stubstd'), '-DVSTUB_CAP=8'])
    h = os.path.join(vf.VERIF, 'harness', 'c11_frame.c')
    for t, name in ((3, 'sor'), (2, 'seq'), (0, 'any'), (1, 'opt')):
        qs.append(vf.Query('frame/' + name, unit, h, defines={'TYPE': t}, unwind=5, mem_gb=20, timeout=3000, unwindset=['harness.%d:9' % i for i in range(6)],
                           bounds={'subs': '0..3', 'container_capacity': 4, 'analyze_type': name}, validate_iters=20000,
                           note='frame contract of work() for analyze_type::' + name))
    qs += traits_plan(ctx)
    # (c) the keys of the analysis: demangle< Rule >() must be injective on rule types (compile-time output of the real demangle.hpp)
    nu = ctx.unit('c11_names', cpp=os.path.join(vf.VERIF, 'harness', 'c11_names.cpp'))
    qs.append(vf.Query('names/injective', nu, os.path.join(vf.VERIF, 'harness', 'c11_names.c'), unwind=162, mem_gb=3,
                       bounds={'types': 16}, note='demangled names of 16 sibling rule types (with ; , > ] = literals) are pairwise distinct'))
    return qs


TRAIT_HARNESS = r"""/* generated harness (C11 b): analyze_traits of the real rule (dumped from the compiler) vs the behaviour of the real rule */
#define SP_N %(N)d
#define SP_K 3
#define SP_MAXRES 3
#define SP_LOG 20
%(k2)s
#include "verif.h"
#include "symtab.h"
%(spec)s
static u8 c[12];
static void harness(void) {
  sp_setup();
  /* c[k]: "sym<k> always consumes when it succeeds" — what the analysis would know about the sub-rule */
  for (int k = 0; k < 12; ++k) c[k] = 0;
  for (int k = 0; k < SP_K; ++k) c[k] = (u8)IN(0, 1);
  for (int k = 0; k < SP_K; ++k) for (u64 p = 0; p <= SP_N; ++p) ASSUME(!c[k] || T_res[k][p] != 1 || T_np[k][p] > p);
%(k2assume)s
  out_t e = %(specfn)s(sp_start);
  /* trait tree: %(tree)s */
  CHECK(e.r != 4 || (%(selfloop)s), "a repetition that can re-enter its body without progress is an edge the analysis explores without consumption (reported as a problem)");
  ASSUME(e.r != 4);
  u64 o[8];
  w_%(name)s_ar(sp_buf, sp_n, sp_start, o);
  ASSUME(!sp_exhausted);
  CHECK(!(%(consumes)s) || o[0] != 1 || o[1] > sp_start, "a rule the analysis treats as always-consuming really consumes whenever it succeeds");
  for (unsigned i = 0; i < SP_LOG; ++i) if (i < sp_nlog && sp_log_pos[i] == sp_start) {
    u8 k = sp_log_k[i];
%(edges)s
  }
  CHECK(sp_nlog <= SP_LOG, "call log fits (harness bound)");
  OBS(o[0]); OBS(o[1]);
  REACH(o[0] == 1, "rule matched");
%(reach2)s
}
"""


def traits_plan(ctx):
    doc = pegspec.Doc(os.path.join(vf.REPO, 'doc', 'Rule-Reference.md'))
    N = 3
    cases = [{'name': 'k_' + n, 'cxx': t, 'spec': t, 'inc': None, 'k2': 0} for n, t in C01.CLASSICAL + C01.NESTED if n not in ('seq0', 'sor0', 'opt0')]
    for c in C09.sym_cases(True):
        if '::' in c['cxx'] or c['bytes']:
            continue
        cases.append({'name': 'v_' + c['name'], 'cxx': c['cxx'], 'spec': c['spec'], 'inc': c['inc'], 'k2': c['k2']})
    if ctx.quick():
        # one representative per trait specialisation
        seen, keep = set(), []
        for c in cases:
            head = c['cxx'].split('<')[0].strip()
            if head in seen:
                continue
            seen.add(head)
            keep.append(c)
        cases = keep
    incs = sorted({c['inc'] for c in cases if c['inc']})
    trees = traitgen.dump_traits([(c['name'], c['cxx']) for c in cases], vf.INC, os.path.join(vf.VERIF, 'harness'), includes=incs)
    qs = []
    for c in cases:
        tree = trees[c['name']]
        if 'none' in __import__('json').dumps(tree):
            ctx.notes.append('no analyze_traits for ' + c['cxx'])
            continue
        edges, selfs = traitgen.start_edges(tree)
        el = []
        for k in range(3):
            cond = ' || '.join(edges.get(k, [])) or '0'
            el.append('    if (k == %d) CHECK(%s, "every sub-rule the real rule enters at its start position is an edge of its analyze_traits reachable without consumption");' % (k, cond))
        g = pegspec.Gen()
        e = pegspec.lower(pegspec.parse(c['spec']), doc)
        fn = g.fn(e)
        k2 = c['k2']
        k2assume = ''
        if k2:
            k2assume = ('  for (int k = 0; k < SP_K2; ++k) c[10 + k] = (u8)IN(0, 1);\n'
                        '  for (int k = 0; k < SP_K2; ++k) for (u64 p = 0; p <= SP_N; ++p) for (u64 q = 0; q <= SP_N; ++q) ASSUME(!c[10 + k] || T2_res[k][p][q] != 1 || T2_np[k][p][q] > p);')
        text = TRAIT_HARNESS % {'N': N, 'k2': ('#define SP_K2 %d' % k2) if k2 else '', 'spec': g.text(), 'specfn': fn, 'name': c['name'],
                                'tree': __import__('json').dumps(tree), 'selfloop': ' || '.join(selfs) or '0', 'consumes': traitgen.consumes(tree),
                                'edges': '\n'.join(el), 'k2assume': k2assume,
                                'reach2': '  REACH(sp_nlog >= 1, "a sub-rule was entered");' if 'sym' in repr(e) else ''}
        unit = ctx.unit('c11t_' + c['name'], text=symgen.wrapper_text([c], includes=[c['inc']] if c['inc'] else (), variants='4'))
        h = ctx.write('t_%s.c' % c['name'], text)
        qs.append(vf.Query('traits/' + c['name'], unit, h, unwind=N + 3, unwindset=['harness.%d:21' % i for i in range(12)],
                           bounds={'N': N, 'rule': c['cxx'], 'trait_tree': tree}, note='analyze_traits of %s conservative w.r.t. the real rule' % c['cxx']))
    # rules without a reference semantics in pegspec (raw_string with content rules): "certified => terminates".
    # Under the assumption that the analysis reports NO self-loop for the flags c[], the real rule must terminate on every input
    # (unwinding assertions; on replay the stubs report an exhausted call budget) and its consumes-verdict must be sound.
    TERM = r"""/* generated harness (C11 b, certified => terminates): %(cxx)s */
#define SP_N %(N)d
#define SP_K 3
#define SP_MAXRES 1
#define SP_BYTES 1
#define SP_LOG 20
#define VF_ALPHABET "[[=]]a"
#include "verif.h"
#include "symtab.h"
static u8 c[12];
static void harness(void) {
  sp_setup();
  for (int k = 0; k < 12; ++k) c[k] = 0;
  for (int k = 0; k < SP_K; ++k) c[k] = (u8)IN(0, 1);
  for (int k = 0; k < SP_K; ++k) for (u64 p = 0; p <= SP_N; ++p) ASSUME(!c[k] || T_res[k][p] != 1 || T_np[k][p] > p);
  /* trait tree: %(tree)s */
  ASSUME(!(%(selfloop)s));   /* the analysis finds no repetition that can re-enter its body without progress */
  u64 o[8];
  w_%(name)s_ar(sp_buf, sp_n, sp_start, o);
  ASSUME(!sp_exhausted);
  CHECK(!(%(consumes)s) || o[0] != 1 || o[1] > sp_start, "a rule the analysis treats as always-consuming really consumes whenever it succeeds");
  for (unsigned i = 0; i < SP_LOG; ++i) if (i < sp_nlog && sp_log_pos[i] == sp_start) {
    u8 k = sp_log_k[i];
%(edges)s
  }
  OBS(o[0]); OBS(o[1]);
  REACH(o[0] == 1 && sp_nlog >= 1, "literal matched and the content rule was entered");
}
"""
    term_cases = [{'name': 't_raw_string', 'cxx': "raw_string< '[', '=', ']', sym<0> >", 'inc': 'tao/pegtl/contrib/raw_string.hpp'},
                  {'name': 't_raw_string2', 'cxx': "raw_string< '[', '=', ']', sym<0>, sym<1> >", 'inc': 'tao/pegtl/contrib/raw_string.hpp'}]
    ttrees = traitgen.dump_traits([(c['name'], c['cxx']) for c in term_cases], vf.INC, os.path.join(vf.VERIF, 'harness'), includes=['tao/pegtl/contrib/raw_string.hpp'])
    NT = 5
    for c in term_cases:
        tree = ttrees[c['name']]
        edges, selfs = traitgen.start_edges(tree)
        el = []
        for k in range(3):
            cond = ' || '.join(edges.get(k, [])) or '0'
            el.append('    if (k == %d) CHECK(%s, "every sub-rule the real rule enters at its start position is an edge of its analyze_traits reachable without consumption");' % (k, cond))
        text = TERM % {'N': NT, 'cxx': c['cxx'], 'name': c['name'], 'tree': __import__('json').dumps(tree), 'selfloop': ' || '.join(selfs) or '0',
                       'consumes': traitgen.consumes(tree), 'edges': '\n'.join(el)}
        c2 = dict(c, spec=None)
        unit = ctx.unit('c11t_' + c['name'], text=symgen.wrapper_text([c], includes=[c['inc']], variants='4'))
        h = ctx.write('t_%s.c' % c['name'], text)
        qs.append(vf.Query('traits/' + c['name'], unit, h, unwind=NT + 3, unwindset=['harness.%d:21' % i for i in range(12)], mem_gb=4,
                           bounds={'bytes': NT, 'rule': c['cxx'], 'trait_tree': tree}, note='analyze_traits of %s: certified => terminates, verdict sound' % c['cxx']))
    return qs
