"""C14 - the shipped JSON grammar (seq< json::text, eof >) accepts exactly the well-formed UTF-8 JSON texts of RFC 8259
and never throws.  Engine E2 / peg2smt (lib/peg2smt): grammar structure extracted from the real headers on every run,
bounded language equality against spec/rfc8259.abnf decided by z3 / cvc5 over symbolic byte strings."""
import os
import subprocess
import sys

HERE = os.path.dirname(os.path.abspath(__file__))
PROP = 'C14'


sys.path.insert(0, os.path.join(os.path.dirname(HERE), 'lib'))
sys.path.insert(0, os.path.dirname(HERE))
import json
import vf


def atoms_plan(ctx):
    """the byte-level atoms the JSON grammar is built from (peek_utf8 via utf8::range, one/ranges/string families), real code on symbolic bytes (CBMC)"""
    from props import C10
    import leafgen
    qs = []
    groups = [g for g in C10.utf8_groups(False)][:3] + [g for g in C10.ascii_groups(False) if any(k in g['name'] for k in ('one', 'range', 'class'))][:3]
    for g in groups:
        k = max(c['k'] for c in g['cases'])
        NA = k + 1
        unit = ctx.unit('c14a_' + g['name'], text=leafgen.wrapper_text(g['cases'], includes=g.get('includes', ())))
        h = ctx.write('c14a_%s.c' % g['name'], C10.harness_text(g, NA))
        qs.append(vf.Query('atoms/' + g['name'], unit, h, unwind=NA + 3, mem_gb=4, bounds={'bytes': NA, 'rules': [c['cxx'] for c in g['cases']]},
                           note='atoms of the JSON grammar: real rules on symbolic bytes vs independent specification (as C10)'))
    return qs


def main(tier, seed, replay):
    # ./check runs under the system python3, the solvers' bindings live in the python3-vt environment
    if replay and 'inputs' in json.load(open(replay)):
        return vf.main_check(PROP, atoms_plan, tier, seed, replay=replay, evidence_name=PROP + '_atoms')
    cmd = ['python3-vt', os.path.join(os.path.dirname(HERE), 'lib', 'peg2smt', 'driver.py'), PROP, '--tier', tier, '--seed', str(seed)]
    if replay:
        cmd += ['--replay', replay]
    sys.stdout.flush()
    rc = subprocess.run(cmd).returncode
    if replay:
        return rc
    # E2 takes the semantics of the atoms from a specification; the same run proves them for the REAL atoms (engine E1)
    rc2 = vf.main_check(PROP, atoms_plan, tier, seed, 'atoms of the grammar: real rules on symbolic bytes (CBMC)', evidence_name=PROP + '_atoms')
    ev = os.path.join(os.path.dirname(HERE), 'evidence', PROP + '.json')
    eva = os.path.join(os.path.dirname(HERE), 'evidence', PROP + '_atoms.json')
    try:
        e, a = json.load(open(ev)), json.load(open(eva))
        e['coverage']['atoms_cbmc'] = {'queries': len(a['coverage']['samples']), 'held': a['coverage']['discharged'], 'violations': a.get('violations', 0),
                                       'samples': [{k: s.get(k) for k in ('query', 'status', 'bounds', 'cbmc_s')} for s in a['coverage']['samples']]}
        e['violations'] = e.get('violations', 0) + a.get('violations', 0)
        e['wall_s'] = e.get('wall_s', 0) + a.get('wall_s', 0)
        json.dump(e, open(ev, 'w'), indent=1)
        os.remove(eva)
    except Exception as x:   # evidence merging must never turn a verdict around
        print('note: could not merge atom evidence: %s' % x)
    return max(rc, rc2) if 1 not in (rc, rc2) else 1
