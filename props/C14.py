"""C14 - the shipped JSON grammar (seq< json::text, eof >) accepts exactly the well-formed UTF-8 JSON texts of RFC 8259
and never throws.  Engine E2 / peg2smt (lib/peg2smt): grammar structure extracted from the real headers on every run,
bounded language equality against spec/rfc8259.abnf decided by z3 / cvc5 over symbolic byte strings."""
import os
import subprocess
import sys

HERE = os.path.dirname(os.path.abspath(__file__))
PROP = 'C14'


def main(tier, seed, replay):
    # ./check runs under the system python3, the solvers' bindings live in the python3-vt environment
    cmd = ['python3-vt', os.path.join(os.path.dirname(HERE), 'lib', 'peg2smt', 'driver.py'), PROP, '--tier', tier, '--seed', str(seed)]
    if replay:
        cmd += ['--replay', replay]
    sys.stdout.flush()
    return subprocess.run(cmd).returncode
