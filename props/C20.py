"""C20 - the shipped URI grammar's top-level rules (URI, URI_reference, absolute_URI, IPv4address, IPv6address), each
followed by eof, accept exactly the strings derivable from the corresponding RFC 3986 production; a global failure
(parse_error raised by must<>) counts as rejection and no other exception can occur.  Engine E2 / peg2smt
(lib/peg2smt) against spec/rfc3986.abnf.  Known finding D8 (known_findings.json) is excluded from the main queries by
its ABNF-described language and confirmed by a dedicated query."""
import os
import subprocess
import sys

HERE = os.path.dirname(os.path.abspath(__file__))
PROP = 'C20'


sys.path.insert(0, os.path.join(os.path.dirname(HERE), 'lib'))
sys.path.insert(0, os.path.dirname(HERE))
import json
import vf


def atoms_plan(ctx):
    """the non-trivial atom of the URI grammar: dec_octet = maximum_rule< std::uint8_t > (real code on symbolic bytes, as C15)"""
    from props import C15
    qs = [q for q in C15.plan(ctx) if q.name.startswith('rule/mr') and 'u8' in q.name]
    for q in qs:
        q.name = 'atoms/' + q.name
    return qs


def main(tier, seed, replay):
    # ./check runs under the system python3, the solvers' bindings live in the python3-vt environment
    if replay and 'inputs' in json.load(open(replay)):
        return vf.main_check(PROP, atoms_plan, tier, seed, replay=replay, evidence_name=PROP + '_atoms')
    cmd = ['python3-vt', os.path.join(os.path.dirname(HERE), 'lib', 'peg2smt', 'driver.py'), PROP, '--tier', tier, '--seed', str(seed)]
    if replay:
        cmd += ['--replay', replay]
    sys.stdout.flush()
    rc = subprocess.run(cmd).returncode
    if replay:
        return rc
    # E2 takes the semantics of the atoms from a specification; the same run proves them for the REAL atoms (engine E1)
    rc2 = vf.main_check(PROP, atoms_plan, tier, seed, 'atoms of the grammar: real rules on symbolic bytes (CBMC)', evidence_name=PROP + '_atoms')
    ev = os.path.join(os.path.dirname(HERE), 'evidence', PROP + '.json')
    eva = os.path.join(os.path.dirname(HERE), 'evidence', PROP + '_atoms.json')
    try:
        e, a = json.load(open(ev)), json.load(open(eva))
        e['coverage']['atoms_cbmc'] = {'queries': len(a['coverage']['samples']), 'held': a['coverage']['discharged'], 'violations': a.get('violations', 0),
                                       'samples': [{k: s.get(k) for k in ('query', 'status', 'bounds', 'cbmc_s')} for s in a['coverage']['samples']]}
        e['violations'] = e.get('violations', 0) + a.get('violations', 0)
        e['wall_s'] = e.get('wall_s', 0) + a.get('wall_s', 0)
        json.dump(e, open(ev, 'w'), indent=1)
        os.remove(eva)
    except Exception as x:   # evidence merging must never turn a verdict around
        print('note: could not merge atom evidence: %s' % x)
    return max(rc, rc2) if 1 not in (rc, rc2) else 1
