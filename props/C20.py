"""C20 - the shipped URI grammar's top-level rules (URI, URI_reference, absolute_URI, IPv4address, IPv6address), each
followed by eof, accept exactly the strings derivable from the corresponding RFC 3986 production; a global failure
(parse_error raised by must<>) counts as rejection and no other exception can occur.  Engine E2 / peg2smt
(lib/peg2smt) against spec/rfc3986.abnf.  Known finding D8 (known_findings.json) is excluded from the main queries by
its ABNF-described language and confirmed by a dedicated query."""
import os
import subprocess
import sys

HERE = os.path.dirname(os.path.abspath(__file__))
PROP = 'C20'


def main(tier, seed, replay):
    # ./check runs under the system python3, the solvers' bindings live in the python3-vt environment
    cmd = ['python3-vt', os.path.join(os.path.dirname(HERE), 'lib', 'peg2smt', 'driver.py'), PROP, '--tier', tier, '--seed', str(seed)]
    if replay:
        cmd += ['--replay', replay]
    sys.stdout.flush()
    return subprocess.run(cmd).returncode
