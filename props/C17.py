"""C17 — unescape helpers: UTF-8 appending, hexadecimal helpers, C/JSON escape actions, surrogate-pair combination."""
import os
import vf

LEVEL_TEXT = ('bounded symbolic model checking (CBMC on the ll2c translation of the clang IR of the real contrib/unescape.hpp): '
              'utf8_append_utf32 for EVERY 32-bit value (one symbolic word) appended to a real std::string holding 0..3 arbitrary bytes: result true iff '
              'Unicode scalar value, appended bytes form exactly one well-formed sequence of Table 3-7 that decodes to the value and equal the Table 3-6 '
              'encoding, nothing appended otherwise, previous content preserved; unhex_char<unsigned|char|unsigned char|unsigned long> for all 22 hex digits; '
              'unhex_string<char|unsigned char|unsigned|unsigned long> for every numeral of 0..2 / 0..8 / 0..16 symbolic hex digits (both letter cases) in an '
              'exact-size buffer against positional notation; unescape_c for the JSON set (RFC 8259) and the C simple-escape set, every permitted character; '
              'unescape_x ("x", "xH", "xHH"), append_all (0..12 arbitrary bytes, and 0..24 bytes through std::string reallocation), unescape_u (first character '
              'arbitrary, 0..8 symbolic hex digits: encoding appended, or parse_error and nothing appended exactly for non-scalar values), unescape_j on 1..3 '
              '(thorough: 1..4) consecutive escapes u....\\u....\\u.... with fully symbolic hex digits: throws exactly when a surrogate is not part of a high/low pair '
              '(pairing left to right), otherwise the string is the previous content followed by the encodings of the combined code points; the actions run on a real '
              'internal::action_input over a real memory_input in an exact-size buffer, unescape_j additionally attached to the JSON rule '
              'list< seq< one<u>, rep<4,xdigit> >, one<\\> > and run through parse<>() with the default control')

ASSUMPTIONS = [
    'C17: out-of-line libstdc++ 12 std::string members _M_append / _M_mutate / reserve / _M_create, __throw_length_error and operator delete are C models '
    '(lib/models.h) operating on the real object layout (data pointer, size, 16-byte local buffer / capacity), reallocation with the doubling policy included; '
    'the inline members (default constructor, push_back fast path, size, data, destructor, the const char* constructor of the error message) are real IR; '
    'translation validation compares the models with the real libstdc++ (g++/ASan build) on 20000 random inputs per query on every run; allocation never fails',
    'C17: sink strings hold 0..3 arbitrary bytes before the call.  Single-append cases run on the in-object short-string buffer (results <= 15 bytes) and, in the '
    'thorough tier, also on a heap buffer; the multi-escape unescape_j queries run on a heap buffer obtained with reserve(32) before the call (one-escape '
    'unescape_j also on the short-string buffer); string growth is exercised by the append_all/growth queries (prefix length constant per query: quick 0 and 3, '
    'thorough 0..3); in all other queries reaching a reallocation would be reported as an assertion failure',
    'C17: the parse_error constructor (message/position formatting through std::ostringstream) is replaced, in the clang/IR build only, by an external '
    'that the harness models as a no-op (harness/c17.cpp, harness/c17_models.h); exception allocation, the std::string message temporary, throw, '
    'unwinding and the catch clause are real IR; the g++ build runs the real constructor; message and position of the error are not compared (C05/C19)',
    'C17: preconditions stated in unescape.hpp are assumed: unhex_char/unhex_string only on xdigit characters, unescape_c on exactly one permitted '
    'character, unescape_u/unescape_x on a non-empty match, unescape_j on (6k-1)-byte matches u....(\\u....)*; the assert() failure branches and std::terminate '
    'are asserted unreachable under these preconditions',
    'C17: unescape_j: 2 bytes (arbitrary content, never read) are allocated after the matched text.  The action forms and compares the pointers b + 6 and b += 6, '
    'which lie up to 2 bytes past the end of its match; when fewer than 2 bytes of the buffer follow the match (e.g. the escape ends the input) this is pointer '
    'arithmetic outside the array (undefined behaviour per [expr.add], flagged by CBMC as "pointer outside object bounds", invisible to ASan/UBSan and without '
    'observable effect on the g++ build, therefore not reportable as a reproduced violation).  C17_SLACK=0 ./check C17 shows it; '
    'proposed_fixes/c17_unescape_j_pointer_past_end.diff removes it (all unescape_j queries then hold with exact buffers)',
    'C17: hexadecimal numerals longer than the width of the target type (where unhex_string wraps, and for char shifts a negative value) are outside the claim',
    'C17: after unescape_j throws, the string content is unspecified and not compared',
    'C17: actions receive internal::action_input< memory_input< tracking_mode::lazy, eol::lf_crlf, const char* > >',
]

# loops of the harness / models (names under this check's control) get a generous bound; the global --unwind of a query is the tight bound for the
# loops of the code under test (every loop with a symbolic exit condition costs its full bound)
HLOOPS = ['harness.%d:32' % i for i in range(12)] + ['check_string.0:8', 'check_string.1:16', 'draw_prefix.0:8', 'exact_alloc_n.0:32', 'j_alloc.0:8', 'x_strlen.0:48']
# Sink strings of the multi-append actions get their buffer on the heap (std::string::reserve before the call): with the in-object short-string
# buffer every byte store at a symbolic offset is a byte-update of the std::string object itself, after which CBMC no longer knows its data pointer
# (measured: 2 escapes 4.2 M variables / 7 GB without, 0.6 M / 0.8 GB with).  The single-append cases also run on the short-string buffer.
RESERVE = '-DC17_RESERVE=32'


def plan(ctx):
    cpp = os.path.join(vf.VERIF, 'harness', 'c17.cpp')
    h = os.path.join(vf.VERIF, 'harness', 'c17.c')
    quick = ctx.quick()
    slack = int(os.environ.get('C17_SLACK', '2'))   # C17_SLACK=0 ./check C17 shows the out-of-bounds pointers of unescape_j (see ASSUMPTIONS)
    qs = []

    def q(name, part, slice_=None, defines=None, cbmc=None, heap=False, **kw):
        unit = ctx.unit('c17_' + part.lower() + ('_heap' if heap else ''), cpp=cpp, cxxflags=['-DC17_' + part] + ([RESERVE] if heap else []))
        d = {'C17_' + part: 1}
        d.update(defines or {})
        cd = {'VF_SPLIT': 1, 'V_' + slice_: 1} if slice_ else {}
        cd.update(cbmc or {})
        kw.setdefault('bounds', {})['sink'] = 'std::string with reserve(32) (heap buffer)' if heap else 'std::string in short-string mode'
        qs.append(vf.Query(name, unit, h, defines=d, cbmc_defines=cd, unwindset=HLOOPS, **kw))

    for heap in ((False,) if quick else (False, True)):
        q('utf8_append_utf32' + ('/heap' if heap else ''), 'ENC', heap=heap, unwind=6, mem_gb=2,
          bounds={'code_point': 'all 2^32 values', 'prefix_bytes': '0..3 arbitrary'}, note='utf8_append_utf32 vs Table 3-6 encoder and Table 3-7 decoder')
    q('unhex_char', 'HEX', 'chr', unwind=3, mem_gb=1, bounds={'characters': 'all 22 xdigits', 'types': 'unsigned, char, unsigned char, unsigned long'},
      note='unhex_char<I> vs digit value')
    q('unhex_string/8bit', 'HEX', 's8', unwind=4, mem_gb=1, bounds={'digits': '0..2 symbolic', 'types': 'char, unsigned char'}, note='unhex_string<I> vs positional value')
    q('unhex_string/unsigned', 'HEX', 's32', unwind=10, mem_gb=2, bounds={'digits': '0..8 symbolic'}, note='unhex_string<unsigned> vs positional value')
    q('unhex_string/unsigned_long', 'HEX', 's64', unwind=18, mem_gb=2, bounds={'digits': '0..16 symbolic'}, note='unhex_string<unsigned long> vs positional value')
    q('unescape_c', 'ACT', 'c', unwind=13, mem_gb=2, bounds={'sets': 'JSON (8 characters), C simple escapes (11 characters)', 'prefix_bytes': '0..3'},
      note='unescape_c mapping for every permitted character')
    q('unescape_x', 'ACT', 'x', unwind=6, mem_gb=2, bounds={'input': 'any first byte + 0..2 symbolic hex digits', 'prefix_bytes': '0..3'}, note='unescape_x vs positional value')
    q('append_all', 'ACT', 'all', unwind=14, mem_gb=2, bounds={'input': '0..12 arbitrary bytes', 'prefix_bytes': '0..3'}, note='append_all appends the matched bytes')
    for npre in ((0, 3) if quick else (0, 1, 2, 3)):
        # the prefix length is a constant per query: stores into the short-string buffer then have constant offsets (see RESERVE above)
        q('append_all/growth/prefix%d' % npre, 'GROW', cbmc={'C17_NPRE': npre}, unwind=30, mem_gb=2, bounds={'input': '0..24 arbitrary bytes', 'prefix_bytes': npre},
          note='append_all through std::string reallocation (validates the growth model of lib/models.h against libstdc++)')
    for heap in ((False,) if quick else (False, True)):
        q('unescape_u' + ('/heap' if heap else ''), 'U', heap=heap, unwind=10, mem_gb=3,
          bounds={'input': 'any first byte + 0..8 symbolic hex digits (covers \\uXXXX and \\UXXXXXXXX)', 'prefix_bytes': '0..3'},
          note='unescape_u: encoding or parse_error exactly for non-scalar values')
    maxe = 3 if quick else 4
    jd = {'C17_MAXE': maxe, 'C17_SLACK': slack}
    jb = {'escapes': '1..%d, %d symbolic hex digits' % (maxe, 4 * maxe), 'prefix_bytes': '0..3', 'bytes_allocated_after_the_match': slack}
    q('unescape_j/action_input/sso', 'J', defines=jd, cbmc={'C17_NE': 1}, unwind=6, mem_gb=2, bounds=dict(jb, escapes='1, 4 symbolic hex digits'),
      note='unescape_j on an action_input, one escape, short-string sink')
    q('unescape_j/action_input', 'J', defines=jd, heap=True, unwind=maxe + 2, mem_gb=4, bounds=dict(jb),
      note='unescape_j on an action_input: surrogate pairs combined, lone surrogates rejected')
    q('unescape_j/parse', 'JP', defines=jd, heap=True, unwind=maxe + 3, mem_gb=4,
      bounds=dict(jb, grammar='seq< one<\\>, list< seq< one<u>, rep<4,xdigit> >, one<\\> >, eof >'),
      note='unescape_j attached to the JSON unicode rule, run through parse<>()')
    return qs
