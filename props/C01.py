"""C01 — core PEG operators match exactly as the PEG formalism defines."""
import os
import vf
import symgen
import pegspec

LEVEL_TEXT = ('bounded symbolic equivalence: every classical operator (and nestings of them), compiled from the real headers, is run over '
              'symbolic sub-rules (arbitrary behaviour tables) and symbolic bytes and compared by CBMC with the PEG reference semantics, '
              'for all apply/rewind modes and with void apply/apply0 actions attached; atoms are checked on symbolic bytes')

CLASSICAL = [
    ('seq1', 'seq< sym<0> >'), ('seq2', 'seq< sym<0>, sym<1> >'), ('seq3', 'seq< sym<0>, sym<1>, sym<2> >'),
    ('sor1', 'sor< sym<0> >'), ('sor2', 'sor< sym<0>, sym<1> >'), ('sor3', 'sor< sym<0>, sym<1>, sym<2> >'),
    ('star1', 'star< sym<0> >'), ('star2', 'star< sym<0>, sym<1> >'),
    ('plus1', 'plus< sym<0> >'), ('plus2', 'plus< sym<0>, sym<1> >'),
    ('opt1', 'opt< sym<0> >'), ('opt2', 'opt< sym<0>, sym<1> >'),
    ('at1', 'at< sym<0> >'), ('at2', 'at< sym<0>, sym<1> >'),
    ('not_at1', 'not_at< sym<0> >'), ('not_at2', 'not_at< sym<0>, sym<1> >'),
    ('seq0', 'seq<>'), ('sor0', 'sor<>'), ('opt0', 'opt<>'),
]
NESTED = [
    ('n_seq_star', 'seq< star< sym<0> >, sym<1> >'),
    ('n_sor_seq', 'sor< seq< sym<0>, sym<1> >, seq< sym<0>, sym<2> > >'),
    ('n_star_sor', 'star< sor< sym<0>, sym<1> > >'),
    ('n_notat_seq', 'seq< not_at< sym<0>, sym<1> >, sym<2> >'),
    ('n_at_seq', 'seq< at< sym<0> >, sym<1> >'),
    ('n_opt_plus', 'seq< opt< sym<0> >, plus< sym<1> >, not_at< sym<2> > >'),
    ('n_star_seq_opt', 'star< sym<0>, opt< sym<1> > >'),
    ('n_sor_star', 'sor< seq< sym<0>, sym<1> >, star< sym<2> > >'),
    ('n_plus_at', 'plus< at< sym<0> >, sym<1> >'),
    ('n_sor_eof', 'seq< star< sym<0> >, sor< eof, sym<1> > >'),
]


def plan(ctx):
    doc = pegspec.Doc(os.path.join(vf.REPO, 'doc', 'Rule-Reference.md'))
    N = 3 if ctx.quick() else 5
    cases = [{'name': n, 'cxx': t, 'spec': t} for n, t in CLASSICAL + NESTED]
    qs = []
    for c in cases:
        K = 3
        unit = ctx.unit('c01_' + c['name'], text=symgen.wrapper_text([c], variants='7'))
        text, low, seen = symgen.harness_text(c, N, K, doc, maxres=3, variants=('ar', 'ao', 'nr', 'no', 'pr', 'po', 'qr', 'xr', 'xo'))
        h = ctx.write('h_%s.c' % c['name'], text)
        for grp in (('ar', 'ao'), ('nr', 'no'), ('pr', 'po'), ('qr',), ('xr', 'xo')):   # x: void apply attached but apply_mode::nothing
            cd = {'VF_SPLIT': 1}
            cd.update(('V_' + v, 1) for v in grp)
            qs.append(vf.Query('ops/%s/%s' % (c['name'], '+'.join(grp)), unit, h, unwind=N + 3, cbmc_defines=cd,
                               bounds={'N': N, 'K': K, 'expr': c['spec'], 'spec': low, 'outcomes': seen, 'variants': grp},
                               mem_gb=2, note='real %s over symbolic sub-rules vs PEG semantics' % c['cxx']))
    # recursive and mutually recursive named rules (real recursion in the library, recursive reference in the harness)
    rec = ctx.unit('c01_rec', cpp=os.path.join(vf.VERIF, 'harness', 'c01_rec.cpp'))
    hrec = os.path.join(vf.VERIF, 'harness', 'c01_rec.c')
    for kind, d in (('direct', {}), ('mutual', {'MUTUAL': 1})):
        for v in ('a', 'n', 'p'):
            qs.append(vf.Query('rec/%s/%s' % (kind, v), rec, hrec, defines=dict(d, SP_N=N), cbmc_defines={'VF_SPLIT': 1, 'V_' + v: 1}, unwind=N + 3, mem_gb=3,
                               bounds={'N': N, 'grammar': 'R := ( s0 R s1 ) / s2' if kind == 'direct' else 'A := ( s0 B ) / s2 ; B := s1? A'},
                               note='recursive named rules over symbolic sub-rules vs recursive PEG reference'))
    # atoms (and two small byte-level grammars) on symbolic bytes
    import leafgen
    NA = 4 if ctx.quick() else 6
    for c in ATOMS:
        unit = ctx.unit('c01a_' + c['name'], text=leafgen.wrapper_text([c]))
        na = min(NA, 3) if (c.get('split') and ctx.quick()) else NA
        h = ctx.write('a_%s.c' % c['name'], leafgen.harness_text(c, na))
        groups = [('ar',), ('ao',), ('nr',), ('no',)] if c.get('split') else [('ar', 'ao', 'nr', 'no')]
        for grp in groups:
            cd = {'VF_SPLIT': 1}
            cd.update(('V_' + v, 1) for v in grp)
            qs.append(vf.Query('atom/%s/%s' % (c['name'], '+'.join(grp)), unit, h, unwind=na + 3, cbmc_defines=cd, mem_gb=4 if c.get('split') else 2,
                               bounds={'bytes': na, 'rule': c['cxx'], 'variants': grp},
                               note='real %s on symbolic bytes vs byte-level specification' % c['cxx']))
    return qs


G1 = """static int g1(u64 *len) { u64 p = lf_start; for (u64 i = 0; i < NA; ++i) { if (p < lf_n && B(p) == 'a') p++; else break; }
  if (p + 2 <= lf_n && B(p) == 'b' && B(p + 1) == 'c') p += 2; else if (p < lf_n && B(p) == 'b') p += 1; else return 0;
  if (p != lf_n) return 0; *len = p - lf_start; return 1; }"""
G2 = """static int g2(u64 *len) { u64 p = lf_start; int cnt = 0; for (u64 i = 0; i <= NA; ++i) {
    if (p + 1 < lf_n && B(p) == 'a' && B(p + 1) == 'b') p++; else if (p < lf_n && B(p) >= 'b' && B(p) <= 'c') p++; else break; cnt++; }
  *len = p - lf_start; return cnt > 0; }"""

ATOMS = [
    {'name': 'any', 'cxx': 'any', 'cond': 'HAVE(1)', 'len': '1'},
    {'name': 'one1', 'cxx': "one< 'a' >", 'cond': "HAVE(1) && B(S) == 'a'", 'len': '1'},
    {'name': 'one2', 'cxx': "one< 'a', '\\n' >", 'cond': "HAVE(1) && (B(S) == 'a' || B(S) == '\\n')", 'len': '1'},
    {'name': 'not_one1', 'cxx': "not_one< 'a' >", 'cond': "HAVE(1) && B(S) != 'a'", 'len': '1'},
    {'name': 'not_one2', 'cxx': "not_one< 'a', '\\n' >", 'cond': "HAVE(1) && B(S) != 'a' && B(S) != '\\n'", 'len': '1'},
    {'name': 'range', 'cxx': "range< 'a', 'f' >", 'cond': "HAVE(1) && B(S) >= 'a' && B(S) <= 'f'", 'len': '1'},
    {'name': 'string2', 'cxx': "string< 'a', 'b' >", 'cond': "HAVE(2) && B(S) == 'a' && B(S + 1) == 'b'", 'len': '2'},
    {'name': 'string3', 'cxx': "string< 'a', '\\n', 'b' >", 'cond': "HAVE(3) && B(S) == 'a' && B(S + 1) == '\\n' && B(S + 2) == 'b'", 'len': '3'},
    {'name': 'string_nul', 'cxx': "string< 'a', '\\0', 'b' >", 'cond': "HAVE(3) && B(S) == 'a' && B(S + 1) == 0 && B(S + 2) == 'b'", 'len': '3', 'alphabet': 'ab\\000c'},
    {'name': 'one0', 'cxx': 'one<>', 'cond': '0', 'len': '0', 'can_match': False},
    {'name': 'not_one0', 'cxx': 'not_one<>', 'cond': 'HAVE(1)', 'len': '1'},
    {'name': 'string0', 'cxx': 'string<>', 'cond': '1', 'len': '0', 'can_fail': False},
    {'name': 'eof', 'cxx': 'eof', 'cond': 'S == lf_n', 'len': '0'},
    {'name': 'success', 'cxx': 'success', 'cond': '1', 'len': '0', 'can_fail': False},
    {'name': 'failure', 'cxx': 'failure', 'cond': '0', 'len': '0', 'can_match': False},
    {'name': 'bof', 'cxx': 'bof', 'cond': 'S == 0', 'len': '0'},
    {'name': 'bol', 'cxx': 'bol', 'cond': 'S == 0', 'len': '0'},   # vf::run positions the cursor with bump_in_this_line: column 1 only at offset 0
    {'name': 'require2', 'cxx': 'require< 2 >', 'cond': 'HAVE(2)', 'len': '0'},
    {'name': 'discard', 'cxx': 'discard', 'cond': '1', 'len': '0', 'can_fail': False},
    {'name': 'g1', 'cxx': "seq< star< one< 'a' > >, sor< string< 'b', 'c' >, one< 'b' > >, not_at< any > >", 'spec': G1, 'cond': 'g1(&len)', 'len': 'len',
     'reach': [('er == 1 && len == 3', 'consumes 3')], 'alphabet': 'abc'},
    {'name': 'g2', 'cxx': "plus< sor< seq< one< 'a' >, at< one< 'b' > > >, range< 'b', 'c' > > >", 'spec': G2, 'cond': 'g2(&len)', 'len': 'len', 'split': True, 'alphabet': 'abc'},
]
