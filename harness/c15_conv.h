/* c15_conv.h — conversion kernels of contrib/integer.hpp vs exact (wide) arithmetic.
 *
 * The generated harness defines  NL (max number of digits; absent for the step lemma), CV_MINN, C15_BITS (width of the kernels'
 * integer type), C15_TSIGNED (1: signed type), optionally C15_PREFIX (concrete leading digits: boundary neighbourhood), includes
 * this file and then defines  c15_calls()  as a list of
 *     C15_STEP(W, MAX)    accumulate_digit< I, MAX >  : every accumulator value, every digit
 *     C15_DIGITS(W, MAX)  accumulate_digits< I, MAX > : every accumulator start value, every digit string up to NL digits
 *     C15_CPOS(W, MAX) / C15_CUNS(W, MAX)              : convert_positive / convert_unsigned from result == 0
 *     C15_CNEG(W) / C15_CSIG(W)                        : convert_negative / convert_signed< I >
 * each with its REACH witnesses and wrapped in  #if V_<wrapper> ... #endif  so that one CBMC query takes one kernel
 * (the native builds run all of them).
 *
 * Specification arithmetic: unsigned __int128 for 64-bit kernels, u64 for narrower ones (values stay below 2^36 there).
 */
#ifndef C15_CONV_H
#define C15_CONV_H

#if C15_BITS == 64
typedef unsigned __int128 cv_val;
#else
typedef u64 cv_val;
#endif
#define CV_MASK (C15_BITS == 64 ? ~0ULL : ((1ULL << (C15_BITS % 64)) - 1))
#define CV_SMAX (CV_MASK >> 1)
/* accumulators handed to kernels of a signed type are non-negative (they start at 0 and only grow) */
#define CV_RMAX (C15_TSIGNED ? CV_SMAX : CV_MASK)

static u64 cv_n;      /* length of the digit string */
static u8 *cv_buf;    /* exact-size buffer: digits only */
static u8 *cv_sbuf;   /* exact-size buffer: sign + digits (convert_signed) */
static u64 cv_sn;
static u64 cv_sign;   /* 0 none, 1 '+', 2 '-' */
static u64 cv_r0, cv_d;

static void cv_setup(void) {
  cv_r0 = IN(0, CV_RMAX);
  cv_d = IN(0, 9);
#ifdef NL
  cv_n = IN(CV_MINN, NL);
  cv_sign = IN(0, 2);
  cv_buf = (u8 *)exact_alloc(cv_n);
  cv_sn = cv_n + (cv_sign ? 1 : 0);
  cv_sbuf = (u8 *)exact_alloc(cv_sn);
  for (u64 i = 0; i < NL; ++i) {
    u8 v = (u8)('0' + IN(0, 9));
#ifdef C15_PREFIX
    { static const char pre[] = C15_PREFIX; if (i + 1 < sizeof(pre)) v = (u8)pre[i]; }
#endif
    if (i < cv_n) { cv_buf[i] = v; cv_sbuf[i + (cv_sign ? 1 : 0)] = v; }
  }
  if (cv_sign) cv_sbuf[0] = cv_sign == 1 ? '+' : '-';
#endif
}

#ifdef NL
/* exact fold of the digit string onto start value v0 with upper limit max:
 * -> 1 and *val = exact value if it fits; -> 0 and *val = exact value of the longest prefix that fits (what the accumulator holds then) */
static int cv_fold(cv_val v0, cv_val max, cv_val *val) {
  cv_val v = v0;
  int ok = 1;
  for (u64 i = 0; i < NL; ++i) {
    if (i >= cv_n || !ok) continue;
    cv_val nv = v * 10 + (cv_val)(cv_buf[i] - '0');   /* v <= 2^BITS - 1: no wrap in cv_val */
    if (nv > max) ok = 0; else v = nv;
  }
  *val = v;
  return ok;
}
#endif

static int cv_ok, cv_neg;   /* specification outcome of the last kernel call (used by the generated REACH witnesses) */
static u64 cv_ret;          /* what the kernel returned */
static cv_val cv_v;

#define C15_STEP(W, MAX) do { \
    u64 o[2] = {7, 7}; \
    W(cv_r0, '0' + cv_d, o); \
    cv_v = (cv_val)cv_r0 * 10 + (cv_val)cv_d; \
    cv_ok = cv_v <= (cv_val)(MAX); \
    CHECK(o[0] == (u64)cv_ok, "accumulate_digit returns true iff r*10+d <= Maximum in exact arithmetic"); \
    if (cv_ok) CHECK(o[1] == (u64)cv_v, "accumulate_digit stores exactly r*10+d"); \
    else CHECK(o[1] == cv_r0, "accumulate_digit leaves the accumulator unchanged on overflow"); \
    OBS(o[0]); OBS(o[1]); cv_ret = o[0]; \
  } while (0)

/* every kernel macro: specification first, then WIT (REACH witnesses about the drawn input, placed before the call so that they do
 * not depend on what the code under test does with it), then the call and the comparison */
#define C15_FOLD(W, MAX, R0, WHAT, WIT) do { \
    u64 o[2] = {7, 7}; \
    cv_neg = 0; \
    cv_ok = cv_fold((cv_val)(R0), (cv_val)(MAX), &cv_v); \
    WIT \
    W(cv_buf, cv_n, (R0), o); \
    CHECK(o[0] == (u64)cv_ok, WHAT " returns true iff the exact value fits Maximum"); \
    if (cv_ok) CHECK(o[1] == (u64)cv_v, WHAT " stores the mathematically exact value"); \
    else CHECK(o[1] == (u64)cv_v, WHAT " on overflow holds the exact value of the longest prefix that fits, never a wrapped value"); \
    OBS(o[0]); OBS(o[1]); cv_ret = o[0]; \
  } while (0)

#define C15_DIGITS(W, MAX, WIT) C15_FOLD(W, MAX, cv_r0, "accumulate_digits", WIT)
/* convert_*: "assumes result == 0 and a non-empty sequence of digits" */
#define C15_CPOS(W, MAX, WIT) C15_FOLD(W, MAX, 0, "convert_positive", WIT)
#define C15_CUNS(W, MAX, WIT) C15_FOLD(W, MAX, 0, "convert_unsigned", WIT)

#define C15_CNEG(W, WIT) do { \
    u64 o[2] = {7, 7}; \
    cv_neg = 1; \
    cv_ok = cv_fold(0, (cv_val)CV_SMAX + 1, &cv_v); \
    WIT \
    W(cv_buf, cv_n, cv_r0, o); \
    CHECK(o[0] == (u64)cv_ok, "convert_negative returns true iff the magnitude is at most -(minimum)"); \
    if (cv_ok) CHECK(o[1] == ((0 - (u64)cv_v) & CV_MASK), "convert_negative stores exactly minus the value"); \
    else CHECK(o[1] == cv_r0, "convert_negative leaves the result untouched on overflow"); \
    OBS(o[0]); OBS(o[1]); cv_ret = o[0]; \
  } while (0)

#define C15_CSIG(W, WIT) do { \
    u64 o[2] = {7, 7}; \
    cv_neg = cv_sign == 2; \
    cv_ok = cv_fold(0, (cv_val)CV_SMAX + (cv_neg ? 1 : 0), &cv_v); \
    WIT \
    W(cv_sbuf, cv_sn, 0, o); \
    CHECK(o[0] == (u64)cv_ok, "convert_signed returns true iff the value fits the signed type"); \
    if (cv_ok) CHECK(o[1] == ((cv_neg ? 0 - (u64)cv_v : (u64)cv_v) & CV_MASK), "convert_signed stores the mathematically exact value"); \
    else CHECK(o[1] == (cv_neg ? 0 : (u64)cv_v), "convert_signed on overflow holds 0 or the exact value of a prefix, never a wrapped value"); \
    OBS(o[0]); OBS(o[1]); cv_ret = o[0]; \
  } while (0)

static void c15_calls(void);   /* generated: the kernel calls (macros above), each followed by its REACH witnesses */

static void harness(void) {
  cv_setup();
  c15_calls();
}
#endif
