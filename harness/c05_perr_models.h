/* c05_perr_models.h — C models of the libstdc++ (GCC 12, x86-64, new ABI) out-of-line functions reached by the units of
 * props/C05_perr.py.  Passed to ll2c with --include, i.e. part of the TRANSLATED unit only (after lib/models.h): the real
 * g++ build links the genuine library, so translation validation compares every model below with libstdc++ on each run.
 *
 * std::runtime_error   layout { vptr, __cow_string { char* } }: the message is a NUL-terminated copy in a buffer of
 *                      C05P_WHAT_CAP bytes (constant size: an allocation of symbolic size is very costly for CBMC); a longer
 *                      message is REPORTED (trap), never truncated.  Copies (move constructor = copy, reference-counted in
 *                      libstdc++) share the buffer; it is never freed.
 * std::exception_ptr   layout { void* }: _M_addref/_M_release do nothing (no reference counting: exception objects are never
 *                      freed in the lowered exception model of ll2c).
 * std::current_exception / std::rethrow_exception / std::nested_exception::~nested_exception: on ll2c's --eh-nested run-time
 *                      (stack of handled exceptions, type of every thrown object). */
#ifndef C05_PERR_MODELS_H
#define C05_PERR_MODELS_H

#ifndef C05P_WHAT_CAP
#define C05P_WHAT_CAP 64
#endif

/* assert() of the library (e.g. memory_input::bump: count <= size): the harness establishes the documented preconditions; reaching a failure is reported */
void x___assert_fail(u8 *a, u8 *b, u32 c, u8 *d) { (void)a; (void)b; (void)c; (void)d; __VERIFIER_trap(); }

/* std::string::_M_replace( pos, len1, s, len2 ): replace [pos, pos+len1) by s[0..len2), s not part of *this (bits/basic_string.tcc);
 * reached through  "parse error matching " + std::string( ... )  =  insert( 0, const char* ) */
void *x__ZNSt7__cxx1112basic_stringIcSt11char_traitsIcESaIcEE10_M_replaceEmmPKcm(void *self, u64 pos, u64 len1, u8 *s, u64 len2) {
  u64 old = vf_str_size(self), nsz = old + len2 - len1;
  if (nsz <= vf_str_cap(self)) {
    /* in place.  New content  old[0..pos) s[0..len2) old[pos+len1..old) 0  assembled in a temporary and written back at constant offsets
     * (see VF_STRING_SPLIT_STORES in lib/models.h for why) */
    u8 tmp[C05P_WHAT_CAP], *d = vf_str_data(self);
    if (nsz + 1 > C05P_WHAT_CAP) { __VERIFIER_trap(); return self; }
    for (u64 j = 0; j < C05P_WHAT_CAP; ++j) tmp[j] = j < pos ? d[j] : j < pos + len2 ? s[j - pos] : j < nsz ? d[j - len2 + len1] : 0;
    for (u64 j = 0; j < C05P_WHAT_CAP; ++j) if (j <= nsz) d[j] = tmp[j];
  } else { x__ZNSt7__cxx1112basic_stringIcSt11char_traitsIcESaIcEE9_M_mutateEmmPKcm(self, pos, len1, s, len2); vf_str_data(self)[nsz] = 0; }
  *(u64 *)((u8 *)self + 8) = nsz;
  return self;
}

/* std::runtime_error::runtime_error( const std::string& ) */
void x__ZNSt13runtime_errorC2ERKNSt7__cxx1112basic_stringIcSt11char_traitsIcESaIcEEE(void *self, void *str) {
  u64 n = vf_str_size(str);
  u8 *d = vf_str_data(str), *m;
  if (n + 1 > C05P_WHAT_CAP) { __VERIFIER_trap(); return; }
  m = malloc(C05P_WHAT_CAP); __VERIFIER_assume_nonnull(m);
  for (u64 i = 0; i < C05P_WHAT_CAP; ++i) m[i] = i < n ? d[i] : 0;
  *(u8 **)((u8 *)self + 8) = m;
}
/* std::runtime_error::runtime_error( std::runtime_error&& )  and  ( const std::runtime_error& ) */
void x__ZNSt13runtime_errorC2EOS_(void *self, void *other) { *(u8 **)((u8 *)self + 8) = *(u8 **)((u8 *)other + 8); }
void x__ZNSt13runtime_errorC2ERKS_(void *self, void *other) { *(u8 **)((u8 *)self + 8) = *(u8 **)((u8 *)other + 8); }
void x__ZNSt13runtime_errorD2Ev(void *self) { (void)self; }
u8 *x__ZNKSt13runtime_error4whatEv(void *self) { return *(u8 **)((u8 *)self + 8); }

/* std::exception_ptr */
void x__ZNSt15__exception_ptr13exception_ptr9_M_addrefEv(void *self) { (void)self; }
void x__ZNSt15__exception_ptr13exception_ptr10_M_releaseEv(void *self) { (void)self; }
#ifdef __EXC_NESTED
/* std::exception_ptr std::current_exception() noexcept   (result through the hidden first parameter) */
void x__ZSt17current_exceptionv(void *ret) { *(void **)ret = __exc_current(); }
/* [[noreturn]] void std::rethrow_exception( std::exception_ptr )   (parameter passed by invisible reference) */
void x__ZSt17rethrow_exceptionNSt15__exception_ptr13exception_ptrE(void *p) {
  void *o = *(void **)p;
  if (o == 0) { __VERIFIER_trap(); return; }     /* precondition of std::rethrow_exception */
  __exc_throw_again(o);
}
#endif
/* std::nested_exception::~nested_exception()  (releases its exception_ptr) */
void x__ZNSt16nested_exceptionD2Ev(void *self) { (void)self; }

#endif
