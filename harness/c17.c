/* C17: contrib/unescape.hpp against the Unicode standard / RFC 8259 / positional hexadecimal notation.
 * One part per wrapper unit (-DC17_ENC | C17_HEX | C17_ACT | C17_U | C17_J | C17_JP, the same define selects the wrappers in
 * c17.cpp); VF_SPLIT + V_<slice> select a slice of a part for CBMC, the native builds run all slices of the part. */
#define VF_ALPHABET "ud\\D8cC09fFx\"/bnrt"
#ifdef C17_GROW
#define VF_STRING_GROWTH 1      /* lib/models.h: reallocating std::string model instead of "growth is reported" */
#endif
#include "verif.h"
#include "c17_models.h"
#include "c17_spec.h"


/* ============================================================================================== utf8_append_utf32 */
#ifdef C17_ENC
static void harness(void) {
  u64 cp = IN(0, 0xffffffffULL);                 /* every 32-bit value */
  draw_prefix();
  u64 o[18];
  w_append(cp, c17_pre, c17_npre, o);
  int sc = is_scalar(cp);
  OBS(o[0]); OBS(o[1]);
  CHECK(o[0] == (u64)sc, "utf8_append_utf32 returns true exactly for Unicode scalar values");
  if (!sc) {
    check_string(o, 0, 0);                       /* nothing appended */
  } else {
    CHECK(o[1] >= c17_npre + 1 && o[1] <= c17_npre + 4, "one to four bytes appended");
    u64 n = o[1] - c17_npre, b[4], e[4] = {0, 0, 0, 0}, dcp;
    for (u64 i = 0; i < 4; ++i) b[i] = (i < n && c17_npre + i < 16) ? o[2 + c17_npre + i] : 0;
    /* (a) Table 3-7: the appended bytes are ONE well-formed sequence that decodes to cp (well-formed => shortest form, so
     *     this sequence is unique) */
    u64 dl = u8_dec(b[0], b[1], b[2], b[3], n, &dcp);
    CHECK(dl == n && dl != 0, "appended bytes form exactly one well-formed UTF-8 sequence (Table 3-7)");
    CHECK(dcp == cp, "the appended sequence decodes to the code point");
    /* (b) Table 3-6: they are the encoder's bytes */
    u64 el = u8_enc(cp, e);
    CHECK(el == n, "length of the encoding per Table 3-6");
    check_string(o, e, el);
  }
  REACH(sc && cp <= 0x7F, "1-byte encoding expected");
  REACH(sc && cp > 0x7F && cp <= 0x7FF, "2-byte encoding expected");
  REACH(sc && cp > 0xDFFF && cp <= 0xFFFF, "3-byte encoding expected above the surrogates");
  REACH(sc && cp > 0xFFFF && c17_npre == 3, "4-byte encoding appended to a 3-byte prefix");
  REACH(cp == 0x10FFFF, "U+10FFFF");
  REACH(!sc && cp <= 0xFFFF, "surrogate");
  REACH(cp == 0x110000, "U+110000");
  REACH(cp > 0x7fffffffULL, "value with the top bit set");
}
#endif

/* ============================================================================================== unhex_char / unhex_string */
#ifdef C17_HEX
static void harness(void) {
  u64 o[1];
  /* unhex_char< I >: every character matching xdigit (precondition of the function) */
  u64 k = IN(0, 21);
  u64 c = (u8)c17_xd[k], v = xd_val(k);
#if !defined(VF_SPLIT) || defined(V_chr)
  w_unhex_char_u(c, o);  CHECK(o[0] == v, "unhex_char<unsigned> yields the digit's value");
  w_unhex_char_c(c, o);  CHECK(o[0] == v, "unhex_char<char> yields the digit's value");
  w_unhex_char_uc(c, o); CHECK(o[0] == v, "unhex_char<unsigned char> yields the digit's value");
  w_unhex_char_ul(c, o); CHECK(o[0] == v, "unhex_char<unsigned long> yields the digit's value");
  OBS(o[0]);
  REACH(v == 15 && k == 21, "upper-case F");
  REACH(v == 10 && k == 10, "lower-case a");
  REACH(v == 9, "decimal digit 9");
#endif
  /* unhex_string< I >: every hexadecimal numeral of 0..width(I) digits in an exact-size buffer */
  u64 n = IN(0, 16), d[16], val[17];
  val[0] = 0;
  for (u64 i = 0; i < 16; ++i) d[i] = IN(0, 21);
  u8 *buf = (u8 *)exact_alloc_n(n, 16);
  for (u64 i = 0; i < 16; ++i) if (i < n) buf[i] = (u8)c17_xd[d[i]];
  for (u64 i = 0; i < 16; ++i) val[i + 1] = val[i] * 16 + xd_val(d[i]);   /* val[j] = value of the first j digits (no overflow: 16 digits = 64 bits) */
  u64 ex = val[n];
#if !defined(VF_SPLIT) || defined(V_s8)
  if (n <= 2) { w_unhex_string_c(buf, n, o);  CHECK(o[0] == ex, "unhex_string<char>: positional value of up to 2 digits"); OBS(o[0]);
                w_unhex_string_uc(buf, n, o); CHECK(o[0] == ex, "unhex_string<unsigned char>: positional value of up to 2 digits");
                REACH(n == 2 && ex == 0xff, "two digits, all bits set"); REACH(n == 0, "empty numeral"); }
#endif
#if !defined(VF_SPLIT) || defined(V_s32)
  if (n <= 8) { w_unhex_string_u(buf, n, o); CHECK(o[0] == ex, "unhex_string<unsigned>: positional value of up to 8 digits"); OBS(o[0]);
                REACH(n == 8 && ex == 0xfffffffeULL, "eight digits"); REACH(n == 4 && ex == 0xD800, "a surrogate value"); }
#endif
#if !defined(VF_SPLIT) || defined(V_s64)
  { w_unhex_string_ul(buf, n, o); CHECK(o[0] == ex, "unhex_string<unsigned long>: positional value of up to 16 digits"); OBS(o[0]);
    REACH(n == 16 && ex == 0xfedcba9876543210ULL, "sixteen digits"); REACH(n == 1 && ex == 7, "one digit"); }
#endif
}
#endif

/* ============================================================================================== unescape_c, unescape_x, append_all */
#ifdef C17_ACT
/* RFC 8259 section 7:  \" \\ \/ \b \f \n \r \t  */
static const u8 json_q[8] = { '"', '\\', '/', 'b', 'f', 'n', 'r', 't' };
static const u64 json_r[8] = { 0x22, 0x5C, 0x2F, 0x08, 0x0C, 0x0A, 0x0D, 0x09 };
/* ISO C 6.4.4.4 simple escape sequences (the set of src/example/pegtl/unescape.cpp):  \' \" \? \\ \a \b \f \n \r \t \v  */
static const u8 ex_q[11] = { '\'', '"', '?', '\\', 'a', 'b', 'f', 'n', 'r', 't', 'v' };
static const u64 ex_r[11] = { 0x27, 0x22, 0x3F, 0x5C, 0x07, 0x08, 0x0C, 0x0A, 0x0D, 0x09, 0x0B };
#ifndef C17_NALL
#define C17_NALL 12
#endif
static void harness(void) {
  u64 o[18], app[12];
  draw_prefix();
  u64 kj = IN(0, 7), ke = IN(0, 10);
  u64 first = IN_BYTE(), d0 = IN(0, 21), d1 = IN(0, 21), nx = IN(1, 3);
  u64 na = IN(0, C17_NALL);
  u8 all[C17_NALL + 1];
  for (u64 i = 0; i < C17_NALL; ++i) all[i] = IN_BYTE();
#if !defined(VF_SPLIT) || defined(V_c)
  { u8 *b = (u8 *)exact_alloc(1);
    b[0] = json_q[kj];
    w_c_json(b, 1, c17_pre, c17_npre, o);
    CHECK(o[0] == 1, "unescape_c returns normally for a permitted character");
    app[0] = json_r[kj]; check_string(o, app, 1);
    OBS(o[1]); OBS(o[2 + c17_npre]);
    REACH(kj == 7 && c17_npre == 2, "JSON \\t after a 2-byte prefix");
    REACH(kj == 0 && c17_npre == 0, "JSON \\\" into the empty string");
    b[0] = ex_q[ke];
    w_c_ex(b, 1, c17_pre, c17_npre, o);
    CHECK(o[0] == 1, "unescape_c (C set) returns normally for a permitted character");
    app[0] = ex_r[ke]; check_string(o, app, 1);
    OBS(o[2 + c17_npre]);
    REACH(ke == 10, "C \\v");
    REACH(ke == 4, "C \\a"); }
#endif
#if !defined(VF_SPLIT) || defined(V_x)
  { /* "xHH" (and the degenerate "x", "xH"): first character skipped whatever it is, the digits give the byte */
    u8 *b = (u8 *)exact_alloc_n(nx, 3);
    b[0] = (u8)first;
    if (nx >= 2) b[1] = (u8)c17_xd[d0];
    if (nx >= 3) b[2] = (u8)c17_xd[d1];
    w_x(b, nx, c17_pre, c17_npre, o);
    CHECK(o[0] == 1, "unescape_x returns normally");
    app[0] = nx == 1 ? 0 : nx == 2 ? xd_val(d0) : xd_val(d0) * 16 + xd_val(d1);
    check_string(o, app, 1);
    OBS(o[2 + c17_npre]);
    REACH(nx == 3 && app[0] == 0xff && first == 'x', "\\xff");
    REACH(nx == 3 && app[0] == 0x00 && c17_npre == 3, "\\x00 appended after a 3-byte prefix");
    REACH(nx == 3 && app[0] == 0x7f, "\\x7f"); }
#endif
#if !defined(VF_SPLIT) || defined(V_all)
  { u8 *b = (u8 *)exact_alloc_n(na, C17_NALL);
    for (u64 i = 0; i < C17_NALL; ++i) if (i < na) b[i] = all[i];
    w_all(b, na, c17_pre, c17_npre, o);
    CHECK(o[0] == 1, "append_all returns normally");
    for (u64 i = 0; i < 12; ++i) app[i] = i < C17_NALL ? all[i] : 0;
    check_string(o, app, na);
    OBS(o[1]);
    REACH(na == C17_NALL && c17_npre == 3, "longest matched input appended to a 3-byte prefix");
    REACH(na == 0, "empty match"); }
#endif
}
#endif

/* ============================================================================================== append_all through the reallocating path */
#ifdef C17_GROW
#define NG 24
static void harness(void) {
  u64 o[30];
  draw_prefix();
  u64 na = IN(0, NG);
  u8 all[NG];
  for (u64 i = 0; i < NG; ++i) all[i] = IN_BYTE();
  u8 *b = (u8 *)exact_alloc_n(na, NG);
  for (u64 i = 0; i < NG; ++i) if (i < na) b[i] = all[i];
  w_all_long(b, na, c17_pre, c17_npre, o);
  CHECK(o[0] == 1, "append_all returns normally");
  CHECK(o[1] == c17_npre + na, "string length = previous length + length of the match");
  for (u64 i = 0; i < C17_MAXPRE; ++i) if (i < c17_npre) CHECK(o[2 + i] == c17_pre[i], "previous content of the string preserved across reallocation");
  for (u64 i = 0; i < NG; ++i) if (i < na) CHECK(o[2 + c17_npre + i] == all[i], "appended bytes are the matched bytes");
  OBS(o[1]); OBS(o[2 + 27]);
  REACH(na == NG, "longest match appended (result beyond the 15-byte short-string capacity)");
  REACH(c17_npre + na == 16, "first length that needs the heap");
  REACH(c17_npre + na == 15, "last length that fits the short-string buffer");
}
#endif

/* ============================================================================================== unescape_u */
#ifdef C17_U
static void harness(void) {
  u64 o[18], e[12], d[8], val[9];
  draw_prefix();
  u64 first = IN_BYTE();
  u64 nd = IN(0, 8);                              /* number of hex digits after the first character: \uXXXX has 4, \UXXXXXXXX has 8 */
  u64 cls = IN(0, 2);
  for (u64 i = 0; i < 8; ++i) d[i] = IN(0, 21);
  /* cls only steers the random (translation validation) runs towards small values; cls == 0 leaves every digit free */
  if (cls == 1) { d[0] = 0; d[1] = 0; d[2] = d[2] & 1; }
  if (cls == 2) { d[0] = 0; d[1] = 0; d[2] = 0; d[3] = 0; d[4] = 13; }
  u8 *b = (u8 *)exact_alloc_n(nd + 1, 9);
  b[0] = (u8)first;
  for (u64 i = 0; i < 8; ++i) if (i < nd) b[1 + i] = (u8)c17_xd[d[i]];
  val[0] = 0;
  for (u64 i = 0; i < 8; ++i) val[i + 1] = val[i] * 16 + xd_val(d[i]);
  u64 cp = val[nd];
  w_u(b, nd + 1, c17_pre, c17_npre, o);
  OBS(o[0]); OBS(o[1]);
  if (is_scalar(cp)) {
    CHECK(o[0] == 1, "unescape_u returns normally for a scalar value");
    check_string(o, e, u8_enc(cp, e));
  } else {
    CHECK(o[0] == 2, "unescape_u throws parse_error for surrogates and values above U+10FFFF");
    check_string(o, e, 0);                        /* nothing appended */
  }
  REACH(nd == 4 && first == 'u' && is_scalar(cp) && cp > 0x7FF, "\\uXXXX with a 3-byte encoding");
  REACH(nd == 4 && !is_scalar(cp), "\\uXXXX surrogate");
  REACH(nd == 8 && first == 'U' && is_scalar(cp) && cp > 0xFFFF, "\\UXXXXXXXX with a 4-byte encoding");
  REACH(nd == 8 && cp > 0x7fffffffULL, "\\UXXXXXXXX with the top bit set");
  REACH(nd == 8 && cp >= 0xD800 && cp <= 0xDFFF, "\\U0000DXXX surrogate");
  REACH(nd == 8 && cp == 0x110000, "\\U00110000");
  REACH(nd == 2 && cp > 0x7F, "two digits, 2-byte encoding");
}
#endif

/* ============================================================================================== unescape_j */
#if defined(C17_J) || defined(C17_JP)
#ifdef C17_JP
#define C17_LEAD 1      /* the grammar starts at the backslash */
#define C17_CALL w_j_parse
#else
#define C17_LEAD 0      /* the action input starts at the first 'u' */
#define C17_CALL w_j
#endif
/* bytes allocated after the matched text (symbolic content).  unescape_j forms and compares pointers up to 2 bytes past the
 * end of its match (b + 6 < in.end(), b += 6); with fewer than 2 bytes after the match these are outside the buffer (CBMC:
 * "pointer outside object bounds"; invisible to ASan/UBSan).  See ASSUMPTIONS in props/C17.py. */
#ifndef C17_SLACK
#define C17_SLACK 2
#endif
#ifndef C17_MAXE
#define C17_MAXE 3      /* largest number of consecutive escapes */
#endif
/* exact-size buffer; under CBMC one object of constant size per number of escapes */
static u8 *j_alloc(u64 ne, u64 n) {
#ifdef __CPROVER__
  u8 *p = 0;
  for (u64 k = 1; k <= C17_MAXE; ++k) if (ne == k) p = malloc(6 * k - 1 + C17_LEAD + C17_SLACK);
  __CPROVER_assume(p != 0);
  return p;
#else
  return (u8 *)exact_alloc(n);
#endif
}
static void harness(void) {
  u64 o[18], e[4 * C17_MAXE + 4], d[4 * C17_MAXE], v[C17_MAXE + 1], cls[C17_MAXE];
  draw_prefix();
  u64 ne = IN(1, C17_MAXE);                       /* number of consecutive \uXXXX escapes */
#ifdef C17_NE
  ASSUME(ne == C17_NE);                           /* CBMC slice: one query per number of escapes */
#endif
  for (u64 i = 0; i < C17_MAXE; ++i) cls[i] = IN(0, 2);
  for (u64 i = 0; i < 4 * C17_MAXE; ++i) d[i] = IN(0, 21);
  u64 slack[2]; slack[0] = IN_BYTE(); slack[1] = IN_BYTE();
  /* cls only steers the random (translation validation) runs towards surrogates; cls == 0 leaves every digit free */
  for (u64 i = 0; i < C17_MAXE; ++i) {
    if (cls[i] == 1) { d[4 * i] = 13; d[4 * i + 1] = 8 + (d[4 * i + 1] & 3); }     /* d8xx..dbxx */
    if (cls[i] == 2) { d[4 * i] = 19; d[4 * i + 1] = 18 + (d[4 * i + 1] & 3); }    /* DCxx..DFxx */
  }
  u64 n = 6 * ne - 1 + C17_LEAD;
  u8 *b = j_alloc(ne, n + C17_SLACK);          /* exact size: any access past the match (+ C17_SLACK) is an error */
  for (u64 i = 0; i < C17_MAXE; ++i) if (i < ne) {
    u64 p = 6 * i + C17_LEAD;                    /* position of the 'u' of escape i */
    if (p > 0) b[p - 1] = '\\';
    b[p] = 'u';
    for (u64 j = 0; j < 4; ++j) b[p + 1 + j] = (u8)c17_xd[d[4 * i + j]];
  }
  for (u64 i = 0; i < 2; ++i) if (i < C17_SLACK) b[n + i] = (u8)slack[i];
  for (u64 i = 0; i < C17_MAXE; ++i) v[i] = ((xd_val(d[4 * i]) * 16 + xd_val(d[4 * i + 1])) * 16 + xd_val(d[4 * i + 2])) * 16 + xd_val(d[4 * i + 3]);
  v[C17_MAXE] = 0;
  /* expected: left to right; a high surrogate directly followed by a low surrogate is one supplementary code point
   * (Table 3-5), every other value stands for itself and must be a scalar value */
  u64 el = 0, i = 0; int lone = 0, pairs = 0;
  for (u64 k = 0; k < C17_MAXE; ++k) if (i < ne) {
    u64 cp;
    if (is_high(v[i]) && i + 1 < ne && is_low(v[i + 1])) { cp = 0x10000 + (v[i] - 0xD800) * 0x400 + (v[i + 1] - 0xDC00); i += 2; pairs++; }
    else { cp = v[i]; i += 1; }
    if (!is_scalar(cp)) lone = 1;
    if (!lone) el += u8_enc(cp, e + el);
  }
  C17_CALL(b, n, c17_pre, c17_npre, o);
  OBS(o[0]); if (o[0] == 1) OBS(o[1]);
  if (lone) {
    CHECK(o[0] == 2, "unescape_j throws parse_error when some escape is a lone surrogate");
  } else {
    CHECK(o[0] == 1, "unescape_j succeeds when every surrogate is part of a high/low pair");
    check_string(o, e, el);
  }
#define NE_IS(k) (ne == (k))
#ifdef C17_NE
#define HAS_NE(k) (C17_NE == (k))
#else
#define HAS_NE(k) ((k) <= C17_MAXE)
#endif
#if HAS_NE(1)
  REACH(ne == 1 && !lone && el == 3, "one BMP escape, 3-byte encoding");
  REACH(ne == 1 && lone && is_high(v[0]), "lone high surrogate at the end rejected");
  REACH(ne == 1 && lone && is_low(v[0]), "lone low surrogate rejected");
#endif
#if HAS_NE(2)
  REACH(ne == 2 && !lone && pairs == 1 && el == 4, "surrogate pair combined into one 4-byte encoding");
  REACH(ne == 2 && lone && is_high(v[0]) && !is_low(v[1]) && is_scalar(v[1]), "high surrogate followed by a BMP escape rejected");
  REACH(ne == 2 && lone && is_high(v[0]) && is_high(v[1]), "two high surrogates rejected");
  REACH(ne == 2 && !lone && pairs == 0 && el == 2, "two ASCII escapes encoded individually");
#endif
#if HAS_NE(3)
  REACH(ne == 3 && !lone && pairs == 1 && is_high(v[0]) && el == 7, "pair followed by a BMP escape");
  REACH(ne == 3 && !lone && pairs == 1 && is_high(v[1]) && el == 7, "BMP escape followed by a pair");
  REACH(ne == 3 && lone && pairs == 1 && is_low(v[2]), "pair followed by a lone low surrogate rejected");
  REACH(ne == 3 && lone && is_high(v[0]) && is_high(v[1]) && is_low(v[2]), "high, high, low rejected (first high is alone)");
  REACH(ne == 3 && !lone && pairs == 0 && el == 9 && c17_npre == 3, "three 3-byte escapes after a 3-byte prefix");
#endif
#if HAS_NE(4)
  REACH(ne == 4 && !lone && pairs == 2 && el == 8, "two surrogate pairs");
  REACH(ne == 4 && !lone && pairs == 1 && is_high(v[1]) && el == 10, "BMP, pair, BMP");
  REACH(ne == 4 && lone && pairs == 1 && is_high(v[0]) && is_high(v[2]) && !is_low(v[3]), "pair followed by a lone high surrogate rejected");
  REACH(ne == 4 && !lone && pairs == 0 && el == 12 && c17_npre == 3, "four 3-byte escapes after a 3-byte prefix");
#endif
}
#endif
