/* c05_perr_spec.h — constants shared by the wrapper TU (harness/c05_perr.cpp) and the C harness (harness/c05_perr.c) of
 * props/C05_perr.py, and the layout of the observation record the wrappers fill in.
 *
 * The C harness side also holds the SPECIFICATION of the message format, written from the property text
 *     what() == source ":" line ":" column ": " message          (line, column: decimal, no sign, no leading zero)
 * and not from parse_error*.hpp / position.hpp: decimal numerals are checked by READING them back (value = value * 10 + digit),
 * never by formatting, so that the oracle shares no arithmetic with the code under test.
 */
#ifndef C05_PERR_SPEC_H
#define C05_PERR_SPEC_H

/* messages of the rules that carry  static constexpr const char* error_message  */
#define C05P_MSG_M "custom msg"      /* c05p_rm, c05p_gm (guarded rule) */
#define C05P_MSG_I "inner!"          /* c05p_ri / c05p_bm: the rule blamed by the INNER exception */
#define C05P_MSG_DEFAULT_PREFIX "parse error matching "

/* observation record (unsigned long[C05P_REC]) written by vfp::record() for one caught parse_error */
#define R_WLEN 0    /* strlen( what() ) */
#define R_MOFF 1    /* message().data() - what() */
#define R_MLEN 2    /* message().size() */
#define R_POFF 3    /* position_string().data() - what() */
#define R_PLEN 4    /* position_string().size() */
#define R_BYTE 5    /* position_object().byte */
#define R_LINE 6    /* position_object().line */
#define R_COL 7     /* position_object().column */
#define R_SLEN 8    /* position_object().source.size() */
#define R_SRC 9     /* R_SRC + i: source[ i ], i < C05P_MAXSRC (0xffff beyond the size) */
#define C05P_MAXSRC 4
#define C05P_REC 13

/* out[] of every wrapper */
#define O_KIND 0        /* bit 0: a parse_error was caught, bit 1: the same object is-a std::nested_exception, bit 2: an exception that is
                           not a parse_error was thrown, bit 3: the call returned normally */
#define K_PERR 1
#define K_NESTED 2
#define K_OTHER 4
#define K_RETURNED 8
#define O_NPTR 1        /* nested_ptr() is non-null */
#define O_INNER 2       /* what std::rethrow_exception( nested_ptr() ) throws: bit 0 foreign, bit 1 parse_error, bit 2 anything else,
                           bit 3: its address is the address of the exception that was being handled */
#define I_FOREIGN 1
#define I_PERR 2
#define I_OTHER 4
#define I_SAME 8
#define O_INNER_ID 3    /* id of the foreign exception */
#define O_RESULT 4      /* parse wrappers: 0 false, 1 true (only with K_RETURNED) */
#define O_CONSUMED 5    /* parse wrappers: bytes consumed when the call returned */
#define O_OUTER 8       /* record of the (outer) parse_error */
#define O_INREC (O_OUTER + C05P_REC)   /* record of the inner parse_error */
#define C05P_OUT (O_INREC + C05P_REC)

/* what() texts are copied to txt[0 .. C05P_TXT) (outer) and txt[C05P_TXT .. 2*C05P_TXT) (inner), zero-filled after the end */
#define C05P_TXT 48

#endif
