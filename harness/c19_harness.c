/* c19_harness.c — C side of the C19 check (error-reporting helpers of memory_input), one end-of-line policy per build:
 *   C19_POL   0 lf, 1 cr, 2 crlf, 3 lf_crlf, 4 cr_crlf        C19_W  wrapper of that policy (c19_common.hpp)
 *   C19_N     maximal number of input bytes                      C19_CMAX  largest initial counter value
 *
 * Oracle, independent of the library: the data is split into lines front to back with the policy's line endings exactly as
 * the eol rule recognises them (lf "\n"; cr "\r"; crlf "\r\n"; lf_crlf "\n" or "\r\n"; cr_crlf "\r\n" or "\r"); the line
 * containing the position k (0 <= k <= n) is the one with  start <= k < start of the next line  (a position inside a
 * two-byte line ending belongs to the line it terminates; k == n belongs to the last, possibly empty, line);
 *   at(p) = k, begin_of_line(p) = start of that line, end_of_line(p) = end of its content (in front of the line ending, or n),
 *   line_at(p) = exactly these bytes; every returned pointer lies inside [begin, end] of the data.
 */
#ifdef C19_AFTER
#define VF_ALPHABET "aab\n\n"
#else
#define VF_ALPHABET "ab\n\r\n\r"
#endif
#define VF_STRING_SELF_T S_class_std____cxx11__basic_string
#include "verif.h"

#ifndef VF_REAL
/* the inputerator constructor asserts line != 0 and column != 0; the harness only draws such values, so this is checked unreachable */
void x___assert_fail(Pu8 a, Pu8 b, u32 c, Pu8 d) { (void)a; (void)b; (void)c; (void)d; __VERIFIER_trap(); }
#endif

#ifndef C19_CMAX
#define C19_CMAX (1ULL << 40)
#endif
#if C19_POL == 1 || C19_POL == 4
#define C19_CH '\r'
#else
#define C19_CH '\n'
#endif

static u8 *buf;
static u64 n, k, ib, il, ic;

/* length of the line ending the policy's eol rule matches at offset i (0: none) */
static u64 eol_len(u64 i) {
  if (i >= n) return 0;
  int crlf = buf[i] == '\r' && i + 1 < n && buf[i + 1] == '\n';
#if C19_POL == 0
  return buf[i] == '\n';
#elif C19_POL == 1
  return buf[i] == '\r';
#elif C19_POL == 2
  return crlf ? 2 : 0;
#elif C19_POL == 3
  return buf[i] == '\n' ? 1 : crlf ? 2 : 0;
#else
  return crlf ? 2 : buf[i] == '\r';
#endif
}
/* the line containing position pos: content is buf[*bol .. *eol) */
static void split(u64 pos, u64 *bol, u64 *eol) {
  u64 L = 0, E = n, i = 0;
  for (u64 it = 0; it < C19_N; ++it) {
    if (i >= n) break;
    u64 len = eol_len(i);
    if (len) {
      if (pos < i + len) { E = i; break; }
      L = i + len; i += len;
    } else i++;
  }
  *bol = L; *eol = E;
}
/* the two ingredients of the implementation's notion of a line, described on the data alone (used for the known-finding predicates only) */
static u64 after_last_ch(u64 pos) { u64 r = 0; for (u64 i = 0; i < C19_N; ++i) if (i < pos && buf[i] == C19_CH) r = i + 1; return r; }
static int has_ch_before(u64 pos) { int r = 0; for (u64 i = 0; i < C19_N; ++i) if (i < pos && buf[i] == C19_CH) r = 1; return r; }
static u64 first_eol_from(u64 pos) { u64 r = n; for (u64 i = C19_N; i-- > 0;) if (i >= pos && i < n && eol_len(i)) r = i; return r; }

static u64 sb, se;

static void check1(const u64 *o) {
  s64 at = (s64)o[3], bol = (s64)o[4];
  CHECK(at >= 0 && at <= (s64)n, "at() points into [begin, end] of the data");
  CHECK(at == (s64)k, "at() points to the byte at the position");
  CHECK(bol >= 0 && bol <= (s64)n, "begin_of_line() points into [begin, end] of the data");
  CHECK(bol == (s64)sb, "begin_of_line() is the start of the line containing the position");
  CHECK(o[8] == 1, "end_of_line() / line_at() can be called (at() is inside the data)");
  if (o[8] == 1) {
    s64 eol = (s64)o[5], ld = (s64)o[6];
    CHECK(eol >= 0 && eol <= (s64)n, "end_of_line() points into [begin, end] of the data");
    CHECK(eol == (s64)se, "end_of_line() is the end of the line containing the position, in front of its line ending");
    CHECK(ld >= 0 && ld <= (s64)n && (u64)ld + o[7] <= n && o[7] <= n, "line_at() lies inside the data");
    CHECK(ld == (s64)sb && o[7] == se - sb, "line_at() returns exactly the bytes of the line containing the position");
  }
}

static void harness(void) {
  static u64 o[22];
  n = IN(0, C19_N);
  buf = (u8 *)exact_alloc(n);
  for (u64 i = 0; i < C19_N; ++i) { u8 v = IN_BYTE(); if (i < n) buf[i] = v; }
  k = IN(0, n);
  u64 j = IN(0, n);   /* where the input stands when the helpers are asked about the position taken at k */
  ib = IN(0, C19_CMAX);
  il = IN(1, C19_CMAX);
  ic = IN(1, C19_CMAX);
#if C19_DEFAULT_COUNTERS
  ASSUME(ib == 0 && il == 1 && ic == 1);
#endif
#ifdef C19_AFTER
  /* the position is where a real run (limit_bytes window, predicate, rewinding choice, must<>) started at offset j stopped */
  C19_W(buf, n, j, ib, il, ic, o);
  CHECK(o[10] <= n, "the run stops inside the data");
  k = o[10] <= n ? o[10] : n;
  split(k, &sb, &se);
  check1(o);
  OBS(o[0]); OBS(o[1]); OBS(o[2]); OBS(o[3]); OBS(o[4]); OBS(o[5]); OBS(o[6]); OBS(o[7]); OBS(o[8]); OBS(o[9]); OBS(o[10]);
  REACH(o[9] == 2 && se > k + 1 && sb < k, "run ended by a global failure inside the byte window, the line continues beyond the window");
  REACH(o[9] == 1 && k == j + 2, "run succeeded through the window");
  REACH(o[9] == 2 && k == j + 2 && k < n, "window exhausted: the limiter itself raises");
  REACH(o[9] == 0, "run failed locally");
  REACH(o[9] == 2 && sb > 0 && ic != 1, "global failure on a later line, non-default initial column");
#else
  split(k, &sb, &se);
  /* D11: at() ignores a non-zero initial byte; begin_of_line() subtracts column - 1, which reaches in front of the data when the
   * position is on the first line of an input constructed with an initial column other than 1 */
#define C19_D11 (ib != 0 || (ic != 1 && !has_ch_before(k)))
  /* C19_EOL2: begin_of_line() trusts the column, i.e. lines as counted by the single character Eol::ch, end_of_line() scans forward
   * from the position with the eol rule: wherever these two disagree with the lines of the eol rule (only possible for the policies
   * with a two-byte line ending: lone LF under crlf, line after CR LF under cr_crlf, position between CR and LF) */
#define C19_EOL2 (after_last_ch(k) != sb || first_eol_from(k) != se)
#ifdef KF_EXCLUDE_D11
  KNOWN_EXCLUDE(C19_D11);
#endif
#ifdef KF_EXCLUDE_C19_EOL2
  KNOWN_EXCLUDE(C19_EOL2);
#endif
#ifdef KF_ONLY_D11
  KNOWN_ONLY(C19_D11);
#endif
#ifdef KF_ONLY_C19_EOL2
  KNOWN_ONLY(C19_EOL2);
#endif
  C19_W(buf, n, k, j, ib, il, ic, o);
  CHECK(o[0] == o[9] && o[1] == o[10] && o[2] == o[11], "eager and lazy position() are identical");
  check1(o);
  check1(o + 9);
  OBS(o[0]); OBS(o[1]); OBS(o[2]); OBS(o[3]); OBS(o[4]); OBS(o[5]); OBS(o[6]); OBS(o[7]); OBS(o[8]);
  OBS(o[9]); OBS(o[10]); OBS(o[11]); OBS(o[12]); OBS(o[13]); OBS(o[14]); OBS(o[15]); OBS(o[16]); OBS(o[17]);
#if defined(KF_ONLY_D11) || defined(KF_ONLY_C19_EOL2)
  REACH(1, "the known failing case is reachable");
#else
  REACH(k == n && n > 0 && sb < k && has_ch_before(k), "position at the very end, behind a line ending, in a non-empty last line");
  REACH(j < k && se > k, "input stands before the queried position");
  REACH(j > k && sb < k, "input stands behind the queried position");
  REACH(k < n && sb > 0 && sb <= k && se >= k && se < n, "position in a line that has a predecessor and a line ending");
  REACH(k == n && sb == n && n > 0, "position at the very end directly behind a line ending (empty last line)");
#if !C19_DEFAULT_COUNTERS
  REACH(il != 1 && ic != 1 && sb > 0, "non-default initial line and column");
#endif
#if C19_POL >= 2
  REACH(se + 2 <= n && k < se && eol_len(se) == 2, "the line ends with CR LF");
#endif
#endif
#endif /* C19_AFTER */
}
