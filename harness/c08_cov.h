/* c08_cov.h — harness side of the C08 coverage check: expected counters (filled by the generated reference semantics),
 * action verdict table, container-model callbacks, comparison with the flattened coverage_result (layout: c08_cov.hpp).
 *
 * The generated harness defines before including this file:
 *   COV_NR                      number of rule types of the grammar (structural model of the generator)
 *   cov_kid[COV_NR * COV_NR]    cov_kid[i * COV_NR + j] != 0  <=>  rule j is a direct sub-rule (subs_t) of rule i
 *   cov_nkids[COV_NR]           number of distinct direct sub-rules of rule i
 */
#ifndef C08_COV_H
#define C08_COV_H

enum { C_START = 0, C_SUCCESS = 1, C_FAILURE = 2, C_UNWIND = 3, C_RAISE = 4, C_RAISE_NESTED = 5 };

static u64 cov_exp_rule[COV_NR * 6];
static u64 cov_exp_br[COV_NR * COV_NR * 6];
static unsigned cov_frames, cov_maxdepth_open, cov_at_missing;

/* one hook event of rule t whose enclosing frame belongs to rule par (-1: none).  The enclosing rule is a static argument of
 * every call site of the reference semantics — no stack is kept on this side. */
static void cnt(int kind, int t, int par) {
  cov_exp_rule[t * 6 + kind]++;
  if (par >= 0) cov_exp_br[(par * COV_NR + t) * 6 + kind]++;
  if (kind == C_START) cov_frames++;
}

/* verdict of actions: 0 veto (bool actions), 1 accept, 2 throw a foreign exception; per identified rule and start position */
#ifndef COV_VETO_MAX
#define COV_VETO_MAX 0
#endif
#define COV_VSLOTS 12
static u8 T_veto[COV_VSLOTS][SP_N + 1];
static unsigned cov_vslot(u32 rule) { return rule >= 150 ? 8 + ((rule - 150) & 3) : rule >= 100 ? 4 + ((rule - 100) & 3) : (rule & 3); }
static int sp_veto(u32 rule, u64 begin) { return T_veto[cov_vslot(rule)][begin <= SP_N ? begin : 0]; }
u32 x_verif_veto(u32 rule, u64 begin, u64 end) { (void)end; return (u32)sp_veto(rule, begin); }

/* std::map::at on a missing key throws std::out_of_range in the real library; the stand-in map reports it here first */
/* (a solver-side check only: the genuine std::map of the real build has no such callback — natively both builds show the
 * consequence, an exception that is not a parse outcome, through the wrapper's out[0] == 9) */
void x_verif_map_at_missing(void) {
  cov_at_missing++;
#ifdef __CPROVER__
  CHECK(0, "std::map::at is never asked for a missing key (every rule met at run time was inserted by visit<>, every branch by subs_t)");
  __CPROVER_assume(0);   /* the path has failed; what the code does after the stand-in exception is not explored by the solver (it is run natively) */
#endif
}
void x_verif_capacity_exceeded(void) {
  CHECK(0, "stand-in container capacity suffices for every run within the bounds");
#ifdef __CPROVER__
  __CPROVER_assume(0);
#endif
}

static void cov_setup(void) {
  for (unsigned i = 0; i < COV_NR * 6; ++i) cov_exp_rule[i] = 0;
  for (unsigned i = 0; i < COV_NR * COV_NR * 6; ++i) cov_exp_br[i] = 0;
  cov_frames = 0; cov_at_missing = 0;
  for (int r = 0; r < COV_VSLOTS; ++r) for (u64 p = 0; p <= SP_N; ++p) T_veto[r][p] = (u8)IN(0, COV_VETO_MAX);
#if COV_VETO_MAX == 0
  for (int r = 0; r < COV_VSLOTS; ++r) for (u64 p = 0; p <= SP_N; ++p) T_veto[r][p] = 1;   /* no action attached: table unused */
#endif
}

static u64 cov_rl[COV_NR * 7], cov_br[COV_NR * COV_NR * 7], cov_meta[COV_NR + 3];

static void cov_clear_out(void) {
  for (unsigned i = 0; i < COV_NR * 7; ++i) cov_rl[i] = 77;
  for (unsigned i = 0; i < COV_NR * COV_NR * 7; ++i) cov_br[i] = 77;
  for (unsigned i = 0; i < COV_NR + 3; ++i) cov_meta[i] = 77;
}

/* (1) balance, (2) truthfulness and structure of the map */
static void cov_compare(void) {
  CHECK(cov_meta[1] == 0, "every entry of the result map, rule or branch, satisfies start == success + failure + unwind (counted over the real map)");
  CHECK(cov_meta[0] == COV_NR, "the result map has exactly one entry per rule type of the grammar");
  for (unsigned i = 0; i < COV_NR; ++i) {
    const u64 *r = cov_rl + 7 * i;
    CHECK(r[0] == 1, "every rule of the grammar has an entry in the result map (visit<>)");
    CHECK(r[1] == r[2] + r[3] + r[4], "rule entry: start == success + failure + unwind");
    for (unsigned k = 0; k < 6; ++k) CHECK(r[1 + k] == cov_exp_rule[i * 6 + k], "rule counter equals the number of corresponding hook events of the reference protocol");
    u64 ndyn = 0;
    for (unsigned j = 0; j < COV_NR; ++j) if (cov_dyn[i * COV_NR + j] && cov_exp_br[(i * COV_NR + j) * 6 + C_RAISE] > 0) ndyn++;
    CHECK(cov_meta[3 + i] == cov_nkids[i] + ndyn, "a rule entry has exactly one branch entry per distinct direct sub-rule (subs_t), plus the rule blamed by a raise< T > that was reached");
    for (unsigned j = 0; j < COV_NR; ++j) {
      const u64 *b = cov_br + 7 * (i * COV_NR + j);
      CHECK(b[0] == ((cov_kid[i * COV_NR + j] || (cov_dyn[i * COV_NR + j] && cov_exp_br[(i * COV_NR + j) * 6 + C_RAISE] > 0)) ? 1 : 0), "branch entries exist exactly for the direct sub-rules (and for the rule blamed by a raise< T > that was reached)");
      CHECK(b[1] == b[2] + b[3] + b[4], "branch entry: start == success + failure + unwind");
      for (unsigned k = 0; k < 6; ++k) CHECK(b[1 + k] == cov_exp_br[(i * COV_NR + j) * 6 + k], "branch counter equals the number of corresponding hook events of the reference protocol under that parent");
    }
  }
  for (unsigned i = 0; i < COV_NR; ++i) OBS(cov_rl[7 * i + 1] * 1000003u + cov_rl[7 * i + 2] * 10007u + cov_rl[7 * i + 3] * 101u + cov_rl[7 * i + 4] * 7u + cov_rl[7 * i + 5] + cov_rl[7 * i + 6] * 13u);
  OBS(cov_meta[0]); OBS(cov_meta[1]); OBS(cov_meta[2]);
#ifndef __CPROVER__
  if (vf_mode == 1) {
    for (unsigned i = 0; i < COV_NR; ++i) {
      const u64 *r = cov_rl + 7 * i;
      printf("rule %u: present=%llu real %llu/%llu/%llu/%llu/%llu/%llu expected %llu/%llu/%llu/%llu/%llu/%llu branches=%llu\n", i, (unsigned long long)r[0],
             (unsigned long long)r[1], (unsigned long long)r[2], (unsigned long long)r[3], (unsigned long long)r[4], (unsigned long long)r[5], (unsigned long long)r[6],
             (unsigned long long)cov_exp_rule[i * 6], (unsigned long long)cov_exp_rule[i * 6 + 1], (unsigned long long)cov_exp_rule[i * 6 + 2], (unsigned long long)cov_exp_rule[i * 6 + 3],
             (unsigned long long)cov_exp_rule[i * 6 + 4], (unsigned long long)cov_exp_rule[i * 6 + 5], (unsigned long long)cov_meta[3 + i]);
      for (unsigned j = 0; j < COV_NR; ++j) {
        const u64 *b = cov_br + 7 * (i * COV_NR + j);
        const u64 *x = cov_exp_br + (i * COV_NR + j) * 6;
        if (b[0] || cov_kid[i * COV_NR + j]) printf("   branch %u: present=%llu real %llu/%llu/%llu/%llu/%llu/%llu expected %llu/%llu/%llu/%llu/%llu/%llu\n", j, (unsigned long long)b[0],
             (unsigned long long)b[1], (unsigned long long)b[2], (unsigned long long)b[3], (unsigned long long)b[4], (unsigned long long)b[5], (unsigned long long)b[6],
             (unsigned long long)x[0], (unsigned long long)x[1], (unsigned long long)x[2], (unsigned long long)x[3], (unsigned long long)x[4], (unsigned long long)x[5]);
      }
    }
    printf("map size=%llu unbalanced=%llu stack=%llu\n", (unsigned long long)cov_meta[0], (unsigned long long)cov_meta[1], (unsigned long long)cov_meta[2]);
  }
#endif
}
#endif
