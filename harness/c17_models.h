/* c17_models.h — C models of the externals on the error-reporting path of contrib/unescape.hpp
 *     throw parse_error( "invalid escaped unicode code point", in );
 * Included by the C17 harness after verif.h.  Only the translated unit uses them: the real (g++) build runs the real
 * constructor and libstdc++, so translation validation compares these models with the real thing on every run.
 *
 * Real IR around them: __cxa_allocate_exception / __cxa_throw (lowered by ll2c to the pending-exception flag), the inline
 * std::string( const char* ) temporary and its destructor, unwinding through the action's frame (destructors) and the
 * wrapper's  catch( const parse_error& ).  Modelled: the parse_error constructor itself (message and position formatting
 * through std::ostringstream; identity and position of errors are the subject of C05/C19, not of C17).
 * The std::string externals (_M_append, _M_mutate, _M_create, __throw_length_error, operator delete) are modelled in
 * lib/models.h on the real SSO layout. */
#ifndef C17_MODELS_H
#define C17_MODELS_H
#ifndef VF_REAL
struct S_class_tao__pegtl__parse_error_template;
struct S_class_std____cxx11__basic_string;
struct S_class_tao__pegtl__internal__action_input;
struct S_class_std__runtime_error;

static unsigned c17_reported; /* number of parse_error objects constructed by the translated code */

/* parse_error_template< position >::parse_error_template( const std::string&, const internal::action_input< memory_input< lazy, lf_crlf, const char* > >& ) */
void x__ZN3tao5pegtl20parse_error_templateINS0_8positionEEC1INS0_8internal12action_inputINS0_12memory_inputILNS0_13tracking_modeE1ENS0_5ascii3eol7lf_crlfEPKcEEEEEERKNSt7__cxx1112basic_stringIcSt11char_traitsIcESaIcEEERKT_(
    struct S_class_tao__pegtl__parse_error_template *e, struct S_class_std____cxx11__basic_string *msg, struct S_class_tao__pegtl__internal__action_input *in) {
  (void)e; (void)msg; (void)in; c17_reported++;
}
/* referenced only from parse_error's destructors / vtable, which the lowered exception model never calls */
void x__ZNSt13runtime_errorD2Ev(struct S_class_std__runtime_error *e) { (void)e; }
u8 *x__ZNKSt13runtime_error4whatEv(struct S_class_std__runtime_error *e) { (void)e; return (u8 *)""; }
/* assert( in.size() == 1 ), assert( !in.empty() ), assert( ( in.size() + 1 ) % 6 == 0 ): documented preconditions of the
 * actions, established by the harness; reaching the failure branch is reported */
void x___assert_fail(u8 *a, u8 *b, u32 c, u8 *d) { (void)a; (void)b; (void)c; (void)d; __VERIFIER_trap(); }
#endif
#endif
