// common.hpp — harness-side helper types for wrapper TUs (nothing here lives in /repo).
//
// Every wrapper is  extern "C" __attribute__((noinline))  and exchanges only scalars and
// pointers to scalars with the C harness, so that the same C harness can drive the
// ll2c translation (under CBMC or natively) and the real g++ build.
#pragma once

#include <tao/pegtl.hpp>
#include <tao/pegtl/contrib/remove_first_state.hpp>
#include <tao/pegtl/contrib/state_control.hpp>

namespace vf
{
   using namespace tao::pegtl;

   extern "C" {
   // behaviour table of symbolic sub-rules, defined on the C side.
   //   returns 0 local failure, 1 success, 2 raise verif_exc, 3 raise foreign_exc
   //   *np = position the cursor is left at (>= pos)
   int verif_sym( int k, unsigned long pos, int a, int m, unsigned long* np );
   // event log (control hooks, actions, state life cycle), defined on the C side
   void verif_event( int kind, int rule, unsigned long a, unsigned long b );
   // verdict of bool-returning actions
   int verif_veto( int rule, unsigned long begin, unsigned long end );
   }

   enum ev : int
   {
      EV_START = 1,
      EV_SUCCESS = 2,
      EV_FAILURE = 3,
      EV_UNWIND = 4,
      EV_RAISE = 5,
      EV_APPLY = 6,
      EV_APPLY0 = 7,
      EV_STATE_CTOR = 8,
      EV_STATE_SUCCESS = 9,
      EV_STATE_DTOR = 10,
      EV_SYM = 11
   };

   struct verif_exc
   {
      int id;
      unsigned long byte;
      unsigned long line;
      unsigned long column;
   };

   struct foreign_exc
   {
      int id;
   };

   // rule identities used in logs and in thrown verif_exc; wrappers may specialise further
   template< typename Rule >
   struct rid
   {
      static constexpr int value = -1;
   };

   template< int K >
   struct sym
   {
      using rule_t = sym;
      using subs_t = empty_list;

      template< apply_mode A,
                rewind_mode M,
                template< typename... >
                class Action,
                template< typename... >
                class Control,
                typename ParseInput,
                typename... States >
      [[nodiscard]] static bool match( ParseInput& in, States&&... /*unused*/ )
      {
         unsigned long np = 0;
         const unsigned long pos = in.byte();
         const int r = verif_sym( K, pos, int( A ), int( M ), &np );
         in.bump_in_this_line( np - pos );  // combinators never look at bytes; byte-level bumping is C06's subject
         if( r == 2 ) {
            throw verif_exc{ 1000 + K, in.byte(), 0, 0 };
         }
         if( r == 3 ) {
            throw foreign_exc{ 2000 + K };
         }
         return r == 1;
      }
   };

   // the same symbolic sub-rule with the SIMPLE rule interface ( match( in ) only ): such rules are called by match_no_control() without a
   // rewind guard and without modes, so it must not move the cursor when it fails (reported as rewind_mode::required); the apply mode is not
   // known to it and logged as 7
   template< int K >
   struct syml
   {
      using rule_t = syml;
      using subs_t = empty_list;

      template< typename ParseInput >
      [[nodiscard]] static bool match( ParseInput& in )
      {
         unsigned long np = 0;
         const unsigned long pos = in.byte();
         const int r = verif_sym( K, pos, 7, int( rewind_mode::required ), &np );
         in.bump_in_this_line( np - pos );
         if( r == 2 ) {
            throw verif_exc{ 1000 + K, in.byte(), 0, 0 };
         }
         if( r == 3 ) {
            throw foreign_exc{ 2000 + K };
         }
         return r == 1;
      }
   };

   template< int K >
   struct rid< syml< K > >
   {
      static constexpr int value = K;
   };

   // symbolic sub-rule whose behaviour may also depend on where its (sub-)input ends: for rematch<> / minus<>
   extern "C" int verif_sym2( int k, unsigned long pos, unsigned long end, int a, int m, unsigned long* np );

   template< int K >
   struct sym2
   {
      using rule_t = sym2;
      using subs_t = empty_list;

      template< apply_mode A,
                rewind_mode M,
                template< typename... >
                class Action,
                template< typename... >
                class Control,
                typename ParseInput,
                typename... States >
      [[nodiscard]] static bool match( ParseInput& in, States&&... /*unused*/ )
      {
         unsigned long np = 0;
         const unsigned long pos = in.byte();
         const int r = verif_sym2( K, pos, pos + in.size( 0 ), int( A ), int( M ), &np );
         in.bump_in_this_line( np - pos );
         if( r == 2 ) {
            throw verif_exc{ 1100 + K, in.byte(), 0, 0 };
         }
         if( r == 3 ) {
            throw foreign_exc{ 2100 + K };
         }
         return r == 1;
      }
   };

   template< int K >
   struct rid< sym< K > >
   {
      static constexpr int value = K;
   };

   template< int K >
   struct rid< sym2< K > >
   {
      static constexpr int value = 10 + K;
   };

   // control that replaces parse_error construction (std::string formatting) by a POD throw;
   // documented customisation point, everything else is normal<>
   template< typename Rule >
   struct vcontrol
      : normal< Rule >
   {
      template< typename ParseInput, typename... States >
      [[noreturn]] static void raise( const ParseInput& in, States&&... /*unused*/ )
      {
         if constexpr( ParseInput::tracking_mode_v == tracking_mode::eager ) {
            throw verif_exc{ rid< Rule >::value, in.byte(), in.line(), in.column() };
         }
         else {
            throw verif_exc{ rid< Rule >::value, in.byte(), 0, 0 };
         }
      }

      // try_catch_*_raise_nested: the new exception carries 5000 + rule id and the ambient (start) position;
      // std::throw_with_nested itself is not modelled
      template< typename Ambient, typename... States >
      [[noreturn]] static void raise_nested( const Ambient& am, States&&... /*unused*/ )
      {
         throw verif_exc{ 5000 + rid< Rule >::value, (unsigned long)am.byte, (unsigned long)am.line, (unsigned long)am.column };
      }
   };

   // void actions attached to every rule (C01: outcome independent of attached void actions)
   template< typename Rule >
   struct void_apply
   {
      template< typename ActionInput, typename... States >
      static void apply( const ActionInput& in, States&&... /*unused*/ )
      {
         verif_event( EV_APPLY, rid< Rule >::value, (unsigned long)( in.begin() - in.input().begin() ), (unsigned long)( in.end() - in.input().begin() ) );
      }
   };

   template< typename Rule >
   struct void_apply0
   {
      template< typename... States >
      static void apply0( States&&... /*unused*/ )
      {
         verif_event( EV_APPLY0, rid< Rule >::value, 0, 0 );
      }
   };

   using eager_in = memory_input< tracking_mode::eager, eol::lf_crlf, const char* >;
   using lazy_in = memory_input< tracking_mode::lazy, eol::lf_crlf, const char* >;
   // an input that grants no more look-ahead than a rule asks for: size( amount ) == min( amount, remaining ), the least a buffered input
   // (buffer_input::size = require( amount ), then the buffered byte count) guarantees; everything else as eager_in
   struct stingy_in
      : eager_in
   {
      using eager_in::eager_in;
      [[nodiscard]] std::size_t size( const std::size_t amount ) const noexcept
      {
         const std::size_t r = eager_in::size( amount );
         return ( amount < r ) ? amount : r;
      }
      [[nodiscard]] bool empty() const noexcept { return size( 1 ) == 0; }
   };

   // out[0] result: 0 local failure, 1 success, 2 verif_exc, 3 foreign_exc
   // out[1] byte after; out[2] exception id; out[3] exception byte; out[4] line after; out[5] column after
   // out[6] exception line; out[7] exception column
   template< typename Rule, apply_mode A, rewind_mode M, template< typename... > class Action, template< typename... > class Control, typename Input = eager_in >
   inline void run( const char* b, unsigned long n, unsigned long start, unsigned long* out )
   {
      Input in( b, b + n, "" );
      in.bump_in_this_line( start );
      out[ 2 ] = 0;
      out[ 3 ] = 0;
      out[ 6 ] = 0;
      out[ 7 ] = 0;
      try {
         out[ 0 ] = Control< Rule >::template match< A, M, Action, Control >( in );
      }
      catch( const verif_exc& e ) {
         out[ 0 ] = 2;
         out[ 2 ] = e.id;
         out[ 3 ] = e.byte;
         out[ 6 ] = e.line;
         out[ 7 ] = e.column;
      }
      catch( const foreign_exc& e ) {
         out[ 0 ] = 3;
         out[ 2 ] = e.id;
      }
      out[ 1 ] = in.byte();
      if constexpr( Input::tracking_mode_v == tracking_mode::eager ) {
         out[ 4 ] = in.line();
         out[ 5 ] = in.column();
      }
      else {
         out[ 4 ] = 0;
         out[ 5 ] = 0;
      }
   }

   // the same run made from a destructor while an unrelated exception is propagating (a parse during stack unwinding: scope guards,
   // destructors that flush or log): everything the library does must be independent of std::uncaught_exceptions()
   struct unrelated_exc
   {
      int dummy;
   };

   template< typename Rule, apply_mode A, rewind_mode M, template< typename... > class Action, template< typename... > class Control, typename Input >
   struct run_in_dtor
   {
      const char* b;
      unsigned long n;
      unsigned long start;
      unsigned long* out;

      ~run_in_dtor()
      {
         run< Rule, A, M, Action, Control, Input >( b, n, start, out );
      }
   };

   template< typename Rule, apply_mode A, rewind_mode M, template< typename... > class Action, template< typename... > class Control, typename Input = eager_in >
   inline void run_unwinding( const char* b, unsigned long n, unsigned long start, unsigned long* out )
   {
      try {
         const run_in_dtor< Rule, A, M, Action, Control, Input > d{ b, n, start, out };
         throw unrelated_exc{ 1 };
      }
      catch( const unrelated_exc& ) {
      }
   }

   // ------------------------------------------------------------------ named rules, logging controls and actions (C04, C05, C08, C13)

   // a named grammar rule  `struct X : seq< R... > {}`  with identity 100+ID
   template< int ID, typename... Rules >
   struct named
      : seq< Rules... >
   {};

   template< int ID, typename... Rules >
   struct rid< named< ID, Rules... > >
   {
      static constexpr int value = 100 + ID;
   };

   // control that logs every hook of identified rules (sym<K>, named<ID,...>); with unwind()
   template< typename Rule >
   struct lcontrol
      : vcontrol< Rule >
   {
      static constexpr bool logged = ( rid< Rule >::value >= 0 );

      template< typename ParseInput, typename... States >
      static void start( const ParseInput& in, States&&... /*unused*/ ) noexcept
      {
         if constexpr( logged ) {
            verif_event( EV_START, rid< Rule >::value, in.byte(), 0 );
         }
         else if constexpr( !normal< Rule >::enable ) {
            verif_event( EV_START, 999, 0, 0 );
         }
      }

      template< typename ParseInput, typename... States >
      static void success( const ParseInput& in, States&&... /*unused*/ ) noexcept
      {
         if constexpr( logged ) {
            verif_event( EV_SUCCESS, rid< Rule >::value, in.byte(), 0 );
         }
         else if constexpr( !normal< Rule >::enable ) {
            verif_event( EV_SUCCESS, 999, 0, 0 );
         }
      }

      template< typename ParseInput, typename... States >
      static void failure( const ParseInput& /*unused*/, States&&... /*unused*/ ) noexcept
      {
         if constexpr( logged ) {
            verif_event( EV_FAILURE, rid< Rule >::value, 0, 0 );
         }
         else if constexpr( !normal< Rule >::enable ) {
            verif_event( EV_FAILURE, 999, 0, 0 );
         }
      }

      template< typename ParseInput, typename... States >
      static void unwind( const ParseInput& /*unused*/, States&&... /*unused*/ )
      {
         if constexpr( logged ) {
            verif_event( EV_UNWIND, rid< Rule >::value, 0, 0 );
         }
         else if constexpr( !normal< Rule >::enable ) {
            verif_event( EV_UNWIND, 999, 0, 0 );   // a hook for a rule this control is not enabled for (hidden internal rule) must never be called
         }
      }

      template< typename ParseInput, typename... States >
      [[noreturn]] static void raise( const ParseInput& in, States&&... st )
      {
         verif_event( EV_RAISE, rid< Rule >::value, 0, 0 );
         vcontrol< Rule >::raise( in, st... );
      }
   };

   // the same without unwind(): match() then takes no unwind guard
   template< typename Rule >
   struct lcontrol_nu
      : vcontrol< Rule >
   {
      static constexpr bool logged = ( rid< Rule >::value >= 0 );

      template< typename ParseInput, typename... States >
      static void start( const ParseInput& in, States&&... /*unused*/ ) noexcept
      {
         if constexpr( logged ) {
            verif_event( EV_START, rid< Rule >::value, in.byte(), 0 );
         }
         else if constexpr( !normal< Rule >::enable ) {
            verif_event( EV_START, 999, 0, 0 );
         }
      }

      template< typename ParseInput, typename... States >
      static void success( const ParseInput& in, States&&... /*unused*/ ) noexcept
      {
         if constexpr( logged ) {
            verif_event( EV_SUCCESS, rid< Rule >::value, in.byte(), 0 );
         }
         else if constexpr( !normal< Rule >::enable ) {
            verif_event( EV_SUCCESS, 999, 0, 0 );
         }
      }

      template< typename ParseInput, typename... States >
      static void failure( const ParseInput& /*unused*/, States&&... /*unused*/ ) noexcept
      {
         if constexpr( logged ) {
            verif_event( EV_FAILURE, rid< Rule >::value, 0, 0 );
         }
         else if constexpr( !normal< Rule >::enable ) {
            verif_event( EV_FAILURE, 999, 0, 0 );
         }
      }

      template< typename ParseInput, typename... States >
      [[noreturn]] static void raise( const ParseInput& in, States&&... st )
      {
         verif_event( EV_RAISE, rid< Rule >::value, 0, 0 );
         vcontrol< Rule >::raise( in, st... );
      }
   };

   template< typename ActionInput >
   inline unsigned long off_begin( const ActionInput& in )
   {
      return (unsigned long)( in.begin() - in.input().begin() );
   }

   template< typename ActionInput >
   inline unsigned long off_end( const ActionInput& in )
   {
      return (unsigned long)( in.end() - in.input().begin() );
   }

   // actions for identified rules; everything else behaves like nothing<>
   template< typename Rule, typename = void >
   struct act_void : nothing< Rule > {};
   template< typename Rule >
   struct act_void< Rule, std::enable_if_t< ( rid< Rule >::value >= 0 ) > >
   {
      template< typename ActionInput, typename... States >
      static void apply( const ActionInput& in, States&&... /*unused*/ )
      {
         verif_event( EV_APPLY, rid< Rule >::value, off_begin( in ), off_end( in ) );
         if( verif_veto( rid< Rule >::value, off_begin( in ), off_end( in ) ) == 2 ) {   // a void action cannot veto, but it can throw
            throw foreign_exc{ 3000 + rid< Rule >::value };
         }
      }
   };

   // bool apply: verdict from the harness: 0 veto, 1 accept, 2 throw a foreign exception
   template< typename Rule, typename = void >
   struct act_bool : nothing< Rule > {};
   template< typename Rule >
   struct act_bool< Rule, std::enable_if_t< ( rid< Rule >::value >= 0 ) > >
   {
      template< typename ActionInput, typename... States >
      static bool apply( const ActionInput& in, States&&... /*unused*/ )
      {
         verif_event( EV_APPLY, rid< Rule >::value, off_begin( in ), off_end( in ) );
         const int v = verif_veto( rid< Rule >::value, off_begin( in ), off_end( in ) );
         if( v == 2 ) {
            throw foreign_exc{ 3000 + rid< Rule >::value };
         }
         return v != 0;
      }
   };

   template< typename Rule, typename = void >
   struct act0_void : nothing< Rule > {};
   template< typename Rule >
   struct act0_void< Rule, std::enable_if_t< ( rid< Rule >::value >= 0 ) > >
   {
      template< typename... States >
      static void apply0( States&&... /*unused*/ )
      {
         verif_event( EV_APPLY0, rid< Rule >::value, 0, 0 );
         if( verif_veto( rid< Rule >::value, 0, 0 ) == 2 ) {
            throw foreign_exc{ 3000 + rid< Rule >::value };
         }
      }
   };

   template< typename Rule, typename = void >
   struct act0_bool : nothing< Rule > {};
   template< typename Rule >
   struct act0_bool< Rule, std::enable_if_t< ( rid< Rule >::value >= 0 ) > >
   {
      template< typename... States >
      static bool apply0( States&&... /*unused*/ )
      {
         verif_event( EV_APPLY0, rid< Rule >::value, 0, 0 );
         const int v = verif_veto( rid< Rule >::value, 0, 0 );
         if( v == 2 ) {
            throw foreign_exc{ 3000 + rid< Rule >::value };
         }
         return v != 0;
      }
   };

   // pseudo actions for the apply<> / apply0<> / if_apply<> rules, identity 500+ID
   template< int ID >
   struct pa
   {
      template< typename ActionInput, typename... States >
      static void apply( const ActionInput& in, States&&... /*unused*/ )
      {
         verif_event( EV_APPLY, 500 + ID, off_begin( in ), off_end( in ) );
      }

      template< typename... States >
      static void apply0( States&&... /*unused*/ )
      {
         verif_event( EV_APPLY0, 500 + ID, 0, 0 );
      }
   };

   template< int ID >
   struct pab
   {
      template< typename ActionInput, typename... States >
      static bool apply( const ActionInput& in, States&&... /*unused*/ )
      {
         verif_event( EV_APPLY, 500 + ID, off_begin( in ), off_end( in ) );
         const int v = verif_veto( 500 + ID, off_begin( in ), off_end( in ) );
         if( v == 2 ) {
            throw foreign_exc{ 3500 + ID };
         }
         return v != 0;
      }

      template< typename... States >
      static bool apply0( States&&... /*unused*/ )
      {
         verif_event( EV_APPLY0, 500 + ID, 0, 0 );
         const int v = verif_veto( 500 + ID, 0, 0 );
         if( v == 2 ) {
            throw foreign_exc{ 3500 + ID };
         }
         return v != 0;
      }
   };

   // must_if<> control (C05): rules 1 (sym<1>) and 101 (named<1,...>) raise on local failure, without message
   struct verrors
   {
      template< typename Rule >
      static constexpr const char* message = nullptr;

      template< typename Rule >
      static constexpr bool raise_on_failure = ( rid< Rule >::value == 1 ) || ( rid< Rule >::value == 101 );
   };

   template< typename Rule >
   using mi_control = typename tao::pegtl::must_if< verrors, lcontrol, false >::template control< Rule >;

   template< typename Rule >
   using sc_control = typename tao::pegtl::state_control< lcontrol >::template control< Rule >;

   // as coverage()/trace use it: the state object is passed LAST and rotated to the front by rotate_states_right (shuffle_states)
   template< typename Rule >
   using scr_control = typename tao::pegtl::state_control< lcontrol >::template type< Rule >;

   // shuffle_states used directly, in a run WITHOUT any state: its unwind() (found by SFINAE on the state list) must still reach the wrapped control
   template< typename Rule >
   using rot0_control = tao::pegtl::rotate_states_right< lcontrol< Rule > >;

   // remove_first_state: the wrapped control must see the same hooks without the first state
   template< typename Rule >
   using rf_control = tao::pegtl::remove_first_state< lcontrol< Rule > >;

   // ------------------------------------------------------------------ states and switchable action classes (C13)

   struct ostate
   {
      static constexpr int id = 9;
   };

   template< typename... States >
   struct first_sid
   {
      static constexpr int value = 0;
   };

   template< typename S, typename... States >
   struct first_sid< S, States... >
   {
      static constexpr int value = std::decay_t< S >::id;
   };

   // what an action sees of the state list: id of the first state + 16 * id of the second one (0: there is none)
   template< typename... States >
   struct sid_sig
   {
      static constexpr int value = first_sid< States... >::value;
   };

   template< typename S, typename... States >
   struct sid_sig< S, States... >
   {
      static constexpr int value = std::decay_t< S >::id + 16 * first_sid< States... >::value;
   };

   // a second state that only carries an identity (the order in which several new states are constructed is unspecified)
   template< int ID >
   struct qstate
   {
      static constexpr int id = ID;
   };

   // logging state: constructor / success / destructor
   template< int ID >
   struct vstate
   {
      static constexpr int id = ID;

      vstate()
      {
         verif_event( EV_STATE_CTOR, ID, 0, 0 );
      }

      template< typename ParseInput, typename... States >
      explicit vstate( const ParseInput& in, States&&... /*unused*/ )
      {
         verif_event( EV_STATE_CTOR, ID, in.byte(), first_sid< States... >::value );
      }

      vstate( const vstate& ) = delete;
      vstate& operator=( const vstate& ) = delete;

      ~vstate()
      {
         verif_event( EV_STATE_DTOR, ID, 0, 0 );
      }

      template< typename ParseInput, typename... States >
      void success( const ParseInput& in, States&&... /*unused*/ )
      {
         verif_event( EV_STATE_SUCCESS, ID, in.byte(), first_sid< States... >::value );
      }
   };

   // a state that is ONLY default-constructible (selects the second branch of state<> / change_state / change_action_and_state)
   template< int ID >
   struct vstate_d
   {
      static constexpr int id = ID;

      vstate_d()
      {
         verif_event( EV_STATE_CTOR, ID, 0, 0 );
      }

      vstate_d( const vstate_d& ) = delete;
      vstate_d& operator=( const vstate_d& ) = delete;

      ~vstate_d()
      {
         verif_event( EV_STATE_DTOR, ID, 0, 0 );
      }

      template< typename ParseInput, typename... States >
      void success( const ParseInput& in, States&&... /*unused*/ )
      {
         verif_event( EV_STATE_SUCCESS, ID, in.byte(), first_sid< States... >::value );
      }
   };

   // action class that reports which state it was handed and which action class it is (Tag)
   template< typename Rule, int Tag, typename = void >
   struct act_s : nothing< Rule > {};
   template< typename Rule, int Tag >
   struct act_s< Rule, Tag, std::enable_if_t< ( rid< Rule >::value >= 0 ) > >
   {
      template< typename... States >
      static void apply0( States&&... /*unused*/ )
      {
         verif_event( EV_APPLY0, rid< Rule >::value, sid_sig< States... >::value, Tag );
      }
   };

   template< typename Rule, apply_mode A, rewind_mode M, template< typename... > class Action, template< typename... > class Control, typename Input = eager_in >
   inline void run_st( const char* b, unsigned long n, unsigned long start, unsigned long* out )
   {
      Input in( b, b + n, "" );
      in.bump_in_this_line( start );
      ostate os;
      out[ 2 ] = 0;
      out[ 3 ] = 0;
      out[ 6 ] = 0;
      out[ 7 ] = 0;
      try {
         out[ 0 ] = Control< Rule >::template match< A, M, Action, Control >( in, os );
      }
      catch( const verif_exc& e ) {
         out[ 0 ] = 2;
         out[ 2 ] = e.id;
         out[ 3 ] = e.byte;
         out[ 6 ] = e.line;
         out[ 7 ] = e.column;
      }
      catch( const foreign_exc& e ) {
         out[ 0 ] = 3;
         out[ 2 ] = e.id;
      }
      out[ 1 ] = in.byte();
      out[ 4 ] = in.line();
      out[ 5 ] = in.column();
   }

   // ------------------------------------------------------------------ contrib/state_control.hpp (C08): a state object that sees every hook
   struct hstate
   {
      template< typename Rule >
      static constexpr bool enable = true;   // like coverage_state and the complete tracer: the state wants every rule, also hidden internal ones

      template< typename Rule >
      static constexpr bool lg = ( rid< Rule >::value >= 0 );

      template< typename Rule, typename ParseInput, typename... States >
      void start( const ParseInput& in, States&&... /*unused*/ ) { if constexpr( lg< Rule > ) verif_event( EV_START, 200 + rid< Rule >::value, in.byte(), 0 ); }
      template< typename Rule, typename ParseInput, typename... States >
      void success( const ParseInput& in, States&&... /*unused*/ ) { if constexpr( lg< Rule > ) verif_event( EV_SUCCESS, 200 + rid< Rule >::value, in.byte(), 0 ); }
      template< typename Rule, typename ParseInput, typename... States >
      void failure( const ParseInput& /*unused*/, States&&... /*unused*/ ) { if constexpr( lg< Rule > ) verif_event( EV_FAILURE, 200 + rid< Rule >::value, 0, 0 ); }
      template< typename Rule, typename ParseInput, typename... States >
      void unwind( const ParseInput& /*unused*/, States&&... /*unused*/ ) { if constexpr( lg< Rule > ) verif_event( EV_UNWIND, 200 + rid< Rule >::value, 0, 0 ); }
      template< typename Rule, typename ParseInput, typename... States >
      void raise( const ParseInput& /*unused*/, States&&... /*unused*/ ) { if constexpr( lg< Rule > ) verif_event( EV_RAISE, 200 + rid< Rule >::value, 0, 0 ); }
      template< typename Rule, typename Ambient, typename... States >
      void raise_nested( const Ambient& /*unused*/, States&&... /*unused*/ ) { if constexpr( lg< Rule > ) verif_event( EV_RAISE, 200 + rid< Rule >::value, 1, 0 ); }
      template< typename Rule, typename ParseInput, typename... States >
      void apply( const ParseInput& /*unused*/, States&&... /*unused*/ ) { if constexpr( lg< Rule > ) verif_event( EV_APPLY, 200 + rid< Rule >::value, 0, 0 ); }
      template< typename Rule, typename ParseInput, typename... States >
      void apply0( const ParseInput& /*unused*/, States&&... /*unused*/ ) { if constexpr( lg< Rule > ) verif_event( EV_APPLY0, 200 + rid< Rule >::value, 0, 0 ); }
   };

   template< typename Rule, apply_mode A, rewind_mode M, template< typename... > class Action, template< typename... > class Control, typename Input = eager_in >
   inline void run_hs( const char* b, unsigned long n, unsigned long start, unsigned long* out )
   {
      Input in( b, b + n, "" );
      in.bump_in_this_line( start );
      hstate hs;
      out[ 2 ] = 0;
      out[ 3 ] = 0;
      out[ 6 ] = 0;
      out[ 7 ] = 0;
      try {
         out[ 0 ] = Control< Rule >::template match< A, M, Action, Control >( in, hs );
      }
      catch( const verif_exc& e ) {
         out[ 0 ] = 2;
         out[ 2 ] = e.id;
         out[ 3 ] = e.byte;
         out[ 6 ] = e.line;
         out[ 7 ] = e.column;
      }
      catch( const foreign_exc& e ) {
         out[ 0 ] = 3;
         out[ 2 ] = e.id;
      }
      out[ 1 ] = in.byte();
      out[ 4 ] = in.line();
      out[ 5 ] = in.column();
   }

   // runs with extra states: (ostate, hstate) for the rotated state_control, (ostate) for remove_first_state
   template< typename Rule, apply_mode A, rewind_mode M, template< typename... > class Action, template< typename... > class Control, int NSTATES >
   inline void run_states( const char* b, unsigned long n, unsigned long start, unsigned long* out )
   {
      eager_in in( b, b + n, "" );
      in.bump_in_this_line( start );
      ostate os;
      hstate hs;
      out[ 2 ] = 0;
      out[ 3 ] = 0;
      out[ 6 ] = 0;
      out[ 7 ] = 0;
      try {
         if constexpr( NSTATES == 2 ) {
            out[ 0 ] = Control< Rule >::template match< A, M, Action, Control >( in, os, hs );
         }
         else {
            out[ 0 ] = Control< Rule >::template match< A, M, Action, Control >( in, os );
         }
      }
      catch( const verif_exc& e ) {
         out[ 0 ] = 2;
         out[ 2 ] = e.id;
         out[ 3 ] = e.byte;
         out[ 6 ] = e.line;
         out[ 7 ] = e.column;
      }
      catch( const foreign_exc& e ) {
         out[ 0 ] = 3;
         out[ 2 ] = e.id;
      }
      out[ 1 ] = in.byte();
      out[ 4 ] = in.line();
      out[ 5 ] = in.column();
   }

}  // namespace vf

#define VF_WRAP_HS2( name, ... ) \
   extern "C" __attribute__( ( noinline ) ) void name( const char* b, unsigned long n, unsigned long s, unsigned long* o ) { vf::run_states< __VA_ARGS__, 2 >( b, n, s, o ); }
#define VF_WRAP_OS( name, ... ) \
   extern "C" __attribute__( ( noinline ) ) void name( const char* b, unsigned long n, unsigned long s, unsigned long* o ) { vf::run_states< __VA_ARGS__, 1 >( b, n, s, o ); }


#define VF_WRAP_HS( name, ... ) \
   extern "C" __attribute__( ( noinline ) ) void name( const char* b, unsigned long n, unsigned long s, unsigned long* o ) { vf::run_hs< __VA_ARGS__ >( b, n, s, o ); }


#define VF_WRAP_ST( name, ... ) \
   extern "C" __attribute__( ( noinline ) ) void name( const char* b, unsigned long n, unsigned long s, unsigned long* o ) { vf::run_st< __VA_ARGS__ >( b, n, s, o ); }





#define VF_WRAP( name, ... ) \
   extern "C" __attribute__( ( noinline ) ) void name( const char* b, unsigned long n, unsigned long s, unsigned long* o ) { vf::run< __VA_ARGS__ >( b, n, s, o ); }

#define VF_WRAP_UNW( name, ... ) \
   extern "C" __attribute__( ( noinline ) ) void name( const char* b, unsigned long n, unsigned long s, unsigned long* o ) { vf::run_unwinding< __VA_ARGS__ >( b, n, s, o ); }

// lazy input: the four combinations with no action attached
#define VF_WRAP4L( name, ... )                                                                                                 \
   VF_WRAP( name##_ar, __VA_ARGS__, tao::pegtl::apply_mode::action, tao::pegtl::rewind_mode::required, tao::pegtl::nothing, vf::vcontrol, vf::lazy_in )  \
   VF_WRAP( name##_ao, __VA_ARGS__, tao::pegtl::apply_mode::action, tao::pegtl::rewind_mode::optional, tao::pegtl::nothing, vf::vcontrol, vf::lazy_in )  \
   VF_WRAP( name##_nr, __VA_ARGS__, tao::pegtl::apply_mode::nothing, tao::pegtl::rewind_mode::required, tao::pegtl::nothing, vf::vcontrol, vf::lazy_in ) \
   VF_WRAP( name##_no, __VA_ARGS__, tao::pegtl::apply_mode::nothing, tao::pegtl::rewind_mode::optional, tao::pegtl::nothing, vf::vcontrol, vf::lazy_in )

// the four apply/rewind combinations of one rule, with no action attached
#define VF_WRAP7( name, ... )                                                                                                  \
   VF_WRAP4( name, __VA_ARGS__ )                                                                                               \
   VF_WRAP( name##_pr, __VA_ARGS__, tao::pegtl::apply_mode::action, tao::pegtl::rewind_mode::required, vf::void_apply, vf::vcontrol )  \
   VF_WRAP( name##_po, __VA_ARGS__, tao::pegtl::apply_mode::action, tao::pegtl::rewind_mode::optional, vf::void_apply, vf::vcontrol )  \
   VF_WRAP( name##_qr, __VA_ARGS__, tao::pegtl::apply_mode::action, tao::pegtl::rewind_mode::required, vf::void_apply0, vf::vcontrol ) \
   VF_WRAP( name##_xr, __VA_ARGS__, tao::pegtl::apply_mode::nothing, tao::pegtl::rewind_mode::required, vf::void_apply, vf::vcontrol )  \
   VF_WRAP( name##_xo, __VA_ARGS__, tao::pegtl::apply_mode::nothing, tao::pegtl::rewind_mode::optional, vf::void_apply, vf::vcontrol )

#define VF_WRAP4( name, ... )                                                                                                  \
   VF_WRAP( name##_ar, __VA_ARGS__, tao::pegtl::apply_mode::action, tao::pegtl::rewind_mode::required, tao::pegtl::nothing, vf::vcontrol )  \
   VF_WRAP( name##_ao, __VA_ARGS__, tao::pegtl::apply_mode::action, tao::pegtl::rewind_mode::optional, tao::pegtl::nothing, vf::vcontrol )  \
   VF_WRAP( name##_nr, __VA_ARGS__, tao::pegtl::apply_mode::nothing, tao::pegtl::rewind_mode::required, tao::pegtl::nothing, vf::vcontrol ) \
   VF_WRAP( name##_no, __VA_ARGS__, tao::pegtl::apply_mode::nothing, tao::pegtl::rewind_mode::optional, tao::pegtl::nothing, vf::vcontrol )
