/* c17_spec.h — reference definitions for C17, written from the standards and NOT from contrib/unescape.hpp:
 *   The Unicode Standard ch. 3.9: D76 (Unicode scalar value), Table 3-6 "UTF-8 Bit Distribution" (encoder),
 *   Table 3-7 "Well-Formed UTF-8 Byte Sequences" (decoder), D91 / Table 3-5 "UTF-16 Bit Distribution" (surrogate pairs);
 *   RFC 8259 section 7 (JSON escapes); ISO C 6.4.4.4 (simple escape sequences); positional notation for hexadecimal numerals.
 */
#ifndef C17_SPEC_H
#define C17_SPEC_H

static int is_scalar(u64 cp) { return cp <= 0x10FFFF && !(cp >= 0xD800 && cp <= 0xDFFF); }
static int is_high(u64 v) { return v >= 0xD800 && v <= 0xDBFF; }
static int is_low(u64 v) { return v >= 0xDC00 && v <= 0xDFFF; }

/* Table 3-6: scalar value -> 1..4 bytes */
static u64 u8_enc(u64 cp, u64 *e) {
  if (cp <= 0x7F) { e[0] = cp; return 1; }
  if (cp <= 0x7FF) { e[0] = 0xC0 + cp / 0x40; e[1] = 0x80 + cp % 0x40; return 2; }
  if (cp <= 0xFFFF) { e[0] = 0xE0 + cp / 0x1000; e[1] = 0x80 + cp / 0x40 % 0x40; e[2] = 0x80 + cp % 0x40; return 3; }
  e[0] = 0xF0 + cp / 0x40000; e[1] = 0x80 + cp / 0x1000 % 0x40; e[2] = 0x80 + cp / 0x40 % 0x40; e[3] = 0x80 + cp % 0x40; return 4;
}

/* Table 3-7: length of the well-formed sequence at b[0..av) (0: ill-formed or truncated) and its value */
#define TAIL(x) ((x) >= 0x80 && (x) <= 0xBF)
static u64 u8_dec(u64 a, u64 b, u64 c, u64 d, u64 av, u64 *cp) {
  *cp = 0;
  if (av >= 1 && a <= 0x7F) { *cp = a; return 1; }
  if (av >= 2 && a >= 0xC2 && a <= 0xDF && TAIL(b)) { *cp = (a - 0xC0) * 0x40 + (b - 0x80); return 2; }
  if (av >= 3 && ((a == 0xE0 && b >= 0xA0 && b <= 0xBF) ||
                  (a >= 0xE1 && a <= 0xEC && TAIL(b)) ||
                  (a == 0xED && b >= 0x80 && b <= 0x9F) ||
                  (a >= 0xEE && a <= 0xEF && TAIL(b))) && TAIL(c)) {
    *cp = (a - 0xE0) * 0x1000 + (b - 0x80) * 0x40 + (c - 0x80); return 3; }
  if (av >= 4 && ((a == 0xF0 && b >= 0x90 && b <= 0xBF) ||
                  (a >= 0xF1 && a <= 0xF3 && TAIL(b)) ||
                  (a == 0xF4 && b >= 0x80 && b <= 0x8F)) && TAIL(c) && TAIL(d)) {
    *cp = (a - 0xF0) * 0x40000 + (b - 0x80) * 0x1000 + (c - 0x80) * 0x40 + (d - 0x80); return 4; }
  return 0;
}

/* the 22 hexadecimal digits; index -> character, index -> value */
static const char c17_xd[] = "0123456789abcdefABCDEF";
static u64 xd_val(u64 idx) { return idx < 16 ? idx : idx - 6; }

/* ---- sink string: prefix drawn by the harness, result copied out by the wrapper
 * o[0] result, o[1] size, o[2+i] byte i for i < 16 (0xffff beyond the size) */
#define C17_MAXPRE 3
static u8 c17_pre[C17_MAXPRE + 1];
static u64 c17_npre;
static void draw_prefix(void) {
  c17_npre = IN(0, C17_MAXPRE);
#ifdef C17_NPRE
  ASSUME(c17_npre == C17_NPRE); c17_npre = C17_NPRE;   /* CBMC slice: one query per prefix length (a constant for the simplifier) */
#endif
  for (u64 i = 0; i < C17_MAXPRE; ++i) c17_pre[i] = IN_BYTE();
}
/* the string is  prefix ++ app[0..napp) */
static void check_string(const u64 *o, const u64 *app, u64 napp) {
  CHECK(o[1] == c17_npre + napp, "string length = previous length + length of the expected appended bytes");
  for (u64 i = 0; i < C17_MAXPRE; ++i) if (i < c17_npre) CHECK(o[2 + i] == c17_pre[i], "previous content of the string preserved");
  for (u64 i = 0; i < 12; ++i) if (i < napp) CHECK(o[2 + c17_npre + i] == app[i], "appended bytes are exactly the expected bytes");
}
#endif
