/* C05 (parse_error part): what the caller of normal< Rule >::raise / raise_nested, of parse() over the try_catch_*_raise_nested
 * rules and of parse_nested() sees — harness of props/C05_perr.py.  One part per wrapper unit (-DC05P_RAISE | C05P_NESTED |
 * C05P_RULES | C05P_PNESTED, the same define selects the wrappers in c05_perr.cpp).
 *
 * Specification (property C05): the exception is a parse_error whose
 *     what()             == source ":" decimal(line) ":" decimal(column) ": " message
 *     message()          == message      (the rule's error_message, or "parse error matching " + demangle< Rule >())
 *     position_string()  == source ":" decimal(line) ":" decimal(column)
 *     position_object()  == { byte, line, column, source } of the input at the time of the raise / of the ambient position
 * and, for the *_raise_nested family and parse_nested, ALSO a std::nested_exception whose nested_ptr() is the exception that
 * was being handled (null if none), which is itself unchanged. */
#define VF_ALPHABET "pa\ncdx:1"
#define VF_STRING_GROWTH 1      /* lib/models.h: reallocating std::string model (what() texts exceed the 15-byte short-string buffer) */
#define VF_STRING_FIXED_ALLOC 64   /* lib/models.h: heap buffers of std::string are objects of this constant size (a larger request is reported) */
#ifndef VF_STRING_SPLIT_STORES
#define VF_STRING_SPLIT_STORES 48  /* lib/models.h: _M_append writes at constant offsets; results of that many or more characters are reported */
#endif
#ifndef C05P_INPLACE_HEAP_APPEND
#define VF_STRING_NO_INPLACE_HEAP_APPEND 1   /* lib/models.h: appending within the capacity of a heap buffer does not happen with the quick-tier bounds
                                                (source:line:column: has at most 13 characters, i.e. stays in the in-object buffer); it would be REPORTED.
                                                The thorough tier (5-digit numerals) models it (-DC05P_INPLACE_HEAP_APPEND) */
#endif
#ifndef C05P_WHAT_CAP
#define C05P_WHAT_CAP 48           /* c05_perr_models.h: capacity of the what() buffer of std::runtime_error (more is reported) */
#endif
#include "verif.h"
#include "c05_perr_spec.h"

#ifndef C05P_WITH_MSG
#define C05P_WITH_MSG 1
#endif
#ifndef C05P_N
#define C05P_N 3            /* input bytes */
#endif
#ifndef C05P_CMAX
#define C05P_CMAX 99        /* initial byte / line / column counters: 0 .. C05P_CMAX */
#endif
#ifndef C05P_MAXDIG
#define C05P_MAXDIG 3       /* decimal digits of C05P_CMAX + C05P_N */
#endif
#ifndef C05P_NSRC
#define C05P_NSRC 3         /* source: 0 .. C05P_NSRC symbolic non-NUL characters */
#endif

#ifndef VF_REAL
/* lib/stubstream/ostream reports an exhausted stream buffer here (translated build only; never with the stated bounds) */
void x_verif_capacity_exceeded(void) { CHECK(0, "stream buffer of the std::ostringstream stand-in large enough"); }
#endif

static u8 c05p_src[C05P_MAXSRC];
static u64 c05p_nsrc;
static void draw_source(void) {
  c05p_nsrc = IN(0, C05P_NSRC);
  for (u64 i = 0; i < C05P_NSRC; ++i) c05p_src[i] = IN_BYTE();
}
#define ASSUME_SOURCE() do { for (u64 i = 0; i < C05P_NSRC; ++i) ASSUME(c05p_src[i] != 0); } while (0)

/* expected message of the rule under test */
static u8 c05p_msg[C05P_TXT];
static u64 c05p_nmsg;
static void expected_message(void) {
#if C05P_WITH_MSG
  static const char m[] = C05P_MSG_M;
  c05p_nmsg = sizeof(m) - 1;
  for (u64 i = 0; i < sizeof(m) - 1; ++i) c05p_msg[i] = (u8)m[i];
#else
  /* default message: the fixed prefix followed by demangle< Rule >() as evaluated by the same build (compile-time constant) */
  static const char m[] = C05P_MSG_DEFAULT_PREFIX;
  u8 name[16];
  u64 nn = w_name(name, 16);
  CHECK(nn >= 1 && nn <= 16, "demangled rule name is not empty");
  c05p_nmsg = sizeof(m) - 1 + nn;
  for (u64 i = 0; i < sizeof(m) - 1; ++i) c05p_msg[i] = (u8)m[i];
  for (u64 i = 0; i < 16; ++i) if (i < nn) c05p_msg[sizeof(m) - 1 + i] = name[i];
#endif
}

/* reads the decimal numeral at t[*p ..): value, and whether it is well formed (1 .. C05P_MAXDIG digits, no leading zero) */
static u64 read_dec(const u8 *t, u64 *p, int *ok) {
  u64 v = 0, nd = 0, q = *p;
  int lead0 = 0, stop = 0;
  for (u64 i = 0; i < C05P_MAXDIG + 1; ++i) {
    u8 c = (q + i < C05P_TXT) ? t[q + i] : 0;
    if (!stop && c >= '0' && c <= '9') { if (nd == 0 && c == '0') lead0 = 1; v = v * 10 + (u64)(c - '0'); nd++; }
    else stop = 1;
  }
  *ok = nd >= 1 && nd <= C05P_MAXDIG && !(lead0 && nd > 1);
  *p = q + nd;
  return v;
}

/* one caught parse_error against  { byte, line, column, source[0..nsrc) }  and  message[0..nmsg) */
static void check_record(const u64 *r, const u8 *t, u64 byte, u64 line, u64 col, const u8 *src, u64 nsrc, const u8 *msg, u64 nmsg) {
  CHECK(r[R_BYTE] == byte, "position_object().byte is the byte position of the raise");
  CHECK(r[R_LINE] == line, "position_object().line is the line of the raise");
  CHECK(r[R_COL] == col, "position_object().column is the column of the raise");
  CHECK(r[R_SLEN] == nsrc, "position_object().source has the length of the input's source");
  for (u64 i = 0; i < C05P_MAXSRC; ++i) if (i < nsrc) CHECK(r[R_SRC + i] == src[i], "position_object().source is the input's source");
  /* what() == source ":" line ":" column ": " message */
  u64 p = 0; int ok1, ok2;
  for (u64 i = 0; i < C05P_MAXSRC; ++i) if (i < nsrc) { CHECK(t[p] == src[i], "what() starts with the source"); p++; }
  CHECK(t[p] == ':', "what(): ':' after the source"); p++;
  u64 vl = read_dec(t, &p, &ok1);
  CHECK(ok1 && vl == line, "what(): decimal line (no leading zero) after the first ':'");
  CHECK(t[p] == ':', "what(): ':' after the line"); p++;
  u64 vc = read_dec(t, &p, &ok2);
  CHECK(ok2 && vc == col, "what(): decimal column (no leading zero) after the second ':'");
  u64 plen = p;
  CHECK(t[p] == ':' && t[p + 1] == ' ', "what(): ': ' after the column"); p += 2;
  for (u64 i = 0; i < C05P_TXT; ++i) if (i < nmsg && p + i < C05P_TXT) CHECK(t[p + i] == msg[i], "what() ends with the message");
  CHECK(r[R_WLEN] == plen + 2 + nmsg, "what() == source:line:column: message (nothing follows the message)");
  CHECK(r[R_POFF] == 0 && r[R_PLEN] == plen, "position_string() is the source:line:column prefix of what()");
  CHECK(r[R_MOFF] == plen + 2 && r[R_MLEN] == nmsg, "message() is the message part of what()");
}

/* position after consuming d[0..k) from (byte, line, column): every '\n' starts a new line at column 1 */
static void advance(const u8 *d, u64 k, u64 *byte, u64 *line, u64 *col) {
  for (u64 i = 0; i < C05P_N; ++i) if (i < k) { if (d[i] == '\n') { (*line)++; *col = 1; } else (*col)++; (*byte)++; }
}

static void obs_record(const u64 *r, const u8 *t) {
  for (u64 i = 0; i < C05P_REC; ++i) OBS(r[i]);
  u64 h = 0;
  for (u64 i = 0; i < C05P_TXT; ++i) h = h * 131 + t[i];
  OBS(h);
}

/* ============================================================================================================== RAISE */
#ifdef C05P_RAISE
static void harness(void) {
  u64 n = IN(0, C05P_N), k = IN(0, C05P_N), ib = IN(0, C05P_CMAX), il = IN(1, C05P_CMAX), ic = IN(1, C05P_CMAX);
  u8 d[C05P_N + 1];
  for (u64 i = 0; i < C05P_N; ++i) d[i] = IN_BYTE();
  draw_source();
  ASSUME(k <= n);
  ASSUME_SOURCE();
  u8 *buf = (u8 *)exact_alloc_n(n, C05P_N);
  for (u64 i = 0; i < C05P_N; ++i) if (i < n) buf[i] = d[i];
  u64 out[C05P_OUT]; u8 txt[2 * C05P_TXT];
  for (u64 i = 0; i < C05P_OUT; ++i) out[i] = 0;
  for (u64 i = 0; i < 2 * C05P_TXT; ++i) txt[i] = 0;
  w_raise(buf, n, k, ib, il, ic, c05p_src, c05p_nsrc, out, txt);
  u64 eb = ib, el = il, ec = ic;
  advance(d, k, &eb, &el, &ec);
  expected_message();
  OBS(out[O_KIND]);
  CHECK(out[O_KIND] == K_PERR, "normal::raise throws a parse_error (and not a nested exception, nothing else, no return)");
  if (out[O_KIND] & K_PERR) { check_record(out + O_OUTER, txt, eb, el, ec, c05p_src, c05p_nsrc, c05p_msg, c05p_nmsg); obs_record(out + O_OUTER, txt); }
  REACH(el >= 10 && el <= 99 && ec == 1, "line has two digits, column 1 after a newline");
  REACH(el == 100 && c05p_nsrc == 0, "line has three digits, empty source");
  REACH(ec >= 100 && c05p_nsrc == C05P_NSRC, "column has three digits, longest source");
  REACH(il == 1 && ic == 1 && ib == 0 && k == 0, "byte 0, line 1, column 1");
  REACH(c05p_nsrc == 1 && c05p_src[0] == ':' , "source is ':'");
  REACH(k == C05P_N && eb == ib + C05P_N, "all bytes consumed before the raise");
}
#endif

/* ============================================================================================================= NESTED */
#ifdef C05P_NESTED
static const u8 in_src[2] = { 'i', 'n' };
static const u8 msg_i[] = C05P_MSG_I;
static void harness(void) {
  u64 ab = IN(0, C05P_CMAX), al = IN(0, C05P_CMAX), ac = IN(0, C05P_CMAX);
  u64 hb = IN(0, C05P_CMAX), hl = IN(0, C05P_CMAX), hc = IN(0, C05P_CMAX), fid = IN(0, 0xffffffffULL);
  u64 mode = IN(0, 2);
  draw_source();
  ASSUME_SOURCE();
#ifdef VF_SPLIT
#if defined(V_none)
  ASSUME(mode == 0); mode = 0;
#elif defined(V_foreign)
  ASSUME(mode == 1); mode = 1;
#else
  ASSUME(mode == 2); mode = 2;
#endif
#endif
  u64 out[C05P_OUT]; u8 txt[2 * C05P_TXT];
  for (u64 i = 0; i < C05P_OUT; ++i) out[i] = 0;
  for (u64 i = 0; i < 2 * C05P_TXT; ++i) txt[i] = 0;
  if (mode == 0) w_nested_none(ab, al, ac, c05p_src, c05p_nsrc, out, txt);
  else if (mode == 1) w_nested_foreign(fid, ab, al, ac, c05p_src, c05p_nsrc, out, txt);
  else w_nested_perr(hb, hl, hc, ab, al, ac, c05p_src, c05p_nsrc, out, txt);
  expected_message();
  OBS(out[O_KIND]); OBS(out[O_NPTR]); OBS(out[O_INNER]);
  CHECK((out[O_KIND] & K_PERR) != 0, "normal::raise_nested throws a parse_error");
  CHECK((out[O_KIND] & K_NESTED) != 0, "the exception thrown by normal::raise_nested is also a std::nested_exception");
  CHECK((out[O_KIND] & (K_OTHER | K_RETURNED)) == 0, "normal::raise_nested throws nothing else and does not return");
  if (out[O_KIND] & K_PERR) { check_record(out + O_OUTER, txt, ab, al, ac, c05p_src, c05p_nsrc, c05p_msg, c05p_nmsg); obs_record(out + O_OUTER, txt); }
  if (out[O_KIND] & K_NESTED) {
    if (mode == 0) CHECK(out[O_NPTR] == 0, "nested_ptr() is null when no exception is being handled");
    else CHECK(out[O_NPTR] == 1, "nested_ptr() is not null when an exception is being handled");
    if (mode == 1) {
      CHECK(out[O_INNER] == (I_FOREIGN | I_SAME), "nested_ptr() refers to exactly the (foreign) exception that was being handled");
      CHECK(out[O_INNER_ID] == fid, "the nested foreign exception is unchanged");
      OBS(out[O_INNER_ID]);
    }
    if (mode == 2) {
      CHECK(out[O_INNER] == (I_PERR | I_SAME), "nested_ptr() refers to exactly the parse_error that was being handled");
      if (out[O_INNER] & I_PERR) { check_record(out + O_INREC, txt + C05P_TXT, hb, hl, hc, in_src, 2, msg_i, sizeof(msg_i) - 1); obs_record(out + O_INREC, txt + C05P_TXT); }
    }
  }
#if !defined(VF_SPLIT) || defined(V_none)
  REACH(mode == 0 && out[O_NPTR] == 0 && (out[O_KIND] & K_NESTED), "nested pointer null");
#endif
#if !defined(VF_SPLIT) || defined(V_foreign)
  REACH(mode == 1 && out[O_NPTR] == 1 && fid == 0xfffffffeULL, "nested pointer non-null: foreign exception");
#endif
#if !defined(VF_SPLIT) || defined(V_perr)
  REACH(mode == 2 && out[O_NPTR] == 1 && hl >= 10 && al < 10, "nested pointer non-null: parse_error with a two-digit line inside a one-digit line");
#endif
  REACH(c05p_nsrc >= 1, "source non-empty");
  REACH(c05p_nsrc == 0 && ac >= 10, "source empty, column has two digits");
}
#endif

/* ====================================================================================================== RULES / PNESTED */
#if defined(C05P_RULES) || defined(C05P_PNESTED)
#ifndef C05P_FAMILY
#define C05P_FAMILY 0
#endif
static const u8 in_src[2] = { 'i', 'n' };
static const u8 msg_i[] = C05P_MSG_I;
static void harness(void) {
  u64 n = IN(0, C05P_N), ib = IN(0, C05P_CMAX), il = IN(1, C05P_CMAX), ic = IN(1, C05P_CMAX);
  u8 d[C05P_N + 1];
  for (u64 i = 0; i < C05P_N; ++i) d[i] = IN_BYTE();
  draw_source();
  ASSUME_SOURCE();
  u8 *buf = (u8 *)exact_alloc_n(n, C05P_N);
  for (u64 i = 0; i < C05P_N; ++i) if (i < n) buf[i] = d[i];
  u64 out[C05P_OUT]; u8 txt[2 * C05P_TXT];
  for (u64 i = 0; i < C05P_OUT; ++i) out[i] = 0;
  for (u64 i = 0; i < 2 * C05P_TXT; ++i) txt[i] = 0;
  /* reference: j leading bytes of  star< one< 'p', '\n' > >,  then the guarded rule  'a' ( 'd' [action throws] / must< 'c' > ) */
  u64 j = 0; int run = 1;
  for (u64 i = 0; i < C05P_N; ++i) if (run && i < n && (d[i] == 'p' || d[i] == '\n')) j++; else run = 0;
  int has_a = j < n && d[j] == 'a';
  int has_d = has_a && j + 1 < n && d[j + 1] == 'd';
  int has_c = has_a && j + 1 < n && d[j + 1] == 'c';
  int must_fails = has_a && !has_d && !has_c;
#ifdef C05P_RULES
  w_parse(buf, n, ib, il, ic, c05p_src, c05p_nsrc, out, txt);
  u64 b0 = ib, l0 = il, c0 = ic;                    /* where the guarded rule began */
  const u8 *isrc = c05p_src; u64 nisrc = c05p_nsrc;
  u64 ob, ol, oc;                                   /* position of the outer error: where the guarded rule began */
  advance(d, j, &b0, &l0, &c0);
  ob = b0; ol = l0; oc = c0;
  const u8 *osrc = c05p_src; u64 nosrc = c05p_nsrc;
  /* which exceptions the family converts */
  int conv_perr = (C05P_FAMILY == 0 || C05P_FAMILY == 1 || C05P_FAMILY == 2 || C05P_FAMILY == 4);
  int conv_foreign = (C05P_FAMILY == 1 || C05P_FAMILY == 3);
#else
  u64 ab = ib, al = il, ac = ic;                    /* the ambient position handed to parse_nested; the input starts at 0/1/1, source "in" */
  w_parse_nested(buf, n, ab, al, ac, c05p_src, c05p_nsrc, out, txt);
  u64 b0 = 0, l0 = 1, c0 = 1;
  advance(d, j, &b0, &l0, &c0);
  const u8 *isrc = in_src; u64 nisrc = 2;
  u64 ob = ab, ol = al, oc = ac;
  const u8 *osrc = c05p_src; u64 nosrc = c05p_nsrc;
  int conv_perr = 1, conv_foreign = 0;              /* parse_nested catches std::exception */
#endif
  u64 b1 = b0 + 1, l1 = l0, c1 = c0 + 1;            /* after the 'a': where must< 'c' > raises */
  u64 fid = 1000 + b1;                              /* the action's exception carries the byte position of its match */
  expected_message();
  OBS(out[O_KIND]); OBS(out[O_NPTR]); OBS(out[O_INNER]); OBS(out[O_RESULT]);
  if (!has_a) {
    CHECK(out[O_KIND] == K_RETURNED && out[O_RESULT] == 0, "local failure of the guarded rule: parse returns false, no exception");
  } else if (has_c) {
    CHECK(out[O_KIND] == K_RETURNED && out[O_RESULT] == 1 && out[O_CONSUMED] == j + 2, "success: parse returns true, everything matched is consumed");
  } else if (must_fails && conv_perr) {
    CHECK(out[O_KIND] == (K_PERR | K_NESTED), "global failure inside the guarded rule: the caller sees a parse_error that is a nested exception");
    if (out[O_KIND] & K_PERR) { check_record(out + O_OUTER, txt, ob, ol, oc, osrc, nosrc, c05p_msg, c05p_nmsg); obs_record(out + O_OUTER, txt); }
    if (out[O_KIND] & K_NESTED) {
      CHECK(out[O_NPTR] == 1 && (out[O_INNER] & ~(u64)I_SAME) == I_PERR, "the nested exception is the parse_error of the must<> that failed");
      if (out[O_INNER] & I_PERR) { check_record(out + O_INREC, txt + C05P_TXT, b1, l1, c1, isrc, nisrc, msg_i, sizeof(msg_i) - 1); obs_record(out + O_INREC, txt + C05P_TXT); }
    }
  } else if (must_fails) {
    CHECK(out[O_KIND] == K_PERR, "a parse_error the family does not name propagates unchanged (not nested)");
    if (out[O_KIND] & K_PERR) { check_record(out + O_OUTER, txt, b1, l1, c1, isrc, nisrc, msg_i, sizeof(msg_i) - 1); obs_record(out + O_OUTER, txt); }
  } else if (conv_foreign) {      /* has_d */
    CHECK(out[O_KIND] == (K_PERR | K_NESTED), "foreign exception from an action inside the guarded rule: the caller sees a parse_error that is a nested exception");
    if (out[O_KIND] & K_PERR) { check_record(out + O_OUTER, txt, ob, ol, oc, osrc, nosrc, c05p_msg, c05p_nmsg); obs_record(out + O_OUTER, txt); }
    if (out[O_KIND] & K_NESTED) {
      CHECK(out[O_NPTR] == 1 && (out[O_INNER] & ~(u64)I_SAME) == I_FOREIGN && out[O_INNER_ID] == fid, "the nested exception is the action's exception, unchanged");
      OBS(out[O_INNER_ID]);
    }
  } else {
    CHECK(out[O_KIND] == K_OTHER && out[O_INNER_ID] == fid, "a foreign exception the family does not name propagates unchanged");
  }
  REACH(must_fails && j == 1 && d[0] == '\n' && c05p_nsrc >= 1 && ol >= 10, "must<> fails after a newline; source non-empty, outer line has two digits");
  REACH(must_fails && j + 1 == n && j == C05P_N - 1, "must<> fails at the end of the input after the longest prefix");
  REACH(has_d && j == C05P_N - 2, "the action throws after the longest prefix");
  REACH(has_c || (!has_a && j == n), "no exception: success, or input exhausted by the prefix");
}
#endif
