/* C07: string_input / argv_input present exactly the given bytes (they hand pointer and size to memory_input) */
#ifndef LMAX
#define LMAX 6
#endif
#ifndef VF_ALPHABET
#define VF_ALPHABET "aabbc\n\rB"
#endif
/* CBMC's built-in memcpy with a symbolic length into the small-string buffer (a union member) lost the copied bytes: byte loop instead */
static void *c07_memcpy(void *d, const void *s, unsigned long n) { for (unsigned long i = 0; i < n; ++i) ((unsigned char *)d)[i] = ((const unsigned char *)s)[i]; return d; }
#define memcpy c07_memcpy
#include "verif.h"
void x___assert_fail(Pu8 a, Pu8 b, u32 c, Pu8 d) { (void)a; (void)b; (void)c; (void)d; CHECK(0, "library assert() failed"); }
void x_verif_event(u32 kind, u32 rule, u64 a, u64 b) { (void)kind; (void)rule; (void)a; (void)b; }
u32 x_verif_sym(u32 k, u64 pos, u32 a, u32 m, u64 *np) { *np = pos; return 0; }
u32 x_verif_sym2(u32 k, u64 pos, u64 end, u32 a, u32 m, u64 *np) { *np = pos; return 0; }
u32 x_verif_veto(u32 rule, u64 b, u64 e) { return 1; }
static void harness(void) {
  u64 n = IN(0, LMAX);
  u8 *b = (u8 *)exact_alloc_n(n + 1, LMAX + 1);
  for (u64 i = 0; i < LMAX; ++i) { u8 v = IN_BYTE(); if (i < n) b[i] = v; }
  u64 o[8];
#if !defined(VF_SPLIT) || defined(V_string)
  w_string_input((char *)b, n, o);
  CHECK(o[0] == n && o[1] == 1, "string_input presents exactly the bytes of the string");
  CHECK(o[2] == 0 && o[3] == 1 && o[4] == 1, "string_input starts at byte 0, line 1, column 1");
  CHECK(o[5] == (u64)(n > 0) && o[6] == (u64)(n > 0), "a rule sees the same data through string_input");
  OBS(o[0]); OBS(o[5]);
#endif
#if !defined(VF_SPLIT) || defined(V_argv)
  for (u64 i = 0; i < LMAX; ++i) if (i < n) ASSUME(b[i] != 0);
  b[n] = 0;
  w_argv_input((char *)b, o);
  CHECK(o[0] == n && o[1] == 1, "argv_input presents exactly argv[n] up to its terminator");
  CHECK(o[2] == 0 && o[3] == 1 && o[4] == 1, "argv_input starts at byte 0, line 1, column 1");
  CHECK(o[5] == (u64)(n > 0) && o[6] == (u64)(n > 0), "a rule sees the same data through argv_input");
  OBS(o[0]); OBS(o[5]);
#endif
  REACH(n == 0, "empty data");
  REACH(n == LMAX, "data of maximal length");
}
