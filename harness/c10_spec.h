/* c10_spec.h — byte-level reference specifications for C10, written from the standards and NOT from the PEGTL sources:
 *   UTF-8   The Unicode Standard, ch. 3.9, Table 3-7 "Well-Formed UTF-8 Byte Sequences" (decoder) and
 *           Table 3-6 "UTF-8 Bit Distribution" (encoder, used to cross-check the decoder inside the same query)
 *   UTF-16  ch. 3.9 D91 / Table 3-5 "UTF-16 Bit Distribution" (surrogate arithmetic)
 *   UTF-32  ch. 3.9 D90 (a code unit is a Unicode scalar value)
 *   uintN   positional notation: big endian = most significant byte first, little endian = least significant byte first
 * The unit under test starts at lf_start inside the exact-size buffer lf_buf[0..lf_n) of leaf.h.
 */
#ifndef C10_SPEC_H
#define C10_SPEC_H

/* same draws as lf_setup() of leaf.h, plus a fixed-size shadow copy of the drawn bytes for the specification: the
 * specification never reads the heap object (reads of a symbolic-size object at symbolic offsets are what CBMC pays for) */
#ifndef C10_MAXNA
#define C10_MAXNA 24
#endif
static u8 c10_sh[C10_MAXNA];
/* exact-size heap buffer as exact_alloc(); under CBMC one object of *constant* size per possible length (the length is
 * case-split), so that the buffer is a fixed-size array for the solver instead of an array of symbolic size */
static u8 *c10_alloc(u64 n, u64 maxn) {
#ifdef __CPROVER__
  u8 *p = 0;
  for (u64 k = 0; k <= maxn; ++k) if (n == k) p = (u8 *)malloc(k ? k : 1);
  __CPROVER_assume(p != 0);
  return p;
#else
  (void)maxn;
  return (u8 *)exact_alloc(n);
#endif
}
static void c10_setup(u64 maxn) {
  lf_n = IN(0, maxn);
  lf_buf = c10_alloc(lf_n, maxn);
  for (u64 i = 0; i < maxn; ++i) { u8 v = IN_BYTE(); c10_sh[i] = v; if (i < lf_n) lf_buf[i] = v; }
  lf_start = IN(0, lf_n);
}
/* number of bytes available from relative offset off */
static u64 avail(u64 off) { return lf_start + off <= lf_n ? lf_n - lf_start - off : 0; }
#define HAVE(k) (avail(0) >= (u64)(k))
/* byte i relative to the start offset; reads as 0 beyond the end (every use is guarded by avail/HAVE) */
static u64 by(u64 i) { return lf_start + i < lf_n ? (u64)c10_sh[lf_start + i] : 0; }

static int is_scalar(u64 cp) { return cp <= 0x10FFFF && !(cp >= 0xD800 && cp <= 0xDFFF); }

/* ---- UTF-8, Table 3-7; returns the length of the well-formed sequence at off (0: ill-formed or truncated) */
#define TAIL(x) ((x) >= 0x80 && (x) <= 0xBF)
static u64 u8_dec(u64 off, u64 *cp) {
  u64 av = avail(off), a = by(off), b = by(off + 1), c = by(off + 2), d = by(off + 3);
  *cp = 0;
  if (av >= 1 && a <= 0x7F) { *cp = a; return 1; }
  if (av >= 2 && a >= 0xC2 && a <= 0xDF && TAIL(b)) { *cp = (a - 0xC0) * 0x40 + (b - 0x80); return 2; }
  if (av >= 3 && ((a == 0xE0 && b >= 0xA0 && b <= 0xBF) ||
                  (a >= 0xE1 && a <= 0xEC && TAIL(b)) ||
                  (a == 0xED && b >= 0x80 && b <= 0x9F) ||
                  (a >= 0xEE && a <= 0xEF && TAIL(b))) && TAIL(c)) {
    *cp = (a - 0xE0) * 0x1000 + (b - 0x80) * 0x40 + (c - 0x80); return 3; }
  if (av >= 4 && ((a == 0xF0 && b >= 0x90 && b <= 0xBF) ||
                  (a >= 0xF1 && a <= 0xF3 && TAIL(b)) ||
                  (a == 0xF4 && b >= 0x80 && b <= 0x8F)) && TAIL(c) && TAIL(d)) {
    *cp = (a - 0xF0) * 0x40000 + (b - 0x80) * 0x1000 + (c - 0x80) * 0x40 + (d - 0x80); return 4; }
  return 0;
}
/* Table 3-6: scalar value -> 1..4 bytes */
static u64 u8_enc(u64 cp, u64 *e) {
  if (cp <= 0x7F) { e[0] = cp; return 1; }
  if (cp <= 0x7FF) { e[0] = 0xC0 | (cp >> 6); e[1] = 0x80 | (cp & 0x3F); return 2; }
  if (cp <= 0xFFFF) { e[0] = 0xE0 | (cp >> 12); e[1] = 0x80 | ((cp >> 6) & 0x3F); e[2] = 0x80 | (cp & 0x3F); return 3; }
  e[0] = 0xF0 | (cp >> 18); e[1] = 0x80 | ((cp >> 12) & 0x3F); e[2] = 0x80 | ((cp >> 6) & 0x3F); e[3] = 0x80 | (cp & 0x3F); return 4;
}

/* ---- unsigned integers of 1, 2, 4, 8 bytes at relative offset off */
static u64 uint_rd(int be, u64 nb, u64 off) {
  u64 b0 = by(off), b1 = by(off + 1), b2 = by(off + 2), b3 = by(off + 3), b4 = by(off + 4), b5 = by(off + 5), b6 = by(off + 6), b7 = by(off + 7);
  if (nb == 1) return b0;
  if (nb == 2) return be ? (b0 << 8 | b1) : (b1 << 8 | b0);
  if (nb == 4) return be ? (b0 << 24 | b1 << 16 | b2 << 8 | b3) : (b3 << 24 | b2 << 16 | b1 << 8 | b0);
  return be ? (b0 << 56 | b1 << 48 | b2 << 40 | b3 << 32 | b4 << 24 | b5 << 16 | b6 << 8 | b7)
            : (b7 << 56 | b6 << 48 | b5 << 40 | b4 << 32 | b3 << 24 | b2 << 16 | b1 << 8 | b0);
}

/* ---- UTF-16: one 16-bit unit outside D800..DFFF, or a high surrogate D800..DBFF followed by a low surrogate DC00..DFFF */
static u64 u16_dec(int be, u64 off, u64 *cp) {
  u64 av = avail(off), w0 = uint_rd(be, 2, off), w1 = uint_rd(be, 2, off + 2);
  *cp = 0;
  if (av >= 2 && !(w0 >= 0xD800 && w0 <= 0xDFFF)) { *cp = w0; return 2; }
  if (av >= 4 && w0 >= 0xD800 && w0 <= 0xDBFF && w1 >= 0xDC00 && w1 <= 0xDFFF) { *cp = 0x10000 + (w0 - 0xD800) * 0x400 + (w1 - 0xDC00); return 4; }
  return 0;
}
/* Table 3-5: scalar value -> one or two 16-bit units */
static u64 u16_enc(u64 cp, u64 *w) {
  if (cp <= 0xFFFF) { w[0] = cp; return 1; }
  w[0] = 0xD800 | ((cp - 0x10000) >> 10); w[1] = 0xDC00 | ((cp - 0x10000) & 0x3FF); return 2;
}

/* ---- UTF-32: one 32-bit unit that is a Unicode scalar value */
static u64 u32_dec(int be, u64 off, u64 *cp) {
  u64 v = uint_rd(be, 4, off);
  *cp = 0;
  if (avail(off) >= 4 && is_scalar(v)) { *cp = v; return 4; }
  return 0;
}

/* ---- cross-checks of the decoders against the encoders of the standard, for a symbolic scalar value x:
 *  (a) whatever the decoder accepts is the encoding of a scalar value, of exactly the accepted length;
 *  (b) the encoding of any scalar value, when present in the input, is accepted with that value and length. */
static void u8_crosscheck(u64 x) {
  u64 cp, e[4] = {0, 0, 0, 0}, f[4] = {0, 0, 0, 0};
  u64 len = u8_dec(0, &cp);
  if (len) {
    CHECK(is_scalar(cp), "spec: UTF-8 decoder yields scalar values only");
    u64 el = u8_enc(cp, e);
    CHECK(el == len, "spec: accepted UTF-8 sequence has the (minimal) length of the encoding of its value");
    for (u64 i = 0; i < 4; ++i) if (i < len) CHECK(e[i] == by(i), "spec: accepted UTF-8 sequence is the encoding of its value");
  }
  if (is_scalar(x)) {
    u64 fl = u8_enc(x, f); int same = avail(0) >= fl;
    for (u64 i = 0; i < 4; ++i) if (i < fl && f[i] != by(i)) same = 0;
    if (same) CHECK(len == fl && cp == x, "spec: every encoded scalar value is accepted by the UTF-8 decoder");
    REACH(same && fl == 4, "spec: 4-byte encoding present");
  }
}
static void u16_crosscheck(int be, u64 x) {
  u64 cp, w[2] = {0, 0}, f[2] = {0, 0};
  u64 len = u16_dec(be, 0, &cp);
  if (len) {
    CHECK(is_scalar(cp), "spec: UTF-16 decoder yields scalar values only");
    u64 wl = u16_enc(cp, w);
    CHECK(2 * wl == len, "spec: accepted UTF-16 sequence has the length of the encoding of its value");
    CHECK(w[0] == uint_rd(be, 2, 0) && (wl == 1 || w[1] == uint_rd(be, 2, 2)), "spec: accepted UTF-16 sequence is the encoding of its value");
  }
  if (is_scalar(x)) {
    u64 fl = u16_enc(x, f);
    int same = avail(0) >= 2 * fl && f[0] == uint_rd(be, 2, 0) && (fl == 1 || f[1] == uint_rd(be, 2, 2));
    if (same) CHECK(len == 2 * fl && cp == x, "spec: every encoded scalar value is accepted by the UTF-16 decoder");
    REACH(same && fl == 2, "spec: surrogate pair present");
  }
}
#endif
