/* events.h — real event log (filled by callbacks from the real code) and reference log (filled by the generated spec). */
#ifndef EVENTS_H
#define EVENTS_H
#ifndef EV_MAX
#define EV_MAX 48
#endif
#ifndef EV_RULES
#define EV_RULES 12     /* veto table slots: sym<0..3> -> 0..3, named<0..3> -> 4..7, pseudo actions pa<0..3> (500+i) -> 8..11 */
#endif
/* one event = one packed word: kind | rule << 4 | a << 16 | b << 24   (rule < 4096, positions < 256) */
static u32 ev_real[EV_MAX], ev_spec[EV_MAX];
#define EV_PACK(kind, rule, a, b) ((u32)(kind) | ((u32)(rule) << 4) | ((u32)((a) & 255) << 16) | ((u32)((b) & 255) << 24))
static unsigned ev_nreal, ev_nspec;
static u8 T_veto[EV_RULES][SP_N + 1];

static unsigned ev_slot(u32 rule) { return rule >= 500 ? 8 + ((rule - 500) & 3) : rule >= 100 ? 4 + ((rule - 100) & 3) : (rule & 3); }

static void ev_push_real(u8 kind, u32 rule, u64 a, u64 b) {
  if (ev_nreal < EV_MAX) ev_real[ev_nreal] = EV_PACK(kind, rule, a, b);
  ev_nreal++;
}
static void sv(u8 kind, u32 rule, u64 a, u64 b) {
  if (ev_nspec < EV_MAX) ev_spec[ev_nspec] = EV_PACK(kind, rule, a, b);
  ev_nspec++;
}
/* callbacks from the real code */
void x_verif_event(u32 kind, u32 rule, u64 a, u64 b) { ev_push_real((u8)kind, rule, a, b); }
static int sp_veto(u32 rule, u64 begin, u64 end) { (void)end; return T_veto[ev_slot(rule)][begin <= SP_N ? begin : 0]; }
u32 x_verif_veto(u32 rule, u64 begin, u64 end) { return (u32)sp_veto(rule, begin, end); }
#ifdef SP_LEAFSYM   /* sub-rules with the simple interface do not know the apply mode: logged as 7 on both sides */
static out_t sp_sym_logged(int k, u64 p, int a) { (void)a; sv(11, (u32)k, p, 7); return sp_sym(k, p); }
#else
static out_t sp_sym_logged(int k, u64 p, int a) { sv(11, (u32)k, p, (u64)a); return sp_sym(k, p); }
#endif

static void ev_setup(void) {
  ev_nreal = 0; ev_nspec = 0;
  for (int r = 0; r < EV_RULES; ++r) for (u64 p = 0; p <= SP_N; ++p) T_veto[r][p] = (u8)IN(0, EV_VETO_MAX);
}
static void ev_reset_real(void) { ev_nreal = 0; }
static void ev_reset_spec(void) { ev_nspec = 0; }
static void ev_compare(void) {
  CHECK(ev_nreal == ev_nspec, "number of hook/action events equals the protocol");
  for (unsigned i = 0; i < EV_MAX; ++i) {
    if (i < ev_nspec && i < ev_nreal) {
      CHECK((ev_real[i] & 0xffff) == (ev_spec[i] & 0xffff), "event kind and rule follow the protocol (start; nested; [apply]; success|failure|unwind)");
      CHECK((ev_real[i] >> 16) == (ev_spec[i] >> 16), "event arguments (positions, action span, apply mode) follow the protocol");
    }
  }
  OBS(ev_nreal);
#ifndef __CPROVER__
  if (vf_mode == 1) {
    static const char *kn[] = { "?", "START", "SUCCESS", "FAILURE", "UNWIND", "RAISE", "APPLY", "APPLY0", "CTOR", "STATE_SUCCESS", "DTOR", "SYM", "?", "?", "?", "?" };
    printf("real log:"); for (unsigned i = 0; i < ev_nreal && i < EV_MAX; ++i) printf(" %s(%u,%u,%u)", kn[ev_real[i] & 15], (ev_real[i] >> 4) & 4095, (ev_real[i] >> 16) & 255, ev_real[i] >> 24); printf("\n");
    printf("spec log:"); for (unsigned i = 0; i < ev_nspec && i < EV_MAX; ++i) printf(" %s(%u,%u,%u)", kn[ev_spec[i] & 15], (ev_spec[i] >> 4) & 4095, (ev_spec[i] >> 16) & 255, ev_spec[i] >> 24); printf("\n");
  }
#endif
}
#endif
