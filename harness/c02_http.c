/* C02: http chunk rules on symbolic bytes */
#define VF_ALPHABET "1aF;\r\n=x\"0"
#include "verif.h"
#include "leaf.h"
#ifndef NA
#define NA 4
#endif
#define B(i) (lf_buf[i])
static int ishex(u8 c) { return (c >= '0' && c <= '9') || (c >= 'a' && c <= 'f') || (c >= 'A' && c <= 'F'); }
static u64 hexv(u8 c) { return c <= '9' ? c - '0' : c >= 'a' ? c - 'a' + 10 : c - 'A' + 10; }
static void harness(void) {
  lf_setup(NA);
  u64 o[8] = { 0 };
  u64 size_in = IN(0, 0xffffffffffffffffULL);   /* the announced chunk size is attacker-controlled: any 64-bit value */
#if !defined(VF_SPLIT) || defined(V_chunk_size)
  { u64 i = 0, v = 0; for (u64 k = 0; k < NA; ++k) { if (lf_start + i < lf_n && ishex(B(lf_start + i))) { v = (v << 4) | hexv(B(lf_start + i)); i++; } else break; }
    w_chunk_size_r(lf_buf, lf_n, lf_start, o);
    lf_check(o, i > 0, lf_start + i, 1, NA);
    if (i > 0) CHECK(o[2] == v, "chunk_size stores the value of the hex digits it consumed");
    REACH(i == 2, "two hex digits"); REACH(i == 0, "no hex digit"); }
#endif
#if !defined(VF_SPLIT) || defined(V_chunk_data)
  { int ok = size_in <= lf_n - lf_start;
    w_chunk_data_r(lf_buf, lf_n, lf_start, size_in, o);
    CHECK(o[0] == (u64)ok, "chunk_data matches iff size bytes are available");
    CHECK(o[1] == (ok ? lf_start + size_in : lf_start), "chunk_data consumes exactly size bytes or nothing");
    CHECK(o[1] <= lf_n, "cursor never past the end");
    REACH(ok && size_in == 2, "two data bytes"); REACH(!ok, "not enough data"); REACH(size_in > 0xfffffffffffffff0ULL, "announced size close to 2^64"); }
#endif
#if !defined(VF_SPLIT) || defined(V_chunk)
  { /* chunk = chunk-size chunk-ext CRLF chunk-data CRLF ; only the rewind contract is checked here */
    w_chunk_r(lf_buf, lf_n, lf_start, o);
    CHECK(o[1] <= lf_n, "cursor never past the end");
    if (o[0] == 0) CHECK(o[1] == lf_start, "local failure of chunk under rewind_mode::required restores the cursor");
    if (o[0] == 1) CHECK(o[1] >= lf_start + 5, "a chunk is at least size CRLF CRLF long");
    u64 r1 = o[0];
    w_chunk_o(lf_buf, lf_n, lf_start, o);
    CHECK(o[0] == r1, "result independent of the rewind mode");
    REACH(r1 == 0, "chunk fails"); REACH(r1 == 2, "chunk raises (chunk-ext must)");
#if NA >= 5
    REACH(r1 == 1, "chunk matches");
#endif
  }
#endif
}
