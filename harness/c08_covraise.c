/* C08 (coverage facility): the raise hook of the real coverage_state for raise< T >, from the map as visit<> fills it */
#include "verif.h"
void x_verif_map_at_missing(void) { CHECK(0, "std::map::at is never asked for a missing key"); }
void x_verif_capacity_exceeded(void) { CHECK(0, "stand-in container capacity suffices"); }
static void harness(void) {
  static u64 o[6];
  u64 which = IN(0, 3);
  w_covraise(which, o);
  int parent = which < 2, elsewhere = (which & 1) == 0;
  CHECK(o[0] == 0, "the raise hook of the coverage state does not throw for raise< T >");
  CHECK(o[1] == 1, "the raise is counted in the rule entry of the blamed rule");
  CHECK(o[5] == 0, "no other counter of the blamed rule changes");
  CHECK(parent ? o[2] == 1 : o[2] == 999, "the raise is counted under the enclosing raise< T > (branch entry created on demand), and only there");
  CHECK(o[4] == o[3] + (elsewhere ? 0 : 1), "the result map grows by exactly the entry of a blamed rule that occurs nowhere else");
  OBS(o[0]); OBS(o[1]); OBS(o[2]); OBS(o[3]); OBS(o[4]); OBS(o[5]);
  REACH(parent && !elsewhere, "raise< T > with T outside the grammar, inside the raise frame");
  REACH(!parent && elsewhere, "hook called with an empty name stack");
}
