// C01: (mutually) recursive named rules over symbolic sub-rules
#include "common.hpp"
using namespace tao::pegtl;
using vf::sym;
// R := ( s0 R s1 ) / s2                      direct recursion (nested brackets)
struct R : sor< seq< sym< 0 >, R, sym< 1 > >, sym< 2 > > {};
// A := ( s0 B ) / s2 ;  B := star< s1 > A    mutual recursion through a repetition
struct B;
struct A : sor< seq< sym< 0 >, B >, sym< 2 > > {};
struct B : seq< opt< sym< 1 > >, A > {};
VF_WRAP7( w_R, R )
VF_WRAP7( w_A, A )
