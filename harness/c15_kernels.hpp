// C15: direct wrappers for the internal conversion kernels of contrib/integer.hpp.
// Kept apart from c15_common.hpp: only the kernel units depend on the names of library internals, so that a refactoring of those
// internals can make the kernel queries inconclusive but never the rule/action queries that go through the public interface.
#ifndef VERIF_C15_KERNELS_HPP
#define VERIF_C15_KERNELS_HPP
#include "c15_common.hpp"
namespace c15
{
   using namespace tao::pegtl;
   // conversion kernels: out[0] return value, out[1] bits of the result object after the call
   template< typename T, T Max >
   inline void step( unsigned long r, unsigned long d, unsigned long* out )
   {
      T x = static_cast< T >( r );
      out[ 0 ] = internal::accumulate_digit< T, Max >( x, static_cast< char >( d ) );
      out[ 1 ] = raw( x );
   }

   template< typename T, T Max >
   inline void digits( const char* b, unsigned long n, unsigned long r, unsigned long* out )
   {
      T x = static_cast< T >( r );
      out[ 0 ] = internal::accumulate_digits< T, Max >( x, std::string_view( b, n ) );
      out[ 1 ] = raw( x );
   }

   template< typename T, T Max >
   inline void cpos( const char* b, unsigned long n, unsigned long r, unsigned long* out )
   {
      T x = static_cast< T >( r );
      out[ 0 ] = internal::convert_positive< T, Max >( x, std::string_view( b, n ) );
      out[ 1 ] = raw( x );
   }

   template< typename T, T Max >
   inline void cuns( const char* b, unsigned long n, unsigned long r, unsigned long* out )
   {
      T x = static_cast< T >( r );
      out[ 0 ] = internal::convert_unsigned< T, Max >( x, std::string_view( b, n ) );
      out[ 1 ] = raw( x );
   }

   template< typename T >
   inline void cneg( const char* b, unsigned long n, unsigned long r, unsigned long* out )
   {
      T x = static_cast< T >( r );
      out[ 0 ] = internal::convert_negative< T >( x, std::string_view( b, n ) );
      out[ 1 ] = raw( x );
   }

   template< typename T >
   inline void csig( const char* b, unsigned long n, unsigned long r, unsigned long* out )
   {
      T x = static_cast< T >( r );
      out[ 0 ] = internal::convert_signed< T >( x, std::string_view( b, n ) );
      out[ 1 ] = raw( x );
   }

}  // namespace c15
#endif
