// c12_tree.hpp — wrapper-side helpers for C12: run the REAL parse_tree::parse<> and flatten the returned tree.
//
// The unit is compiled with  -I /verif/lib/stubstd -DVSTUB_CAP=<cap>  so that std::vector (children, builder stack) is the
// array-backed stand-in; std::unique_ptr, parse_tree::basic_node, internal::state, make_control, the selector machinery and the
// transformers are the real ones from /repo.
#pragma once

#include "common.hpp"
#include <tao/pegtl/contrib/parse_tree.hpp>

#ifndef C12_MAXNODES
#define C12_MAXNODES 8
#endif
#ifndef C12_MAXDEPTH
#define C12_MAXDEPTH 6
#endif

namespace c12
{
   struct tnode;
}

// The node class brings its own deleter (a program-defined specialisation of std::default_delete for a program-defined type):
// it frees exactly the nodes the primary template would free (the node and everything below it, each once), but walks the
// subtree with an explicit work list instead of recursing through ~vector -> ~unique_ptr -> ~tnode.  A bounded model checker
// unfolds that recursion once per child slot and level (capacity^depth copies at every pop_back); the loop below is linear.
namespace std
{
   template<>
   struct default_delete< c12::tnode >
   {
      constexpr default_delete() noexcept = default;
      inline void operator()( c12::tnode* p ) const;
   };
}  // namespace std

namespace c12
{
   using namespace tao::pegtl;

   // custom node class (doc/Parse-Tree.md "Custom Node Class"): the real basic_node plus an integer identity
   // recorded when the node is started (avoids comparing demangled names in the solver; is_type<>() is checked separately)
   struct tnode
      : parse_tree::basic_node< tnode >
   {
      int id = -1;

      template< typename Rule, typename ParseInput, typename... States >
      void start( const ParseInput& in, States&&... st )
      {
         id = vf::rid< Rule >::value;
         parse_tree::basic_node< tnode >::template start< Rule >( in, st... );
      }
   };

}  // namespace c12

inline void std::default_delete< c12::tnode >::operator()( c12::tnode* p ) const
{
#ifdef C12_LEAK
   (void)p;
   return;
#endif
   c12::tnode* work[ C12_MAXNODES + 2 ];
   unsigned n = 0;
   work[ n++ ] = p;
   // one node per iteration
   for( unsigned it = 0; ( it < C12_MAXNODES + 2 ) && ( n != 0 ); ++it ) {
      c12::tnode* q = work[ --n ];
      for( auto& c : q->children ) {
         if( c ) {
            if( n == C12_MAXNODES + 2 ) {
               verif_capacity_exceeded();
            }
            work[ n++ ] = c.release();
         }
      }
      // every child pointer is null now and the other members are trivially destructible: ~tnode() would do nothing,
      // the storage is released without calling it (calling it would re-enter ~unique_ptr for every child slot)
      ::operator delete( q );
   }
   if( n != 0 ) {
      verif_capacity_exceeded();
   }
}

namespace c12
{
   // the node's `type` member against the list of selected rules: id of the first rule whose demangled name it IS (same
   // characters at the same address, the first disjunct of basic_node::is_type<>(); the memcmp fallback is not exercised) or -1
   template< typename Rule >
   inline bool same_name( const std::string_view t )
   {
      const auto u = demangle< Rule >();
      return ( t.data() == u.data() ) && ( t.size() == u.size() );
   }

   template< typename... Rules >
   struct typelist
   {
      template< typename Node >
      static int id_of( const Node& n )
      {
         int r = -1;
         (void)( ( same_name< Rules >( n.type ) ? ( r = vf::rid< Rules >::value, true ) : false ) || ... );
         return r;
      }
   };

   // out[0] result (0 no tree / 1 tree / 2 verif_exc / 3 foreign_exc), out[1] cursor, out[2] exception id,
   // out[3] number of nodes below the root, out[4] flags of the root (bit0: is_root(), bit1: has_content()),
   // out[5] nodes dropped because they did not fit (0 within bounds),
   // then per node in pre-order at out[8 + 6*i ..]: id, depth (children of the root: 0), begin, end (or ~0 without content),
   //                                               number of children, id according to is_type<>()
   template< typename Types >
   inline void flatten( const tnode& root, const char* base, unsigned long* out )
   {
      const tnode* stk[ C12_MAXDEPTH + 1 ];
      unsigned long idx[ C12_MAXDEPTH + 1 ];
      unsigned long n = 0;
      unsigned long lost = 0;
      int d = 0;
      stk[ 0 ] = &root;
      idx[ 0 ] = 0;
      // every iteration either descends into one node (<= C12_MAXNODES times) or pops one level
      for( unsigned it = 0; it < 2 * C12_MAXNODES + 2; ++it ) {
         const tnode* cur = stk[ d ];
         if( idx[ d ] < cur->children.size() ) {
            const tnode* c = cur->children[ idx[ d ] ].get();
            ++idx[ d ];
            if( ( n < C12_MAXNODES ) && ( d < C12_MAXDEPTH ) ) {
               unsigned long* o = out + 8 + 6 * n;
               o[ 0 ] = (unsigned long)(long)c->id;
               o[ 1 ] = (unsigned long)d;
               o[ 2 ] = (unsigned long)( c->m_begin.data - base );
               o[ 3 ] = c->has_content() ? (unsigned long)( c->m_end.data - base ) : ~0UL;
               o[ 4 ] = c->children.size();
               o[ 5 ] = (unsigned long)(long)Types::id_of( *c );
               ++n;
               ++d;
               stk[ d ] = c;
               idx[ d ] = 0;
            }
            else {
               ++lost;
            }
         }
         else {
            if( d == 0 ) {
               break;
            }
            --d;
         }
      }
      out[ 3 ] = n;
      out[ 5 ] = lost;
   }

   template< typename Rule, template< typename... > class Selector, template< typename... > class Action, typename Types >
   inline void run_tree( const char* b, unsigned long n, unsigned long start, unsigned long* out )
   {
      vf::eager_in in( b, b + n, "" );
      in.bump_in_this_line( start );
      out[ 2 ] = 0;
      out[ 3 ] = 0;
      out[ 4 ] = 0;
      out[ 5 ] = 0;
      try {
         const std::unique_ptr< tnode > r = parse_tree::parse< Rule, tnode, Selector, Action, vf::vcontrol >( in );
         if( r ) {
            out[ 0 ] = 1;
            out[ 4 ] = ( r->is_root() ? 1UL : 0UL ) | ( r->has_content() ? 2UL : 0UL );
#ifdef C12_NOFLATTEN
            out[ 3 ] = r->children.size();
#else
            flatten< Types >( *r, b, out );
#endif
         }
         else {
            out[ 0 ] = 0;
         }
      }
      catch( const vf::verif_exc& e ) {
         out[ 0 ] = 2;
         out[ 2 ] = e.id;
      }
      catch( const vf::foreign_exc& e ) {
         out[ 0 ] = 3;
         out[ 2 ] = e.id;
      }
      out[ 1 ] = in.byte();
   }

   // the plain parse of the same grammar (no tree building): out[0] result, out[1] cursor, out[2] exception id
   template< typename Rule, template< typename... > class Action >
   inline void run_plain( const char* b, unsigned long n, unsigned long start, unsigned long* out )
   {
      vf::eager_in in( b, b + n, "" );
      in.bump_in_this_line( start );
      out[ 2 ] = 0;
      try {
         out[ 0 ] = tao::pegtl::parse< Rule, Action, vf::vcontrol >( in ) ? 1 : 0;
      }
      catch( const vf::verif_exc& e ) {
         out[ 0 ] = 2;
         out[ 2 ] = e.id;
      }
      catch( const vf::foreign_exc& e ) {
         out[ 0 ] = 3;
         out[ 2 ] = e.id;
      }
      out[ 1 ] = in.byte();
   }

}  // namespace c12

#define C12_WRAP( name, Rule, Selector, Action, Types )                                                                                              \
   extern "C" __attribute__( ( noinline ) ) void name( const char* b, unsigned long n, unsigned long s, unsigned long* o ) { c12::run_tree< Rule, Selector, Action, Types >( b, n, s, o ); } \
   extern "C" __attribute__( ( noinline ) ) void name##_plain( const char* b, unsigned long n, unsigned long s, unsigned long* o ) { c12::run_plain< Rule, Action >( b, n, s, o ); }
