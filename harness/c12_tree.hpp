// c12_tree.hpp — wrapper-side helpers for C12: run the REAL parse_tree::parse<> and report the returned tree.
//
// The unit is compiled with  -I /verif/lib/stubstd -DVSTUB_CAP=<cap>  so that std::vector (children, builder stack) is the
// array-backed stand-in; std::unique_ptr, parse_tree::basic_node, internal::state, make_control, the selector machinery and the
// transformers are the real ones from /repo.
#pragma once

#include "common.hpp"
#include <tao/pegtl/contrib/parse_tree.hpp>

#ifndef C12_MAXCH
#define C12_MAXCH 3  // children per node that are reported (more -> out[5] != 0)
#endif
#ifndef C12_MAXD
#define C12_MAXD 3  // levels below the root that are reported (deeper -> out[5] != 0)
#endif

// control under the tree builder: the documented customisation point vf::vcontrol (raise throws a POD), or must_if<> on top of it
// (rules 1 and 101 turn their local failure into a global one from inside Control::failure())
namespace vf
{
   template< typename Rule >
   using vmi_control = typename tao::pegtl::must_if< verrors, vcontrol, false >::template control< Rule >;
}
#ifndef C12_CONTROL
#define C12_CONTROL vf::vcontrol
#endif
// user states handed to parse_tree::parse( in, st... ): none, or one object (every hook of the builder then sees state< Node >& plus a user state;
// transformers and the optional unwind() are found by SFINAE on exactly that argument list)
#ifdef C12_USER_STATE
namespace c12 { inline vf::ostate user_state; }
#define C12_STATE_ARGS , c12::user_state
#define C12_STATE_PRE c12::user_state,    /* the builder state goes LAST (rotate_states_right moves it to the front) */
#else
#define C12_STATE_ARGS
#define C12_STATE_PRE
#endif

namespace c12
{
   struct tnode;
}

#if defined( __clang__ ) && !defined( C12_REAL_DELETE )
// Translated build (clang -> IR -> ll2c -> CBMC): the node class brings its own deleter that releases nothing.  The primary
// std::default_delete recurses ~tnode -> ~vector -> ~unique_ptr -> ~tnode; a bounded model checker unfolds that recursion once
// per child slot and level at every pop_back (capacity^depth copies, measured: no verdict in 600 s / > 20 GB for a five-rule
// grammar).  Freeing a popped subtree has no effect on the nodes that stay in the tree, which is all the property talks about.
// The g++ build used for translation validation and for replays keeps the real deleter, under AddressSanitizer.
namespace std
{
   template<>
   struct default_delete< c12::tnode >
   {
      constexpr default_delete() noexcept = default;
      void operator()( c12::tnode* /*unused*/ ) const noexcept {}
   };
}  // namespace std
#endif

namespace c12
{
   using namespace tao::pegtl;

   // custom node class (doc/Parse-Tree.md "Custom Node Class"): the real basic_node plus an integer identity
   // recorded when the node is started (avoids comparing demangled names in the solver; `type` is checked separately)
   struct tnode
      : parse_tree::basic_node< tnode >
   {
      int id = -1;

      template< typename Rule, typename ParseInput, typename... States >
      void start( const ParseInput& in, States&&... st )
      {
         id = vf::rid< Rule >::value;
         parse_tree::basic_node< tnode >::template start< Rule >( in, st... );
      }
   };

   // the node's `type` member against the list of selected rules: id of the first rule whose demangled name it IS (same
   // characters at the same address, the first disjunct of basic_node::is_type<>(); the memcmp fallback is not exercised) or -1
   template< typename Rule >
   inline bool same_name( const std::string_view t )
   {
      const auto u = demangle< Rule >();
      return ( t.data() == u.data() ) && ( t.size() == u.size() );
   }

   template< typename... Rules >
   struct typelist
   {
      static int id_of( const std::string_view t )
      {
         int r = -1;
         (void)( ( same_name< Rules >( t ) ? ( r = vf::rid< Rules >::value, true ) : false ) || ... );
         return r;
      }
   };

   // Positional report of the tree: the node reached from the root through child indices i0, i1, .., id (all < C12_MAXCH,
   // d < C12_MAXD) is written to slot  off(d) + (((i0 * MAXCH) + i1) * MAXCH + ..) + id,  off(d) = MAXCH + .. + MAXCH^d.
   // Every index is a compile-time constant after unrolling, so the solver sees no symbolic array index on this side.
   //   word: bit 63 present | bits 0..15 id + 1 | 16..31 id according to `type` + 1 | 32..39 begin | 40..47 end (255: no content)
   //         | 48..55 number of children
   constexpr unsigned long level_off( int d )
   {
      unsigned long o = 0;
      unsigned long w = C12_MAXCH;
      for( int i = 0; i < d; ++i ) {
         o += w;
         w *= C12_MAXCH;
      }
      return o;
   }

   constexpr unsigned long total_slots = level_off( C12_MAXD );

   template< typename Types >
   inline unsigned long pack( const tnode& c, const char* base )
   {
      const unsigned long id = (unsigned long)( c.id + 1 ) & 0xffffUL;
      const unsigned long tid = (unsigned long)( Types::id_of( c.type ) + 1 ) & 0xffffUL;
      const unsigned long b = (unsigned long)( c.m_begin.data - base ) & 0xffUL;
      const unsigned long e = c.has_content() ? ( (unsigned long)( c.m_end.data - base ) & 0xffUL ) : 0xffUL;
      const unsigned long nc = c.children.size() & 0xffUL;
      return ( 1UL << 63 ) | id | ( tid << 16 ) | ( b << 32 ) | ( e << 40 ) | ( nc << 48 );
   }

   template< int D, typename Types >
   inline void walk( const tnode& parent, const unsigned long j, const char* base, unsigned long* slots, unsigned long& count, unsigned long& lost )
   {
      if( parent.children.size() > C12_MAXCH ) {
         ++lost;
      }
      for( unsigned long i = 0; i < C12_MAXCH; ++i ) {
         if( i < parent.children.size() ) {
            const tnode* c = parent.children[ i ].get();
            if( c == nullptr ) {
               ++lost;
               continue;
            }
            slots[ level_off( D ) + j * C12_MAXCH + i ] = pack< Types >( *c, base );
            ++count;
            if constexpr( D + 1 < C12_MAXD ) {
               walk< D + 1, Types >( *c, j * C12_MAXCH + i, base, slots, count, lost );
            }
            else {
               if( !c->children.empty() ) {
                  ++lost;
               }
            }
         }
      }
   }

   // out[0] result (0 no tree / 1 tree / 2 verif_exc / 3 foreign_exc), out[1] cursor, out[2] exception id,
   // out[3] number of nodes below the root, out[4] flags of the root (bit0: is_root(), bit1: has_content()),
   // out[5] something did not fit the report (0 within bounds), out[6] number of children of the root,
   // out[8 ..] the slots (the caller clears them)
   template< typename Rule, template< typename... > class Selector, template< typename... > class Action, typename Types >
   inline void run_tree( const char* b, unsigned long n, unsigned long start, unsigned long* out )
   {
      vf::eager_in in( b, b + n, "" );
      in.bump_in_this_line( start );
      out[ 2 ] = 0;
      out[ 3 ] = 0;
      out[ 4 ] = 0;
      out[ 5 ] = 0;
      out[ 6 ] = 0;
      try {
         const std::unique_ptr< tnode > r = parse_tree::parse< Rule, tnode, Selector, Action, C12_CONTROL >( in C12_STATE_ARGS );
         if( r ) {
            unsigned long count = 0;
            unsigned long lost = 0;
            out[ 0 ] = 1;
            out[ 4 ] = ( r->is_root() ? 1UL : 0UL ) | ( r->has_content() ? 2UL : 0UL );
            out[ 6 ] = r->children.size();
            walk< 0, Types >( *r, 0, b, out + 8, count, lost );
            out[ 3 ] = count;
            out[ 5 ] = lost;
         }
         else {
            out[ 0 ] = 0;
         }
      }
      catch( const vf::verif_exc& e ) {
         out[ 0 ] = 2;
         out[ 2 ] = e.id;
      }
      catch( const vf::foreign_exc& e ) {
         out[ 0 ] = 3;
         out[ 2 ] = e.id;
      }
      out[ 1 ] = in.byte();
   }

   // the plain parse of the same grammar (no tree building): out[0] result, out[1] cursor, out[2] exception id
   template< typename Rule, template< typename... > class Action >
   inline void run_plain( const char* b, unsigned long n, unsigned long start, unsigned long* out )
   {
      vf::eager_in in( b, b + n, "" );
      in.bump_in_this_line( start );
      out[ 2 ] = 0;
      try {
         out[ 0 ] = tao::pegtl::parse< Rule, Action, C12_CONTROL >( in C12_STATE_ARGS ) ? 1 : 0;
      }
      catch( const vf::verif_exc& e ) {
         out[ 0 ] = 2;
         out[ 2 ] = e.id;
      }
      catch( const vf::foreign_exc& e ) {
         out[ 0 ] = 3;
         out[ 2 ] = e.id;
      }
      out[ 1 ] = in.byte();
   }

   // the same parse with the pieces of parse_tree::parse() spelled out, so that the builder can be inspected after a run that
   // produced no tree:  out[0] result, out[1] cursor, out[2] exception id, out[3] entries left on the builder stack,
   // out[4] children hanging below the bottom entry (the root), out[5] 1 if the bottom entry is a root node
   template< typename Rule, template< typename... > class Selector, template< typename... > class Action >
   inline void run_stack( const char* b, unsigned long n, unsigned long start, unsigned long* out )
   {
      vf::eager_in in( b, b + n, "" );
      in.bump_in_this_line( start );
      out[ 2 ] = 0;
      parse_tree::internal::state< tnode > st;
      try {
         out[ 0 ] = tao::pegtl::parse< Rule, Action, parse_tree::internal::make_control< tnode, Selector, C12_CONTROL >::template type >( in, C12_STATE_PRE st ) ? 1 : 0;
      }
      catch( const vf::verif_exc& e ) {
         out[ 0 ] = 2;
         out[ 2 ] = e.id;
      }
      catch( const vf::foreign_exc& e ) {
         out[ 0 ] = 3;
         out[ 2 ] = e.id;
      }
      out[ 1 ] = in.byte();
      out[ 3 ] = st.stack.size();
      out[ 4 ] = st.stack.empty() ? 99 : st.stack.front()->children.size();
      out[ 5 ] = st.stack.empty() ? 0 : ( st.stack.front()->is_root() ? 1 : 0 );
   }

}  // namespace c12

#define C12_WRAP_STACK( name, Rule, Selector, Action )                                                                                              \
   extern "C" __attribute__( ( noinline ) ) void name##_stack( const char* b, unsigned long n, unsigned long s, unsigned long* o ) { c12::run_stack< Rule, Selector, Action >( b, n, s, o ); }

#define C12_WRAP( name, Rule, Selector, Action, Types )                                                                                              \
   extern "C" __attribute__( ( noinline ) ) void name( const char* b, unsigned long n, unsigned long s, unsigned long* o ) { c12::run_tree< Rule, Selector, Action, Types >( b, n, s, o ); } \
   extern "C" __attribute__( ( noinline ) ) void name##_plain( const char* b, unsigned long n, unsigned long s, unsigned long* o ) { c12::run_plain< Rule, Action >( b, n, s, o ); }
