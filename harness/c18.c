/* C18: depth and byte limits — real guards over symbolic sub-rules that report the depth / input end they observe */
#ifndef SP_N
#define SP_N 3
#endif
#ifndef LIM
#define LIM 2
#endif
#define K 3
#ifndef BIG
#define BIG 70000
#endif
#include "verif.h"
typedef struct { int r; u64 pos; int id; u64 at; } out_t;
static u64 n_, start_;
static u8 *buf_;
/* behaviour tables: may depend on the position and on the end of the input the rule can see */
static u8 T_res[K][SP_N + 1][SP_N + 1];
static u64 T_np[K][SP_N + 1][SP_N + 1], T_garb[K][SP_N + 1][SP_N + 1];
/* observation log of the real run */
#define LOGMAX 24
static u8 lg_k[LOGMAX]; static u64 lg_pos[LOGMAX], lg_end[LOGMAX], lg_depth[LOGMAX]; static unsigned lg_n;
static unsigned long calls_; static int exhausted_;
u32 x_verif_dsym(u32 k, u64 pos, u64 end, u64 depth, u32 m, u64 *np) {
#ifndef __CPROVER__
  if (++calls_ > 512) { exhausted_ = 1; *np = pos; return 0; }
  if (k >= K || pos > SP_N || end > SP_N || pos > end) { printf("ASSERT-FAIL sub-rule sees an inconsistent input window pos=%llu end=%llu\n", (unsigned long long)pos, (unsigned long long)end); vf_fail++; *np = pos; return 0; }
#endif
  CHECK(k < K && pos <= end && end <= n_, "sub-rule sees a consistent input window");
  if (lg_n < LOGMAX) { lg_k[lg_n] = k; lg_pos[lg_n] = pos; lg_end[lg_n] = end; lg_depth[lg_n] = depth; }
  lg_n++;
  u32 r = T_res[k][pos][end];
  if (r == 1) *np = T_np[k][pos][end]; else if (r >= 2) *np = T_garb[k][pos][end]; else *np = (m == 0) ? pos : T_garb[k][pos][end];
  return r;
}
void x_verif_event(u32 a, u32 b, u64 c, u64 d) {}
u32 x_verif_sym(u32 k, u64 pos, u32 a, u32 m, u64 *np) { *np = pos; return 0; }
u32 x_verif_veto(u32 r, u64 b, u64 e) { return 1; }

/* reference: expected observation log */
static u8 sx_k[LOGMAX]; static u64 sx_pos[LOGMAX], sx_end[LOGMAX], sx_depth[LOGMAX]; static unsigned sx_n;
static out_t S(int k, u64 p, u64 end, u64 depth) {
  if (sx_n < LOGMAX) { sx_k[sx_n] = k; sx_pos[sx_n] = p; sx_end[sx_n] = end; sx_depth[sx_n] = depth; }
  sx_n++;
  out_t o = { T_res[k][p][end], p, 0, 0 };
  if (o.r == 1) o.pos = T_np[k][p][end];
  if (o.r == 2) { o.id = 1000 + k; o.at = T_garb[k][p][end]; }
  if (o.r == 3) { o.id = 2000 + k; }
  return o;
}
static out_t fail_(u64 p) { out_t o = { 0, p, 0, 0 }; return o; }

/* R := ( d0 R d2 ) / d1 under limit_depth< LIM >: every attempt of R is one level */
static out_t specR(u64 p, u64 d) {
  u64 d1 = d + 1;
  if (d1 > LIM) { out_t o = { 2, p, 700, p }; return o; }
  out_t a = S(0, p, n_, d1);
  if (a.r >= 2) return a;
  if (a.r == 1) {
    out_t b = specR(a.pos, d1);
    if (b.r >= 2) return b;
    if (b.r == 1) { out_t c = S(2, b.pos, n_, d1); if (c.r >= 2 || c.r == 1) return c; }
  }
  out_t e = S(1, p, n_, d1);
  if (e.r == 0) return fail_(p);
  return e;
}

/* G := d0 X d2, X := d1 under limit_bytes< LIM > */
static out_t specG(u64 p) {
  out_t a = S(0, p, n_, 0);
  if (a.r != 1) return a.r ? a : fail_(p);
  u64 q = a.pos;
  u64 lim = (n_ - q < LIM) ? n_ : q + LIM;             /* the guarded rule may see at most LIM bytes from where it starts */
  out_t x = S(1, q, lim, 0);
  if (x.r >= 2) return x;
  if (x.r == 0) return fail_(p);
  if (x.pos == lim && lim != n_) { out_t o = { 2, p, 701, x.pos }; return o; }   /* consumed the whole window although more input exists: reported as limit reached */
  out_t c = S(2, x.pos, n_, 0);
  if (c.r != 1) return c.r ? c : fail_(p);
  return c;
}

static void setup(void) {
  n_ = IN(0, SP_N); start_ = IN(0, n_);
  buf_ = (u8 *)exact_alloc_n(n_, SP_N);
  for (int k = 0; k < K; ++k) for (u64 p = 0; p <= SP_N; ++p) for (u64 e = 0; e <= SP_N; ++e) {
    T_res[k][p][e] = (u8)IN(0, 3);
    u64 hi = p <= e ? e : p;
    T_np[k][p][e] = IN(p, hi); T_garb[k][p][e] = IN(p, hi);
  }
  lg_n = 0; sx_n = 0; calls_ = 0; exhausted_ = 0;
}
static void compare_logs(void) {
  CHECK(lg_n == sx_n, "the guarded run asks the same sub-rules in the same order as the reference");
  for (unsigned i = 0; i < LOGMAX; ++i) if (i < lg_n && i < sx_n) {
    CHECK(lg_k[i] == sx_k[i] && lg_pos[i] == sx_pos[i], "same sub-rule at the same position");
    CHECK(lg_end[i] == sx_end[i], "a byte-limited rule sees exactly min(LIM, remaining) bytes from where its match started; others see the whole input");
    CHECK(lg_depth[i] == sx_depth[i], "the depth counter equals the number of guarded levels currently entered");
  }
}
static void check_out(u64 *o, out_t e, int required) {
  CHECK(o[0] == (u64)e.r, "result (success / local failure / limit error) as specified");
  if (e.r == 1) CHECK(o[1] == e.pos, "consumption as specified");
  if (e.r == 0 && required) CHECK(o[1] == start_, "local failure restores the cursor");
  if (e.r >= 2) CHECK((s64)o[2] == (s64)e.id, "identity of the error (limit vs. sub-rule)");
  if (e.r == 2 && e.id == 700) CHECK(o[3] == e.at, "depth limit error raised where the too-deep attempt starts");
}

static void harness(void) {
  setup();
  u64 o[8];
#ifdef STEP
  /* one guarded step from an arbitrary pre-state: d0 levels already entered (any 64-bit count), limit BIG */
  u64 d0 = IN(0, 0xfffffffffffffffeULL);
  lg_n = 0; w_depth_step(buf_, n_, start_, d0, o);
  CHECK(o[5] == d0, "the depth counter holds any number of entered levels (no narrowing)");
  if (d0 + 1 > BIG) {
    CHECK(o[0] == 2 && o[2] == 702 && o[3] == start_, "one level beyond the limit: error raised where the attempt starts");
    CHECK(lg_n == 0, "the guarded rule is not attempted beyond the limit");
  } else {
    CHECK(lg_n == 1 && lg_k[0] == 1 && lg_pos[0] == start_ && lg_end[0] == n_, "within the limit the guarded rule is attempted once, where it starts");
    CHECK(lg_depth[0] == d0 + 1, "the guarded rule runs at depth d0 + 1");
    u8 r = T_res[1][start_][n_];
    CHECK(o[0] == r, "result of the guarded rule handed on");
    if (r == 1) CHECK(o[1] == T_np[1][start_][n_], "consumption of the guarded rule handed on");
    if (r == 2) CHECK(o[2] == 1001, "error of the guarded rule handed on");
  }
  CHECK(o[4] == d0, "depth counter back to its previous value afterwards (success, failure or exception)");
  REACH(d0 + 1 > BIG, "limit exceeded"); REACH(d0 == BIG - 1 && o[0] == 1, "deepest permitted level succeeds");
  REACH(d0 > 0xffffffffULL, "more than 2^32 levels entered"); REACH(o[0] == 3, "foreign exception");
#elif defined(DEPTH)
  /* progress: the recursive alternative must consume, otherwise recursion is unbounded without the guard */
  for (u64 p = 0; p <= SP_N; ++p) for (u64 e = 0; e <= SP_N; ++e) ASSUME(T_res[0][p][e] != 1 || T_np[0][p][e] > p);
  out_t e = specR(start_, 0);
  ASSUME(sx_n <= LOGMAX);
#if !defined(VF_SPLIT) || defined(V_ar)
  lg_n = 0; w_depth_ar(buf_, n_, start_, o); check_out(o, e, 1); compare_logs(); CHECK(o[4] == 0, "depth counter back to its initial value afterwards (success, failure or exception)");
#endif
#if !defined(VF_SPLIT) || defined(V_ao)
  lg_n = 0; w_depth_ao(buf_, n_, start_, o); check_out(o, e, 0); compare_logs(); CHECK(o[4] == 0, "depth counter back to its initial value afterwards (success, failure or exception)");
#endif
#if !defined(VF_SPLIT) || defined(V_nr)
  lg_n = 0; w_depth_nr(buf_, n_, start_, o); check_out(o, e, 1); compare_logs(); CHECK(o[4] == 0, "depth counter back to its initial value afterwards (success, failure or exception)");
#endif
  ASSUME(!exhausted_);
  REACH(e.r == 2 && e.id == 700, "depth limit exceeded");
#if LIM >= 2
  REACH(e.r == 1 && sx_n >= 5, "nested success within the limit");
#else
  REACH(e.r == 1, "success within the limit");
#endif
  REACH(e.r == 0, "local failure");
  REACH(e.r == 3, "foreign exception unwinds the guards");
#else
  out_t e = specG(start_);
  ASSUME(sx_n <= LOGMAX);
#if !defined(VF_SPLIT) || defined(V_ar)
  lg_n = 0; w_bytes_ar(buf_, n_, start_, o); check_out(o, e, 1); compare_logs(); CHECK(o[4] == n_, "the input's end is restored afterwards (success, failure or exception)");
#endif
#if !defined(VF_SPLIT) || defined(V_ao)
  lg_n = 0; w_bytes_ao(buf_, n_, start_, o); check_out(o, e, 0); compare_logs(); CHECK(o[4] == n_, "the input's end is restored afterwards (success, failure or exception)");
#endif
#if !defined(VF_SPLIT) || defined(V_nr)
  lg_n = 0; w_bytes_nr(buf_, n_, start_, o); check_out(o, e, 1); compare_logs(); CHECK(o[4] == n_, "the input's end is restored afterwards (success, failure or exception)");
#endif
  ASSUME(!exhausted_);
  REACH(e.r == 2 && e.id == 701, "byte limit reached");
  REACH(e.r == 1 && sx_n == 3, "guarded rule matched within the limit");
  REACH(e.r == 1 && sx_n == 3 && sx_pos[1] > 0, "guarded rule starts at a non-zero offset");
  REACH(e.r == 3, "exception inside the guarded rule");
#endif
}
