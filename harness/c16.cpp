// C16: raw_string (Lua long brackets) on raw bytes
#include "common.hpp"
#include <tao/pegtl/contrib/raw_string.hpp>
using namespace tao::pegtl;

#ifndef C16_OPEN
#define C16_OPEN '['
#define C16_MARK '='
#define C16_CLOSE ']'
#endif
#ifndef C16_EOL
#define C16_EOL lf_crlf
#endif

#if defined( C16_CONTENT_ANY )
using RS = raw_string< C16_OPEN, C16_MARK, C16_CLOSE, any >;
#elif defined( C16_CONTENT_NOTX )
using RS = raw_string< C16_OPEN, C16_MARK, C16_CLOSE, not_one< 'x' > >;
#else
using RS = raw_string< C16_OPEN, C16_MARK, C16_CLOSE >;
#endif

template< typename Rule > struct cact : nothing< Rule > {};
template<> struct cact< RS::content >
{
   template< typename ActionInput >
   static void apply( const ActionInput& in, const std::size_t& /*marker_size*/, unsigned long* o )
   {
      o[ 2 ] = (unsigned long)( in.begin() - in.input().begin() );
      o[ 3 ] = (unsigned long)( in.end() - in.input().begin() );
      o[ 6 ] += 1;
   }
};

#if defined( C16_STINGY )
// an input that grants no more look-ahead than a rule asks for: size( amount ) == min( amount, remaining ), the least a buffered input
// (buffer_input::size = require( amount ), then the buffered byte count) guarantees. A rule that reads bytes it never requested, or that
// judges "enough input" from size( 0 ), works on memory inputs only; here it must behave exactly as specified.
template< tracking_mode T >
struct c16_in
   : memory_input< T, eol::C16_EOL, const char* >
{
   using base_t = memory_input< T, eol::C16_EOL, const char* >;
   using base_t::base_t;
   [[nodiscard]] std::size_t size( const std::size_t amount ) const noexcept
   {
      const std::size_t r = base_t::size( amount );
      return ( amount < r ) ? amount : r;
   }
   [[nodiscard]] bool empty() const noexcept { return size( 1 ) == 0; }
};
#else
template< tracking_mode T >
using c16_in = memory_input< T, eol::C16_EOL, const char* >;
#endif

template< tracking_mode T, rewind_mode M >
static void run_rs( const char* b, unsigned long n, unsigned long s, unsigned long* o )
{
   c16_in< T > in( b, b + n, "" );
   in.bump_in_this_line( s );
   o[ 2 ] = 0; o[ 3 ] = 0; o[ 6 ] = 0;
   o[ 0 ] = vf::vcontrol< RS >::template match< apply_mode::action, M, cact, vf::vcontrol >( in, o );
   o[ 1 ] = in.byte();
   if constexpr( T == tracking_mode::eager ) {
      o[ 4 ] = in.line();
      o[ 5 ] = in.column();
   }
   else {
      o[ 4 ] = 0;
      o[ 5 ] = 0;
   }
}

extern "C" __attribute__( ( noinline ) ) void w_rs_lazy_r( const char* b, unsigned long n, unsigned long s, unsigned long* o ) { run_rs< tracking_mode::lazy, rewind_mode::required >( b, n, s, o ); }
extern "C" __attribute__( ( noinline ) ) void w_rs_lazy_o( const char* b, unsigned long n, unsigned long s, unsigned long* o ) { run_rs< tracking_mode::lazy, rewind_mode::optional >( b, n, s, o ); }
extern "C" __attribute__( ( noinline ) ) void w_rs_eager_r( const char* b, unsigned long n, unsigned long s, unsigned long* o ) { run_rs< tracking_mode::eager, rewind_mode::required >( b, n, s, o ); }
