/* symtab.h — symbolic sub-rules: behaviour tables + primitives of the PEG reference semantics.
 *
 * sym<k> at position pos behaves as an arbitrary function of (k,pos):
 *   T_res  0 local failure | 1 success | 2 raises verif_exc | 3 raises a foreign exception
 *   T_np   cursor after a success (>= pos)
 *   T_garb cursor left behind on failure when called with rewind_mode != required, and the
 *          position at which an exception is thrown ("consumed before failing")
 * This quantifies over every possible sub-grammar seen as a function of the position.
 */
#ifndef SYMTAB_H
#define SYMTAB_H

#ifndef SP_N
#define SP_N 3
#endif
#ifndef SP_K
#define SP_K 3
#endif
#ifndef SP_MAXRES
#define SP_MAXRES 3   /* highest behaviour code drawn: 1 = never raises, 2 = verif_exc, 3 = + foreign */
#endif

typedef struct { int r; u64 pos; int id; u64 lo; u64 far; } out_t;

static u64 sp_n, sp_start;
static u8 *sp_buf;
static u8 T_res[SP_K][SP_N + 1];
static u64 T_np[SP_K][SP_N + 1];
static u64 T_garb[SP_K][SP_N + 1];
static int sp_exhausted;
/* apply mode the rule under test was called with (rules that do not switch actions on or off themselves); -1: no expectation.
 * 0 (nothing): no sub-rule call may enable actions.  1 (action): a sub-rule may be tried without actions first (pure look-ahead), but when the
 * rule succeeds the LAST call of every sub-rule at every position must have had actions enabled (otherwise actions below it are lost). */
static int sp_expect_a = -1;
static u8 sp_last_a[SP_K][SP_N + 1];    /* 0 not called, 1 last call without actions, 2 last call with actions */
#ifdef SP_K2
static u8 sp_last_a2[SP_K2][SP_N + 1];
#endif
static void sp_expect_reset(int a) {
  sp_expect_a = a;
  for (int k = 0; k < SP_K; ++k) for (u64 p = 0; p <= SP_N; ++p) sp_last_a[k][p] = 0;
#ifdef SP_K2
  for (int k = 0; k < SP_K2; ++k) for (u64 p = 0; p <= SP_N; ++p) sp_last_a2[k][p] = 0;
#endif
}
static void sp_expect_check(u64 result) {
  if (sp_expect_a == 1 && result == 1) {
    for (int k = 0; k < SP_K; ++k) for (u64 p = 0; p <= SP_N; ++p) CHECK(sp_last_a[k][p] != 1, "the rule hands its own apply mode (action) on to its sub-rule");
#ifdef SP_K2
    for (int k = 0; k < SP_K2; ++k) for (u64 p = 0; p <= SP_N; ++p) CHECK(sp_last_a2[k][p] != 1, "the rule hands its own apply mode (action) on to its sub-rule (re-matched on a sub-input)");
#endif
  }
  sp_expect_a = -1;
}
static unsigned long sp_calls;

/* call log of the real run (who was asked what) */
#ifndef SP_LOG
#define SP_LOG 0
#endif
#if SP_LOG
static unsigned sp_nlog;
static u8 sp_log_k[SP_LOG], sp_log_a[SP_LOG], sp_log_m[SP_LOG];
static u64 sp_log_pos[SP_LOG];
#endif

#ifdef SP_EVENTS
static void ev_push_real(u8 kind, u32 rule, u64 a, u64 b);   /* events.h */
#endif

u32 x_verif_sym(u32 k, u64 pos, u32 a, u32 m, u64 *np) {
#ifndef __CPROVER__
  if (++sp_calls > 4096) { if (!sp_exhausted && vf_mode == 1) { printf("ASSERT-FAIL the rule does not terminate within 4096 sub-rule calls on this input\n"); vf_fail++; } sp_exhausted = 1; *np = pos; return 0; }
  if (k >= SP_K || pos > sp_n) { printf("ASSERT-FAIL stub called out of range k=%u pos=%llu\n", k, (unsigned long long)pos); vf_fail++; *np = pos; return 0; }
#endif
  CHECK(k < SP_K && pos <= sp_n, "sub-rule invoked at a position inside the input");
  if (sp_expect_a == 0) CHECK(a == 0, "a rule called with actions disabled never enables them for a sub-rule");
  if (sp_expect_a == 1 && k < SP_K && pos <= SP_N) sp_last_a[k][pos] = a ? 2 : 1;
#if SP_LOG
  if (sp_nlog < SP_LOG) { sp_log_k[sp_nlog] = k; sp_log_a[sp_nlog] = a; sp_log_m[sp_nlog] = m; sp_log_pos[sp_nlog] = pos; }
  sp_nlog++;
#endif
#ifdef SP_EVENTS
  ev_push_real(11 /* EV_SYM */, k, pos, a);
#endif
  u32 r = T_res[k][pos];
  if (r == 1) *np = T_np[k][pos];
  else if (r >= 2) *np = T_garb[k][pos];
  else *np = (m == 0 /* rewind_mode::required */) ? pos : T_garb[k][pos];
  return r;
}

#ifndef SP_EVENTS
void x_verif_event(u32 kind, u32 rule, u64 a, u64 b) { (void)kind; (void)rule; (void)a; (void)b; }
#endif

#ifdef SP_K2
/* sub-rules whose behaviour may depend on the end of the (sub-)input they are run on: T2[k][pos][end] */
static u8 T2_res[SP_K2][SP_N + 1][SP_N + 1];
static u64 T2_np[SP_K2][SP_N + 1][SP_N + 1];
static u64 T2_garb[SP_K2][SP_N + 1][SP_N + 1];
u32 x_verif_sym2(u32 k, u64 pos, u64 end, u32 a, u32 m, u64 *np) {
#ifndef __CPROVER__
  if (++sp_calls > 4096) { sp_exhausted = 1; *np = pos; return 0; }
  if (k >= SP_K2 || pos > end || end > sp_n) { printf("ASSERT-FAIL stub2 called out of range\n"); vf_fail++; *np = pos; return 0; }
#endif
  CHECK(k < SP_K2 && pos <= end && end <= sp_n, "sub-rule invoked at a position inside its (sub-)input");
  if (sp_expect_a == 0) CHECK(a == 0, "a rule called with actions disabled never enables them for a sub-rule (re-matched on a sub-input)");
  if (sp_expect_a == 1 && k < SP_K2 && pos <= SP_N) sp_last_a2[k][pos] = a ? 2 : 1;
  u32 r = T2_res[k][pos][end];
  if (r == 1) *np = T2_np[k][pos][end];
  else if (r >= 2) *np = T2_garb[k][pos][end];
  else *np = (m == 0) ? pos : T2_garb[k][pos][end];
  return r;
}
#endif

#ifndef VF_REAL
/* an assert() of the library (e.g. memory_input constructed with line 0) reached from translated code is a failed check */
void x___assert_fail(u8 *a, u8 *b, u32 c, u8 *d) { CHECK(0, "library assert() failed"); }
#endif

static out_t sp_succ(u64 q, u64 far) { out_t o = { 1, q, 0, 0, far }; return o; }
static out_t sp_fail(u64 p, u64 far) { out_t o = { 0, p, 0, 0, far }; return o; }
static out_t sp_div(u64 p) { out_t o = { 4, p, 0, 0, p }; return o; }
static out_t sp_sym(int k, u64 p) {
  out_t o = { T_res[k][p], p, 0, p, p };
  if (o.r == 1) { o.pos = T_np[k][p]; o.far = o.pos; }
  else { o.far = T_garb[k][p]; }
  if (o.r == 2) { o.id = 1000 + k; o.lo = o.far; }
  if (o.r == 3) { o.id = 2000 + k; o.lo = o.far; }
  return o;
}

#ifdef SP_K2
static out_t sp_sym2(int k, u64 p, u64 end) {
  out_t o = { T2_res[k][p][end], p, 0, p, p };
  if (o.r == 1) { o.pos = T2_np[k][p][end]; o.far = o.pos; }
  else { o.far = T2_garb[k][p][end]; }
  if (o.r == 2) { o.id = 1100 + k; o.lo = o.far; }
  if (o.r == 3) { o.id = 2100 + k; o.lo = o.far; }
  return o;
}
#endif

/* independent recount of line/column from the consumed prefix (eol = '\n') */
static void sp_recount(u64 byte, u64 *line, u64 *col) {
  /* symbolic sub-rules move the cursor with bump_in_this_line(): line stays 1, column = 1 + byte */
  *line = 1; *col = 1 + byte;
}

static void sp_setup(void) {
  sp_exhausted = 0; sp_calls = 0;
#if SP_LOG
  sp_nlog = 0;
#endif
  sp_n = IN(0, SP_N);
  sp_buf = (u8 *)exact_alloc_n(sp_n, SP_N);
#if defined(SP_BYTES) && SP_BYTES
  /* rules that consume raw bytes themselves (until<R> = until<R, any>): symbolic bytes without the eol character, so that
   * column = 1 + byte stays the recount (byte-level line counting is C06's subject) */
  for (u64 i = 0; i < SP_N; ++i) { u8 v = IN_BYTE(); ASSUME(v != '\n'); if (i < sp_n) sp_buf[i] = v; }
#endif
  /* otherwise bytes stay unconstrained: combinators over symbolic sub-rules never read them */
  sp_start = IN(0, sp_n);
  for (int k = 0; k < SP_K; ++k)
    for (u64 p = 0; p <= SP_N; ++p) {
      T_res[k][p] = (u8)IN(0, SP_MAXRES);
      u64 hi = p <= sp_n ? sp_n : p;
      T_np[k][p] = IN(p, hi);
      T_garb[k][p] = IN(p, hi);
#ifdef SP_LEAFSYM
      if (T_res[k][p] == 0) T_garb[k][p] = p;   /* a rule with the simple interface has to leave the cursor alone when it fails */
#endif
    }
#ifdef SP_K2
  for (int k = 0; k < SP_K2; ++k)
    for (u64 p = 0; p <= SP_N; ++p)
      for (u64 e = 0; e <= SP_N; ++e) {
        T2_res[k][p][e] = (u8)IN(0, SP_MAXRES);
        u64 hi = p <= e ? e : p;
        T2_np[k][p][e] = IN(p, hi);
        T2_garb[k][p][e] = IN(p, hi);
      }
#endif
}

#endif
