/* C07: buffer_input — one operation (or one leaf rule) from an arbitrary valid state, reader with arbitrary legal short reads.
 *
 *   stream   S[0..L)  symbolic bytes, L <= LMAX symbolic
 *   reader   x_verif_read: at stream offset rd it delivers k = min(T[rd], length, L - rd) bytes (T symbolic, >= 1): every legal
 *            sequence of read sizes is some table T (a non-empty read strictly advances rd, so every call has its own entry);
 *            0 is returned only at the end of the stream
 *   state    buffer_input< vreader, lf_crlf, const char*, CHUNK >( "", maximum ), maximum symbolic, followed by NSETUP real
 *            operations chosen symbolically among require(a) / bump(k <= occupied) / discard()
 */
#ifndef CHUNK
#define CHUNK 2
#endif
#ifndef LMAX
#define LMAX 6
#endif
#ifndef NSETUP
#define NSETUP 3
#endif
#ifndef MAXMAX
#define MAXMAX 4              /* maximum in [0, MAXMAX]; capacity = maximum + CHUNK */
#endif
#define CAPMAX (MAXMAX + CHUNK)
#define AMAX (CAPMAX + 1)     /* amounts 0 .. capacity + 1 */
#ifndef VF_ALPHABET
#define VF_ALPHABET "aabbc\n\rB\xc3\xa9"
#endif
#ifdef C07_STD_STRING
#define VF_STRING_SELF_T struct l_class_OC_std_KD__KD___cxx11_KD__KD_basic_string
#endif
#include "verif.h"

#ifndef VF_REAL
/* libstdc++ externals of  throw std::overflow_error( "..." ): the exception object is only ever identified by its type (ll2c lowers
 * __cxa_throw / landing pads and knows std::overflow_error -> std::runtime_error -> std::exception); what() is never called */
void x__ZNSt14overflow_errorC1EPKc(PS_class_std__overflow_error self, Pu8 msg) { (void)self; (void)msg; }
void x__ZNSt14overflow_errorD1Ev(PS_class_std__overflow_error self) { (void)self; }
#endif
/* the library's own assert()s (buffer_occupied, buffer_free_*, constructor) are checked, not assumed */
void x___assert_fail(Pu8 a, Pu8 b, u32 c, Pu8 d) { (void)a; (void)b; (void)c; (void)d; CHECK(0, "library assert() failed"); }

static u8 S_[LMAX + 1], *S; static u64 L, rd, T[LMAX + 1];
static u64 n_calls, n_short, n_full, n_zero;
static u8 *base_; static u64 M_, maximum_;
static void *h_;

u64 x_verif_read(u8 *buffer, u64 length) {
  n_calls++;
  CHECK(length >= 1, "the reader is never asked for zero bytes (it may return 0 only at the end of the stream)");
  CHECK(buffer >= base_ && (u64)(buffer - base_) <= M_ && length <= M_ - (u64)(buffer - base_), "the reader is only asked to write inside the buffer");
#ifndef __CPROVER__
  if (!(buffer >= base_ && (u64)(buffer - base_) <= M_ && length <= M_ - (u64)(buffer - base_))) return 0;
#endif
  if (rd >= L) { n_zero++; return 0; }
  u64 full = L - rd; if (length < full) full = length;
  u64 k = T[rd < LMAX ? rd : LMAX]; if (k > full) k = full;
  if (k < full) n_short++; else n_full++;
  for (u64 i = 0; i < LMAX && i < CAPMAX; ++i) if (i < k) buffer[i] = S[rd + i];
  rd += k;
  return k;
}

/* action log of the rule queries */
#define ALOG 8
static u64 al_[2][ALOG][6]; static unsigned al_n[2], al_sel;
void x_verif_act(u32 id, u64 byte, u64 line, u64 col, u64 size, u64 sum) {
  unsigned n = al_n[al_sel];
  if (n < ALOG) { u64 *e = al_[al_sel][n]; e[0] = id; e[1] = byte; e[2] = line; e[3] = col; e[4] = size; e[5] = sum; }
  al_n[al_sel] = n + 1;
}
void x_verif_event(u32 kind, u32 rule, u64 a, u64 b) { (void)kind; (void)rule; (void)a; (void)b; }
u32 x_verif_sym(u32 k, u64 pos, u32 a, u32 m, u64 *np) { *np = pos; return 0; }
u32 x_verif_sym2(u32 k, u64 pos, u64 end, u32 a, u32 m, u64 *np) { *np = pos; return 0; }
u32 x_verif_veto(u32 rule, u64 b, u64 e) { return 1; }

typedef struct { u64 byte, line, col, occ, c, fr, cap; } st_t;
static st_t observe(void) {
  u64 o[7]; w_state(h_, o);
  st_t s = { o[0], o[1], o[2], o[3], o[4], o[5], o[6] };
  return s;
}
static u8 win_[CAPMAX + 1];
/* representation invariant, as far as the public interface shows it */
static void invariant(st_t s) {
  CHECK(s.cap == M_, "capacity is maximum + Chunk");
  CHECK(s.c <= M_ && s.occ <= M_ - s.c && s.c + s.occ + s.fr == M_, "buffer <= current <= end <= buffer + capacity");
  CHECK(s.byte + s.occ == rd && rd <= L, "bytes consumed + bytes buffered = bytes read from the stream (nothing lost, nothing duplicated)");
  u64 n = s.occ <= CAPMAX ? s.occ : CAPMAX;
  w_window(h_, (char *)win_, n);
  for (u64 i = 0; i < CAPMAX; ++i) if (i < n && s.byte + i < L) CHECK(win_[i] == S[s.byte + i], "the buffered window is the stream at the consumed offset");
}
static void recount(u64 byte, u64 *line, u64 *col) {
  u64 l = 1, c = 1;
  for (u64 i = 0; i < LMAX; ++i) { if (i >= byte) break; if (S[i] == '\n') { l++; c = 1; } else c++; }
  *line = l; *col = c;
}
static int same_state(st_t a, st_t b) {
  return a.byte == b.byte && a.line == b.line && a.col == b.col && a.occ == b.occ && a.c == b.c && a.fr == b.fr && a.cap == b.cap;
}
#define MIN(a, b) ((a) < (b) ? (a) : (b))

#if defined(C07_THIN)
/* ------------------------------------------------------------------ string_input / argv_input hand (pointer, size) to memory_input */
static void harness(void) {
  u64 n = IN(0, LMAX);
  u8 *b = (u8 *)exact_alloc_n(n + 1, LMAX + 1);
  for (u64 i = 0; i < LMAX; ++i) { u8 v = IN_BYTE(); if (i < n) b[i] = v; }
  u64 o[8];
#if !defined(VF_SPLIT) || defined(V_string)
  w_string_input((char *)b, n, o);
  CHECK(o[0] == n && o[1] == 1, "string_input presents exactly the bytes of the string");
  CHECK(o[2] == 0 && o[3] == 1 && o[4] == 1, "string_input starts at byte 0, line 1, column 1");
  CHECK(o[5] == (u64)(n > 0) && o[6] == (u64)(n > 0), "a rule sees the same data through string_input");
#endif
#if !defined(VF_SPLIT) || defined(V_argv)
  for (u64 i = 0; i < LMAX; ++i) if (i < n) ASSUME(b[i] != 0);
  b[n] = 0;
  w_argv_input((char *)b, o);
  CHECK(o[0] == n && o[1] == 1, "argv_input presents exactly argv[n] up to its terminator");
  CHECK(o[2] == 0 && o[3] == 1 && o[4] == 1, "argv_input starts at byte 0, line 1, column 1");
  CHECK(o[5] == (u64)(n > 0) && o[6] == (u64)(n > 0), "a rule sees the same data through argv_input");
#endif
  OBS(o[0]); OBS(o[5]);
  REACH(n == 0, "empty data");
  REACH(n == LMAX, "data of maximal length");
}
#else

static u64 sop_[NSETUP], sarg_[NSETUP];
static st_t s0;
static void setup(void) {
  L = IN(0, LMAX);
  S = S_;
  for (u64 i = 0; i < LMAX; ++i) { u8 v = IN_BYTE(); if (i < L) S[i] = v; }
  for (u64 i = 0; i <= LMAX; ++i) T[i] = IN(1, LMAX);
  maximum_ = IN(0, MAXMAX);
#ifdef MAXIMUM
  /* CBMC slice: a constant size of the buffer object (a heap object of symbolic size is prohibitively expensive); the native builds draw it */
  ASSUME(maximum_ == MAXIMUM); maximum_ = MAXIMUM;
#endif
  M_ = maximum_ + CHUNK;
  for (u64 i = 0; i < NSETUP; ++i) { sop_[i] = IN(0, 2); sarg_[i] = IN(0, AMAX); }
#ifdef SETUP_SHAPE
  /* fixed shape require, bump, discard-or-bump, require, bump with symbolic arguments (require(0) and bump(0) do nothing) */
  { static const u8 shape[] = SETUP_SHAPE;
    for (u64 i = 0; i < NSETUP; ++i) {
#ifdef __CPROVER__
      if (shape[i] <= 2) ASSUME(sop_[i] == shape[i]); else ASSUME(sop_[i] >= 1);   /* the recorded inputs replay to the same run */
#endif
      if (shape[i] <= 2) sop_[i] = shape[i]; else if (sop_[i] < 1) sop_[i] = 1;
    } }
#endif
#ifdef KF_EXCLUDE_D9
  /* D9: require() calls the reader once; excluded: every reader that returns less than both the request and the rest of the stream */
  for (u64 i = 0; i <= LMAX; ++i) KNOWN_EXCLUDE(T[i] != LMAX);
#endif
  rd = 0; n_calls = n_short = n_full = n_zero = 0; al_n[0] = al_n[1] = 0; al_sel = 0;
  h_ = w_new(maximum_);
  base_ = (u8 *)w_base(h_);
  w_setup(h_, NSETUP, sop_, sarg_);
  s0 = observe();
  /* the state reached by real operations satisfies the invariant (induction hypothesis established, not assumed) */
  invariant(s0);
  u64 l, c; recount(s0.byte, &l, &c);
  CHECK(s0.line == l && s0.col == c, "line/column equal a recount of the consumed prefix");
}

#if defined(C07_RULE_MODE)
/* ------------------------------------------------------------------ one leaf rule: buffer_input vs memory_input over the rest of the stream */
#ifndef C07_NEED
#error "C07_NEED: the largest look-ahead (bytes from where the rule starts) the rule can ask for"
#endif
static void harness(void) {
  setup();
  u64 ob[8], om[8];
  u64 reads0 = n_short;
  al_sel = 0; w_rule_buf(h_, ob);
  st_t s1 = observe();
  invariant(s1);
  u64 short_in_rule = n_short - reads0;
  al_sel = 1; w_rule_mem((char *)S + s0.byte, L - s0.byte, s0.byte, s0.line, s0.col, om);
  CHECK(ob[0] != 5, "no exception other than std::overflow_error or the grammar's own parse error");
  CHECK(om[0] <= 2, "reference run on memory_input ends normally");
  CHECK(s1.byte == ob[1] && s1.line == ob[4] && s1.col == ob[5], "position reported by the input is stable");
  if (ob[0] == 4) {
    CHECK(C07_OVERFLOW_OK, "std::overflow_error only when the look-ahead of the rule does not fit between the cursor and the end of the buffer");
  } else {
    CHECK(ob[0] == om[0], "same result as on a memory_input over the same bytes");
    CHECK(ob[1] == om[1], "same consumption as on a memory_input over the same bytes");
    CHECK(ob[4] == om[4] && ob[5] == om[5], "same line and column as on a memory_input over the same bytes");
    if (om[0] == 2) CHECK(ob[2] == om[2] && ob[3] == om[3] && ob[6] == om[6] && ob[7] == om[7], "same parse error (rule and position)");
    CHECK(al_n[0] == al_n[1], "same number of action calls");
    for (unsigned i = 0; i < ALOG; ++i) if (i < al_n[0] && i < al_n[1])
      for (unsigned j = 0; j < 6; ++j) CHECK(al_[0][i][j] == al_[1][i][j], "same action trace (rule, position, matched bytes)");
  }
  w_delete(h_);
  OBS(ob[0]); OBS(ob[1]); OBS(om[0]); OBS(om[1]); OBS(al_n[0]);
#if defined(KF_ONLY_D9)
  REACH(1, "reachable");
#else
  REACH(ob[0] == 1 && om[0] == 1, "rule matches on both inputs");
#ifndef C07_NEVER_FAILS
  REACH(ob[0] == 0 && om[0] == 0, "rule fails on both inputs");
#endif
#ifndef C07_NO_OVERFLOW
  REACH(ob[0] == 4, "std::overflow_error thrown");
#endif
#ifndef KF_EXCLUDE_D9
  REACH(short_in_rule > 0 && ob[0] == 1 && ob[1] > s0.byte, "the rule matched across a short read");
#endif
  REACH(s0.c > 0 && s0.occ > 0 && s0.byte > 0, "rule starts in the middle of the buffer");
#ifdef C07_REACH1
  REACH(C07_REACH1, C07_REACH1_MSG);
#endif
#endif
}

#else
/* ------------------------------------------------------------------ one operation */
static void harness(void) {
  u64 a = IN(0, AMAX), k_ = IN(0, AMAX), ok = IN(0, 1);
  setup();
  u64 calls0 = n_calls, short0 = n_short, rd0 = rd;
  u64 rem = L - s0.byte;                       /* logical rest of the stream */
  u64 k = MIN(k_, s0.occ);
  u64 v = 0; int r = 0;
  st_t s1;
  (void)a; (void)k; (void)ok; (void)v; (void)r; (void)rem; (void)calls0; (void)short0; (void)rd0;

#if defined(V_require) || defined(V_size) || defined(V_end) || defined(V_empty) || !defined(VF_SPLIT)
  {
#if defined(V_size)
    r = w_size(h_, a, &v);
#elif defined(V_end)
    r = w_end(h_, a, &v);
#elif defined(V_empty)
    a = 1; r = w_empty(h_, &v);
#else
    r = w_require(h_, a);
#endif
    s1 = observe(); invariant(s1);
    int fits = s0.c + a <= M_;
    CHECK(r == 0 || r == 1, "require/size/end/empty throw nothing but std::overflow_error");
    if (a <= s0.occ) {
      CHECK(r == 0 && n_calls == calls0 && same_state(s0, s1), "enough data buffered: no read, no change");
    } else if (!fits) {
      CHECK(r == 1, "std::overflow_error when the requested window does not fit between the cursor and the end of the buffer");
      CHECK(n_calls == calls0 && same_state(s0, s1), "the failed request changes nothing");
    } else {
      CHECK(r == 0, "no error when the requested window fits into the buffer");
      CHECK(n_calls > calls0, "the reader is asked for more data");
      CHECK(s1.byte == s0.byte && s1.line == s0.line && s1.col == s0.col && s1.c == s0.c, "cursor and counters untouched by a refill");
      CHECK(s1.occ >= MIN(a, rem), "afterwards min(amount, rest of the stream) bytes are available, whatever sizes the reader returned");
    }
    CHECK(s1.occ <= rem, "never more bytes than the stream has");
#if defined(V_size) || defined(V_end)
    if (r == 0) CHECK(v == s1.occ && v >= MIN(a, rem) && v <= rem, "size(a)/end(a) agree with the logical rest of the stream");
#endif
#if defined(V_empty)
    if (r == 0) CHECK(v == (u64)(rem == 0), "empty() exactly at the end of the stream");
#endif
    OBS(r); OBS(v); OBS(s1.occ);
#if !defined(KF_ONLY_D9)
    REACH(r == 1, "std::overflow_error thrown");
#if !defined(V_empty)
#ifndef KF_EXCLUDE_D9
    REACH(r == 0 && n_short > short0 && a > s0.occ + 1 && s1.occ >= a, "request satisfied although the reader returned a short read");
#endif
    REACH(r == 0 && a > s0.occ && s1.occ < a && s1.occ == rem, "request larger than the rest of the stream");
#endif
    REACH(r == 0 && a > s0.occ && s0.c > 0 && s0.occ > 0, "refill with the cursor in the middle of the buffer");
#endif
  }
#endif

#if defined(V_bump) || defined(V_bump_line) || !defined(VF_SPLIT)
  {
    /* line/column as internal::bump counts them: on the k bytes at the cursor */
    s0 = observe(); k = MIN(k_, s0.occ);
    u64 l = s0.line, c = s0.col;
    for (u64 i = 0; i < CAPMAX; ++i) if (i < k) { if (S[s0.byte + i] == '\n') { l++; c = 1; } else c++; }
    calls0 = n_calls;
#if defined(V_bump_line)
    u64 which = ok;
    if (which) { w_bump_to_next_line(h_, k); l = s0.line + 1; c = 1; } else { w_bump_in_this_line(h_, k); l = s0.line; c = s0.col + k; }
#else
    w_bump(h_, k);
#endif
    s1 = observe(); invariant(s1);
    CHECK(s1.byte == s0.byte + k && s1.line == l && s1.col == c, "bump advances byte/line/column like a memory input");
    CHECK(s1.c == s0.c + k && s1.occ == s0.occ - k && n_calls == calls0, "bump moves the cursor inside the window and reads nothing");
    OBS(s1.byte); OBS(s1.line); OBS(s1.col);
#if !defined(KF_ONLY_D9)
    REACH(k > 1 && s1.line > s0.line && s0.byte > 0, "bump across a line ending");
    REACH(k > 0 && s1.occ == 0 && s0.c > 0, "bump to the end of the window");
#endif
  }
#endif

#if defined(V_discard) || !defined(VF_SPLIT)
  {
    s0 = observe();
    calls0 = n_calls;
    w_discard(h_);
    s1 = observe(); invariant(s1);
    CHECK(n_calls == calls0, "discard reads nothing");
    CHECK(s1.byte == s0.byte && s1.line == s0.line && s1.col == s0.col && s1.occ == s0.occ, "discard keeps the unconsumed bytes and all counters");
    CHECK(s1.c == 0 || s1.c == s0.c, "discard either moves the window to the start of the buffer or does nothing");
    CHECK(s1.c <= CHUNK, "after discard at most Chunk consumed bytes remain in front of the cursor");
    CHECK(s1.c + maximum_ <= M_, "after discard at least `maximum` bytes can be buffered");
    /* the documented guarantee, through the real require */
    u64 a2 = MIN(a, maximum_);
    r = w_require(h_, a2);
    CHECK(r == 0, "after discard, require(a) with a <= maximum never overflows");
    st_t s2 = observe(); invariant(s2);
    OBS(s1.c); OBS(r);
#if !defined(KF_ONLY_D9)
    REACH(s0.c > 0 && s1.c == 0 && s0.occ > 1, "discard moved data");
    REACH(s0.c > 0 && s1.c == s0.c, "discard left fewer than Chunk consumed bytes in place");
#endif
  }
#endif

#if defined(V_rewind) || !defined(VF_SPLIT)
  {
    s0 = observe();
    rem = L - s0.byte;
    r = w_rewind(h_, a, k_, (int)ok, &v);
    s1 = observe(); invariant(s1);
    CHECK(r == 0 || r == 1, "nothing but std::overflow_error");
    CHECK(s1.c >= s0.c && s1.occ + (s1.c - s0.c) >= s0.occ, "the window only grows while a rewind guard is live");
    if (r == 0 && ok) {
      u64 l = s0.line, c = s0.col;
      for (u64 i = 0; i < CAPMAX; ++i) if (i < v) { if (S[s0.byte + i] == '\n') { l++; c = 1; } else c++; }
      CHECK(s1.byte == s0.byte + v && s1.c == s0.c + v && s1.line == l && s1.col == c, "guard left with success: position kept");
    } else {
      CHECK(s1.byte == s0.byte && s1.line == s0.line && s1.col == s0.col && s1.c == s0.c, "guard left without success (or by an exception): cursor and counters restored");
    }
    OBS(r); OBS(v); OBS(s1.byte);
#if !defined(KF_ONLY_D9)
    REACH(r == 0 && !ok && v > 1 && s0.c > 0, "rewound over consumed bytes");
    REACH(r == 0 && !ok && v > 0 && s1.occ > s0.occ, "rewound after the window was refilled");
    REACH(r == 1, "std::overflow_error unwinds through the guard");
    REACH(r == 0 && ok && v > 0, "guard left with success");
#endif
  }
#endif

  w_delete(h_);
#if defined(KF_ONLY_D9)
  REACH(1, "reachable");
#endif
}
#endif
#endif
