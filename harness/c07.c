/* C07: buffer_input — one operation (or one leaf rule) from an arbitrary valid state, reader with arbitrary legal short reads.
 *
 *   stream   S[0..L)  symbolic bytes, L <= LMAX symbolic
 *   reader   x_verif_read: at stream offset rd it delivers k = min(T[rd], length, L - rd) bytes (T symbolic, >= 1): every legal
 *            sequence of read sizes is some table T (a non-empty read strictly advances rd, so every call has its own entry);
 *            0 is returned only at the end of the stream
 *   state    buffer_input< vreader, lf_crlf, const char*, CHUNK >( "", maximum ) followed by NSETUP real operations
 *            require(a) / bump(k <= occupied) / discard() with symbolic arguments (the invariant is established, not assumed)
 *   step     one more real operation (or one real rule); the harness sees the input only through its public interface
 *            (x_verif_snap: current(), byte(), line(), column(), buffer_occupied/free_before_current/free_after_end/capacity)
 */
#ifndef CHUNK
#define CHUNK 2
#endif
#ifndef LMAX
#define LMAX 6
#endif
#ifndef NSETUP
#define NSETUP 3
#endif
#ifndef MAXMAX
#define MAXMAX 4              /* maximum in [0, MAXMAX]; capacity = maximum + CHUNK */
#endif
#define CAPMAX (MAXMAX + CHUNK)
#define AMAX (CAPMAX + 1)     /* amounts 0 .. capacity + 1 */
#ifndef VF_ALPHABET
#define VF_ALPHABET "aabbc\n\rB\xc3\xa9"
#endif
#include "verif.h"

#ifndef VF_REAL
/* libstdc++ externals of  throw std::overflow_error( "..." ): the exception object is only ever identified by its type (ll2c lowers
 * __cxa_throw / landing pads and knows std::overflow_error -> std::runtime_error -> std::exception); what() is never called */
void x__ZNSt14overflow_errorC1EPKc(PS_class_std__overflow_error self, Pu8 msg) { (void)self; (void)msg; }
void x__ZNSt14overflow_errorD1Ev(PS_class_std__overflow_error self) { (void)self; }
#endif
/* the library's own assert()s (buffer_occupied, buffer_free_*, constructors) are checked, not assumed */
void x___assert_fail(Pu8 a, Pu8 b, u32 c, Pu8 d) { (void)a; (void)b; (void)c; (void)d; CHECK(0, "library assert() failed"); }
void x_verif_event(u32 kind, u32 rule, u64 a, u64 b) { (void)kind; (void)rule; (void)a; (void)b; }
u32 x_verif_sym(u32 k, u64 pos, u32 a, u32 m, u64 *np) { *np = pos; return 0; }
u32 x_verif_sym2(u32 k, u64 pos, u64 end, u32 a, u32 m, u64 *np) { *np = pos; return 0; }
u32 x_verif_veto(u32 rule, u64 b, u64 e) { return 1; }
#define MIN(a, b) ((a) < (b) ? (a) : (b))

/* ------------------------------------------------------------------ stream, reader, observation */
static u8 S[LMAX + 1]; static u64 L, rd, T[LMAX + 1];
static u64 n_calls, n_short, n_zero;
static u8 *base_; static u64 M_, maximum_;

void x_verif_base(u8 *p) { base_ = p; }

u64 x_verif_read(u8 *buffer, u64 length) {
  n_calls++;
  CHECK(length >= 1, "the reader is never asked for zero bytes (it may return 0 only at the end of the stream)");
  int inside = buffer >= base_ && (u64)(buffer - base_) <= M_ && length <= M_ - (u64)(buffer - base_);
  CHECK(inside, "the reader is only asked to write inside the buffer");
#ifndef __CPROVER__
  if (!inside) return 0;
#endif
  if (rd >= L) { n_zero++; return 0; }
  u64 full = MIN(length, L - rd);
  u64 k = MIN(T[rd < LMAX ? rd : LMAX], full);
  if (k < full) n_short++;
  for (u64 i = 0; i < LMAX && i < CAPMAX; ++i) if (i < k) buffer[i] = S[rd + i];
  rd += k;
  return k;
}

typedef struct { u64 byte, line, col, occ, c, fr, cap, calls, shorts, rd; } st_t;
static st_t st_[3]; static unsigned snaps_;
/* snapshot = everything the public interface shows + the representation invariant checked on it */
void x_verif_snap(u32 idx, u8 *p, u64 byte, u64 line, u64 col, u64 occ, u64 c, u64 fr, u64 cap) {
  st_t s = { byte, line, col, occ, c, fr, cap, n_calls, n_short, rd };
  if (idx < 3) st_[idx] = s;
  snaps_ |= 1u << idx;
  CHECK(cap == M_, "capacity is maximum + Chunk");
  CHECK(c <= M_ && occ <= M_ - c && c + occ + fr == M_, "buffer <= current <= end <= buffer + capacity");
  CHECK(p == base_ + c, "current() points into the buffer object");
  CHECK(byte + occ == rd && rd <= L, "bytes consumed + bytes buffered = bytes read from the stream (nothing lost, nothing duplicated)");
  for (u64 i = 0; i < CAPMAX; ++i) if (i < occ && byte + i < L) CHECK(p[i] == S[byte + i], "the buffered window is the stream at the consumed offset");
}
static int same_state(st_t a, st_t b) {
  return a.byte == b.byte && a.line == b.line && a.col == b.col && a.occ == b.occ && a.c == b.c && a.fr == b.fr && a.cap == b.cap;
}
static void recount(u64 byte, u64 *line, u64 *col) {
  u64 l = 1, c = 1;
  for (u64 i = 0; i < LMAX; ++i) { if (i >= byte) break; if (S[i] == '\n') { l++; c = 1; } else c++; }
  *line = l; *col = c;
}
/* line/column after consuming k bytes at stream offset byte, as internal::bump counts them */
static void advance(u64 byte, u64 k, u64 *line, u64 *col) {
  for (u64 i = 0; i < CAPMAX; ++i) if (i < k && byte + i < L) { if (S[byte + i] == '\n') { (*line)++; *col = 1; } else (*col)++; }
}

/* index of the first 'b' at or after stream offset from, relative to from (rest of the stream if there is none) */
static u64 first_b(u64 from) {
  u64 r = L - from; int found = 0;
  for (u64 i = 0; i < LMAX; ++i) if (!found && i >= from && i < L && S[i] == 'b') { r = i - from; found = 1; }
  return r;
}

/* action log of the rule queries */
#define ALOG 4
static u64 al_[2 * ALOG * 6]; static unsigned al_n[2], al_sel;   /* flat: CBMC mis-handles pointers into rows of a multi-dimensional array */
#define AL(sel, i, j) al_[((sel) * ALOG + (i)) * 6 + (j)]
void x_verif_act(u32 id, u64 byte, u64 line, u64 col, u64 size, u64 sum) {
  unsigned n = al_n[al_sel];
  if (n < ALOG) { AL(al_sel, n, 0) = id; AL(al_sel, n, 1) = byte; AL(al_sel, n, 2) = line; AL(al_sel, n, 3) = col; AL(al_sel, n, 4) = size; AL(al_sel, n, 5) = sum; }
  al_n[al_sel] = n + 1;
}

static u64 sop_[NSETUP], sarg_[NSETUP];
static void draw(void) {
  L = IN(0, LMAX);
  for (u64 i = 0; i < LMAX; ++i) { u8 v = IN_BYTE(); S[i] = i < L ? v : 0; }
  for (u64 i = 0; i <= LMAX; ++i) T[i] = IN(1, LMAX);
  maximum_ = IN(0, MAXMAX);
#ifdef MAXIMUM
  /* CBMC slice: a constant size of the buffer object (a heap object of symbolic size is prohibitively expensive); the native builds draw it */
  ASSUME(maximum_ == MAXIMUM); maximum_ = MAXIMUM;
#endif
  M_ = maximum_ + CHUNK;
  for (u64 i = 0; i < NSETUP; ++i) { sop_[i] = IN(0, 2); sarg_[i] = IN(0, AMAX); }
#ifdef SETUP_SHAPE
  /* fixed shape of the set-up, e.g. require, bump, discard-or-bump (3 = either); require(0) and bump(0) do nothing */
  { static const u8 shape[] = SETUP_SHAPE;
    for (u64 i = 0; i < NSETUP; ++i) {
#ifdef __CPROVER__
      if (shape[i] <= 2) ASSUME(sop_[i] == shape[i]); else ASSUME(sop_[i] >= 1);   /* the recorded inputs replay to the same run */
#endif
      if (shape[i] <= 2) sop_[i] = shape[i]; else if (sop_[i] < 1) sop_[i] = 1;
    } }
#endif
#ifdef SETUP_ONE_READ
  /* the first require of the set-up is served by its first read: reaches the same states (any window size e is reached with
   * require(e) and a first read of e bytes) with fewer executions */
#ifdef __CPROVER__
  ASSUME(T[0] >= sarg_[0]);
#else
  if (T[0] < sarg_[0]) T[0] = sarg_[0];
#endif
#endif
#ifdef KF_EXCLUDE_D9
  /* D9: require() calls the reader once; excluded: every reader that returns less than both the request and the rest of the stream */
  for (u64 i = 0; i <= LMAX; ++i) KNOWN_EXCLUDE(T[i] != LMAX);
#endif
#ifdef KF_ONLY_D9
  { int any_short = 0; for (u64 i = 0; i <= LMAX; ++i) if (T[i] != LMAX) any_short = 1; KNOWN_ONLY(any_short); }
#endif
  rd = 0; n_calls = n_short = n_zero = 0; al_n[0] = al_n[1] = 0; al_sel = 0; snaps_ = 0; base_ = 0;
}
/* the state reached by the set-up (its invariant was checked in the snapshot) */
static void check_s0(void) {
  u64 l, c; recount(st_[0].byte, &l, &c);
  CHECK((snaps_ & 1) && st_[0].line == l && st_[0].col == c, "line/column equal a recount of the consumed prefix");
}

#if defined(C07_RULE_MODE)
/* ------------------------------------------------------------------ one leaf rule: buffer_input vs memory_input over the rest of the stream */
static void harness(void) {
  draw();
  u64 ob[8], om[8];
  al_sel = 0; w_rule_buf(maximum_, NSETUP, sop_, sarg_, ob);
  check_s0();
  st_t s0 = st_[0], s1 = st_[1];
  u64 rem = L - s0.byte;
  /* reference: the same rule on a memory_input over exactly the rest of the stream (exact-size object: reading past the end is an error) */
  u8 *mb = (u8 *)exact_alloc_n(rem, LMAX);
  for (u64 i = 0; i < LMAX; ++i) if (i < rem) mb[i] = S[s0.byte + i];
  al_sel = 1; w_rule_mem((char *)mb, rem, s0.byte, s0.line, s0.col, om);
  CHECK(ob[0] != 5, "no exception other than std::overflow_error or the grammar's own parse error");
  CHECK(om[0] <= 2, "reference run on memory_input ends normally");
  CHECK((snaps_ & 2) && s1.byte == ob[1] && s1.line == ob[4] && s1.col == ob[5], "position reported by the input is stable");
  if (ob[0] == 4) {
    CHECK(C07_OVERFLOW_OK, "std::overflow_error only when the look-ahead of the rule does not fit between the cursor and the end of the buffer");
  } else {
    CHECK(ob[0] == om[0], "same result as on a memory_input over the same bytes");
    CHECK(ob[1] == om[1], "same consumption as on a memory_input over the same bytes");
    CHECK(ob[4] == om[4] && ob[5] == om[5], "same line and column as on a memory_input over the same bytes");
    if (om[0] == 2) CHECK(ob[2] == om[2] && ob[3] == om[3] && ob[6] == om[6] && ob[7] == om[7], "same parse error (rule and position)");
    CHECK(al_n[0] == al_n[1], "same number of action calls");
    for (unsigned i = 0; i < ALOG; ++i) if (i < al_n[0] && i < al_n[1])
      for (unsigned j = 0; j < 6; ++j) CHECK(AL(0, i, j) == AL(1, i, j), "same action trace (rule, position, matched bytes)");
  }
  OBS(ob[0]); OBS(ob[1]); OBS(om[0]); OBS(om[1]); OBS(al_n[0]);
#if defined(KF_ONLY_D9)
  REACH(1, "reachable");
#else
#ifndef C07_NEVER_MATCHES
  REACH(ob[0] == 1 && om[0] == 1, "rule matches on both inputs");
#endif
#ifndef C07_NEVER_FAILS
  REACH(ob[0] == 0 && om[0] == 0, "rule fails on both inputs");
#endif
#ifndef C07_NO_OVERFLOW
  REACH(ob[0] == 4, "std::overflow_error thrown");
#endif
#if !defined(KF_EXCLUDE_D9) && !defined(C07_NO_SHORT)
  REACH(s1.shorts > s0.shorts && ob[0] == 1 && s1.rd > s0.rd, "the rule matched across a short read");
#endif
  REACH(s0.c > 0 && s0.byte > 0, "rule starts in the middle of the buffer");
#ifdef C07_REACH1
  REACH(C07_REACH1, C07_REACH1_MSG);
#endif
#endif
}

#else
/* ------------------------------------------------------------------ one operation */
#define Q_REQUIRE 0
#define Q_SIZE 1
#define Q_END 2
#define Q_EMPTY 3
#define Q_BUMP 4
#define Q_BUMP_IN_THIS_LINE 5
#define Q_BUMP_TO_NEXT_LINE 6
#define Q_DISCARD 7
#define Q_REWIND 8
#ifndef C07_OP
#define C07_OP (-1)          /* native builds run all operations; REACH is only evaluated by CBMC, one operation per query */
#endif
#define QSEL(x) (C07_OP == (x))
static u64 a_, k_, ok_;
static void op(int q) {
  u64 o[2] = { 9, 0 };
  u64 a = q == Q_EMPTY ? 1 : a_, ok = ok_;
  rd = 0; n_calls = n_short = n_zero = 0; snaps_ = 0; base_ = 0;
  switch (q) {
    case Q_REQUIRE: w_require(maximum_, NSETUP, sop_, sarg_, a, k_, (int)ok, o); break;
    case Q_SIZE: w_size(maximum_, NSETUP, sop_, sarg_, a, k_, (int)ok, o); break;
    case Q_END: w_end(maximum_, NSETUP, sop_, sarg_, a, k_, (int)ok, o); break;
    case Q_EMPTY: w_empty(maximum_, NSETUP, sop_, sarg_, a, k_, (int)ok, o); break;
    case Q_BUMP: w_bump(maximum_, NSETUP, sop_, sarg_, a, k_, (int)ok, o); break;
    case Q_BUMP_IN_THIS_LINE: w_bump_in_this_line(maximum_, NSETUP, sop_, sarg_, a, k_, (int)ok, o); break;
    case Q_BUMP_TO_NEXT_LINE: w_bump_to_next_line(maximum_, NSETUP, sop_, sarg_, a, k_, (int)ok, o); break;
    case Q_DISCARD: w_discard(maximum_, NSETUP, sop_, sarg_, a, k_, (int)ok, o); break;
    default: w_rewind(maximum_, NSETUP, sop_, sarg_, a, k_, (int)ok, o); break;
  }
  check_s0();
  CHECK((snaps_ & 3) == 3, "state before and after the operation observed");
  st_t s0 = st_[0], s1 = st_[1];
  u64 r = o[0], v = o[1], rem = L - s0.byte, k = MIN(k_, s0.occ);
  OBS(r); OBS(v); OBS(s1.byte); OBS(s1.line); OBS(s1.col); OBS(s1.occ); OBS(s1.c);

  if (q == Q_REQUIRE || q == Q_SIZE || q == Q_END || q == Q_EMPTY) {
    int fits = s0.c + a <= M_;
    CHECK(r == 0 || r == 1, "require/size/end/empty throw nothing but std::overflow_error");
    if (a <= s0.occ) {
      CHECK(r == 0 && s1.calls == s0.calls && same_state(s0, s1), "enough data buffered: no read, no change");
    } else if (!fits) {
      CHECK(r == 1, "std::overflow_error when the requested window does not fit between the cursor and the end of the buffer");
      CHECK(s1.calls == s0.calls && same_state(s0, s1), "the failed request changes nothing");
    } else {
      CHECK(r == 0, "no error when the requested window fits into the buffer");
      CHECK(s1.calls > s0.calls, "the reader is asked for more data");
      CHECK(s1.byte == s0.byte && s1.line == s0.line && s1.col == s0.col && s1.c == s0.c, "cursor and counters untouched by a refill");
      CHECK(s1.occ >= MIN(a, rem), "afterwards min(amount, rest of the stream) bytes are available, whatever sizes the reader returned");
    }
    CHECK(s1.occ <= rem, "never more bytes than the stream has");
    if ((q == Q_SIZE || q == Q_END) && r == 0) CHECK(v == s1.occ && v >= MIN(a, rem) && v <= rem, "size(a)/end(a) agree with the logical rest of the stream");
    if (q == Q_EMPTY && r == 0) CHECK(v == (u64)(rem == 0), "empty() exactly at the end of the stream");
#if !defined(KF_ONLY_D9) && (QSEL(Q_REQUIRE) || QSEL(Q_SIZE) || QSEL(Q_END) || QSEL(Q_EMPTY))
    REACH(r == 1, "std::overflow_error thrown");
#if !QSEL(Q_EMPTY)
    {
#ifndef KF_EXCLUDE_D9
      REACH(r == 0 && s1.shorts > s0.shorts && a > s0.occ + 1, "the reader returned a short read while at least two more bytes were requested");
#endif
      REACH(r == 0 && a > s0.occ && s1.occ < a && s1.occ == rem, "request larger than the rest of the stream");
      REACH(r == 0 && a > s0.occ && s0.c > 0 && s0.occ > 0, "refill with the cursor in the middle of the buffer");
    }
#else
    {
      REACH(r == 0 && v == 1 && s0.byte > 0, "empty() at the end of a non-empty stream");
      REACH(r == 0 && v == 0 && s0.occ == 0 && s0.c > 0, "empty() refills an exhausted window");
    }
#endif
#endif
  }

  if (q == Q_BUMP || q == Q_BUMP_IN_THIS_LINE || q == Q_BUMP_TO_NEXT_LINE) {
    u64 l = s0.line, c = s0.col;
    if (q == Q_BUMP_IN_THIS_LINE) c = s0.col + k;
    else if (q == Q_BUMP_TO_NEXT_LINE) { l = s0.line + 1; c = 1; }
    else advance(s0.byte, k, &l, &c);
    CHECK(r == 0, "bump throws nothing");
    CHECK(s1.byte == s0.byte + k && s1.line == l && s1.col == c, "bump advances byte/line/column like a memory input");
    CHECK(s1.c == s0.c + k && s1.occ == s0.occ - k && s1.calls == s0.calls, "bump moves the cursor inside the window and reads nothing");
#if !defined(KF_ONLY_D9) && (QSEL(Q_BUMP) || QSEL(Q_BUMP_IN_THIS_LINE) || QSEL(Q_BUMP_TO_NEXT_LINE))
    REACH(k > 0 && s0.byte > 0 && s1.occ > 0, "bump inside the window");
    REACH(k > 0 && s1.occ == 0 && s0.c > 0, "bump to the end of the window");
#if QSEL(Q_BUMP)
    REACH(k > 1 && s1.line > s0.line && s1.col > 1, "bump across a line ending");
#endif
#endif
  }

  if (q == Q_DISCARD) {
    st_t s2 = st_[2];
    CHECK((snaps_ & 4) != 0, "state after the follow-up require observed");
    CHECK(s1.calls == s0.calls, "discard reads nothing");
    CHECK(s1.byte == s0.byte && s1.line == s0.line && s1.col == s0.col && s1.occ == s0.occ, "discard keeps the unconsumed bytes and all counters");
    CHECK(s1.c == 0 || s1.c == s0.c, "discard either moves the window to the start of the buffer or does nothing");
    CHECK(s1.c <= CHUNK, "after discard at most Chunk consumed bytes remain in front of the cursor");
    CHECK(s1.c + maximum_ <= M_, "after discard at least `maximum` bytes can be buffered");
    CHECK(r == 0, "after discard, require(a) with a <= maximum never overflows");
    CHECK(s2.occ >= MIN(MIN(a, maximum_), rem), "after discard, require(a) with a <= maximum delivers min(a, rest of the stream) bytes");
    OBS(s2.occ);
#if !defined(KF_ONLY_D9) && QSEL(Q_DISCARD)
    /* data can only be moved when c > Chunk and c + occ <= maximum + Chunk */
#if MAXMAX >= 1
    REACH(s0.c > 0 && s1.c == 0 && s0.occ + 1 >= (MAXMAX >= 3 ? 3 : MAXMAX), "discard moved data (two bytes or more where the buffer is large enough for that)");
#endif
    REACH(s0.c > 0 && s1.c == s0.c, "discard left at most Chunk consumed bytes in place");
#if MAXMAX >= 1
    REACH(s2.occ > s1.occ && s1.c == 0 && s0.c > 0, "refill after a discard that moved the window");
#endif
#endif
  }

  if (q == Q_REWIND) {
    CHECK(r == 0 || r == 1, "nothing but std::overflow_error");
    CHECK(s1.c >= s0.c && s1.occ + (s1.c - s0.c) >= s0.occ, "the window only grows while a rewind guard is live");
    if (r == 0 && ok) {
      u64 l = s0.line, c = s0.col;
      advance(s0.byte, v, &l, &c);
      CHECK(s1.byte == s0.byte + v && s1.c == s0.c + v && s1.line == l && s1.col == c, "guard left with success: position kept");
    } else {
      CHECK(s1.byte == s0.byte && s1.line == s0.line && s1.col == s0.col && s1.c == s0.c, "guard left without success (or by an exception): cursor and counters restored");
    }
#if !defined(KF_ONLY_D9) && QSEL(Q_REWIND)
    REACH(r == 0 && !ok && v > 1 && s0.c > 0, "rewound over consumed bytes");
    REACH(r == 0 && !ok && v > 0 && s1.occ > s0.occ, "rewound after the window was refilled");
    REACH(r == 1, "std::overflow_error unwinds through the guard");
    REACH(r == 0 && ok && v > 0, "guard left with success");
#endif
  }
}

static void harness(void) {
  a_ = IN(0, AMAX); k_ = IN(0, AMAX); ok_ = IN(0, 1);
  draw();
#ifdef VF_SPLIT
  op(C07_OP);
#else
  for (int q = Q_REQUIRE; q <= Q_REWIND; ++q) op(q);
#endif
#if defined(KF_ONLY_D9)
  REACH(1, "reachable");
#endif
}
#endif
