// c19_common.hpp — wrapper side of the C19 check (error-reporting helpers of memory_input).
//
// One run: a memory_input (eager or lazy, one eol policy, Source = const char*) over b[0..n) constructed with the initial
// counters (ib, il, ic) really consumes k bytes with in.bump( k ); p = in.position(); then
//   o[0..2] p.byte, p.line, p.column
//   o[3] at( p ) - b             o[4] begin_of_line( p ) - b          (signed byte offsets relative to the data, computed on integers)
//   o[5] end_of_line( p ) - b    o[6] line_at( p ).data() - b   o[7] line_at( p ).size()
//   o[8] 1 when o[5..7] are valid: end_of_line() / line_at() scan forward from at( p ) and are only called when at( p ) lies
//        inside [b, b + n] (otherwise the scan would read outside the data; the harness reports the bad at( p ) instead)
#pragma once

#include <cstdint>

#include "common.hpp"

namespace c19
{
   using namespace tao::pegtl;

   inline unsigned long off( const char* p, const char* b )
   {
      return (unsigned long)( reinterpret_cast< std::uintptr_t >( p ) - reinterpret_cast< std::uintptr_t >( b ) );
   }

   template< tracking_mode P, typename Eol >
   inline void run1( const char* b, unsigned long n, unsigned long k, unsigned long j, unsigned long ib, unsigned long il, unsigned long ic, unsigned long* o )
   {
      // the position is taken after consuming k bytes; the helpers are then asked on an input over the same data that
      // stands at offset j (before, at or after the position: error reporting after a run, parse-tree nodes, ...)
      memory_input< P, Eol, const char* > in0( b, b + n, "", ib, il, ic );
      in0.bump( k );
      const auto p = in0.position();
      memory_input< P, Eol, const char* > in( b, b + n, "", ib, il, ic );
      in.bump( j );
      o[ 0 ] = p.byte;
      o[ 1 ] = p.line;
      o[ 2 ] = p.column;
      o[ 3 ] = off( in.at( p ), b );
      o[ 4 ] = off( in.begin_of_line( p ), b );
      o[ 5 ] = o[ 6 ] = o[ 7 ] = o[ 8 ] = 0;
      if( o[ 3 ] <= n ) {
         o[ 5 ] = off( in.end_of_line( p ), b );
         const auto sv = in.line_at( p );
         o[ 6 ] = off( sv.data(), b );
         o[ 7 ] = sv.size();
         o[ 8 ] = 1;
      }
   }

   // eager run in o[0..8], lazy run in o[9..17]
   template< typename Eol >
   inline void run( const char* b, unsigned long n, unsigned long k, unsigned long j, unsigned long ib, unsigned long il, unsigned long ic, unsigned long* o )
   {
      run1< tracking_mode::eager, Eol >( b, n, k, j, ib, il, ic, o );
      run1< tracking_mode::lazy, Eol >( b, n, k, j, ib, il, ic, o + 9 );
   }

}  // namespace c19

#define C19_WRAP( pol ) \
   extern "C" __attribute__( ( noinline ) ) void w_c19_##pol( const char* b, unsigned long n, unsigned long k, unsigned long j, unsigned long ib, unsigned long il, unsigned long ic, unsigned long* o ) { c19::run< tao::pegtl::eol::pol >( b, n, k, j, ib, il, ic, o ); }
