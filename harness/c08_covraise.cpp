// wrapper TU (C08, coverage facility): ONE step of the real internal::coverage_state from a small valid state — the raise hook for raise< T >.
// For raise< T > the blamed rule T is not a sub-rule of raise< T > (subs_t is empty) and need not occur in the grammar: the result map as
// filled by visit<> (real coverage_insert) has no branch entry ( raise< T >, T ) and possibly no rule entry for T.  The hook must count the
// raise and must not throw (coverage<>() used to end in std::out_of_range instead of the parse_error: known_findings.json C08_COVRAISE).
#include "common.hpp"
#include <tao/pegtl/contrib/coverage.hpp>
using namespace tao::pegtl;

struct T1 : one< 'x' > {};
struct T2 : one< 'y' > {};
struct G1 : seq< sor< T1, raise< T1 > > > {};       // T occurs elsewhere in the grammar
struct G2 : seq< sor< T1, raise< T2 > > > {};       // T occurs nowhere else

// o[0] 0 returned, 1 std::out_of_range-like exception from the container, 2 anything else
// o[1] raise counter of the rule entry of T (or 999 if there is none), o[2] raise counter of the branch ( raise< T >, T ) (999: none)
// o[3] result.size() before, o[4] after, o[5] start counter of T afterwards (must stay 0)
template< typename G, typename T, bool WithParent >
static void step( unsigned long* o )
{
   coverage_result result;
   internal::coverage_state st( result );
   visit< G, internal::coverage_insert >( st.result );
   o[ 3 ] = result.size();
   if( WithParent ) {
      st.stack.push_back( demangle< raise< T > >() );
   }
   memory_input< tracking_mode::eager, eol::lf_crlf, const char* > in( "", "" );
   o[ 0 ] = 0;
   try {
      st.template raise< T >( in );
   }
   catch( ... ) {
      o[ 0 ] = 1;
   }
   o[ 4 ] = result.size();
   const auto i = result.find( demangle< T >() );
   o[ 1 ] = ( i == result.end() ) ? 999 : i->second.raise;
   o[ 5 ] = ( i == result.end() ) ? 999 : i->second.start;
   o[ 2 ] = 999;
   const auto j = result.find( demangle< raise< T > >() );
   if( j != result.end() ) {
      const auto k = j->second.branches.find( demangle< T >() );
      if( k != j->second.branches.end() ) {
         o[ 2 ] = k->second.raise;
      }
   }
}

extern "C" __attribute__( ( noinline ) ) void w_covraise( unsigned long which, unsigned long* o )
{
   switch( which ) {
      case 0: step< G1, T1, true >( o ); break;
      case 1: step< G2, T2, true >( o ); break;
      case 2: step< G1, T1, false >( o ); break;
      default: step< G2, T2, false >( o ); break;
   }
}
