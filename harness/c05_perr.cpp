// C05 (parse_error part): wrapper TU of props/C05_perr.py.  One group of wrappers per unit (-DC05P_<GROUP>), -DC05P_WITH_MSG=1|0
// selects rules with / without  static constexpr const char* error_message.
//
// Real code instantiated here (nothing is replaced): normal< Rule >::raise / raise_nested, parse_error_template /
// parse_error_base constructors, what() (virtual, std::runtime_error), message(), position_string(), position_object(),
// internal::stream_to_string, operator<<( std::ostream&, const position& ), internal::extract_position, demangle< Rule >(),
// memory_input::position(), std::throw_with_nested / std::nested_exception (libstdc++ inline code), and in the RULES / PNESTED
// groups must<>, try_catch_*_raise_nested<>, parse() and parse_nested() under the default control `normal`.
//
// The clang (IR) build sees lib/stubstream/{ostream,sstream} (array-backed std::ostringstream); the g++ build used for
// translation validation and replay sees the genuine libstdc++ headers.
#include <cstring>
#include <exception>
#include <string>
#include <utility>

#include <tao/pegtl/ascii.hpp>
#include <tao/pegtl/demangle.hpp>
#include <tao/pegtl/memory_input.hpp>
#include <tao/pegtl/normal.hpp>
#include <tao/pegtl/nothing.hpp>
#include <tao/pegtl/parse.hpp>
#include <tao/pegtl/parse_error.hpp>
#include <tao/pegtl/rules.hpp>

#include "c05_perr_spec.h"

using namespace tao::pegtl;

#define C05P_EXPORT extern "C" __attribute__( ( noinline ) )

#ifndef C05P_WITH_MSG
#define C05P_WITH_MSG 1
#endif

// rules (global namespace, plain identifiers: clang's __PRETTY_FUNCTION__ and g++'s spell them identically)
struct c05p_rm : one< 'b' > { static constexpr const char* error_message = C05P_MSG_M; };
struct c05p_rd : one< 'b' > {};
struct c05p_ri : one< 'c' > { static constexpr const char* error_message = C05P_MSG_I; };   // blamed by the inner exception
#if C05P_WITH_MSG
using c05p_r = c05p_rm;
#else
using c05p_r = c05p_rd;
#endif

struct c05p_foreign
{
   unsigned long id;
};

namespace vfp
{
   using ul = unsigned long;

   template< std::size_t... Is >
   inline void copy_text( const char* w, const ul n, char* txt, std::index_sequence< Is... > /*unused*/ )
   {
      ( ( txt[ Is ] = ( Is < n ) ? w[ Is ] : '\0' ), ... );
   }

   template< std::size_t... Is >
   inline void copy_source( const std::string& s, ul* rec, std::index_sequence< Is... > /*unused*/ )
   {
      const ul n = s.size();
      const char* d = s.data();
      ( ( rec[ R_SRC + Is ] = ( Is < n ) ? static_cast< unsigned char >( d[ Is ] ) : 0xffffUL ), ... );
   }

   // everything the public interface of a parse_error shows
   inline void record( const parse_error& e, ul* rec, char* txt )
   {
      const char* w = e.what();  // virtual
      const ul n = std::strlen( w );
      rec[ R_WLEN ] = n;
      copy_text( w, n, txt, std::make_index_sequence< C05P_TXT >() );
      const std::string_view m = e.message();
      rec[ R_MOFF ] = static_cast< ul >( m.data() - w );
      rec[ R_MLEN ] = m.size();
      const std::string_view p = e.position_string();
      rec[ R_POFF ] = static_cast< ul >( p.data() - w );
      rec[ R_PLEN ] = p.size();
      const position& po = e.position_object();
      rec[ R_BYTE ] = po.byte;
      rec[ R_LINE ] = po.line;
      rec[ R_COL ] = po.column;
      rec[ R_SLEN ] = po.source.size();
      copy_source( po.source, rec, std::make_index_sequence< C05P_MAXSRC >() );
   }

   // the exception std::rethrow_exception( nested_ptr() ) throws
   inline void record_inner( const std::nested_exception& n, const void* handled, ul* out, char* txt )
   {
      const std::exception_ptr p = n.nested_ptr();
      out[ O_NPTR ] = p ? 1 : 0;
      if( p ) {
         try {
            std::rethrow_exception( p );
         }
         catch( const c05p_foreign& f ) {
            out[ O_INNER ] = I_FOREIGN | ( ( static_cast< const void* >( &f ) == handled ) ? I_SAME : 0 );
            out[ O_INNER_ID ] = f.id;
         }
         catch( const parse_error& e ) {
            out[ O_INNER ] = I_PERR | ( ( static_cast< const void* >( &e ) == handled ) ? I_SAME : 0 );
            record( e, out + O_INREC, txt + C05P_TXT );
         }
         catch( ... ) {
            out[ O_INNER ] = I_OTHER;
         }
      }
   }

   // runs f() and records what the caller sees.  `handled`: address of the exception being handled around f(), if the wrapper knows it
   template< typename F >
   inline void observe( F&& f, const void* handled, ul* out, char* txt )
   {
      try {
         try {
            f();
            out[ O_KIND ] |= K_RETURNED;
         }
         catch( const parse_error& e ) {
            out[ O_KIND ] |= K_PERR;
            record( e, out + O_OUTER, txt );
            throw;  // look at the same object again: is it also a std::nested_exception?
         }
      }
      catch( const std::nested_exception& n ) {
         out[ O_KIND ] |= K_NESTED;
         record_inner( n, handled, out, txt );
      }
      catch( const parse_error& ) {
      }
      catch( const c05p_foreign& f ) {
         out[ O_KIND ] |= K_OTHER;
         out[ O_INNER_ID ] = f.id;
      }
      catch( ... ) {
         out[ O_KIND ] |= K_OTHER;
      }
   }

   template< typename Rule >
   inline ul copy_name( char* buf, const ul cap )
   {
      const std::string_view n = demangle< Rule >();
      for( ul i = 0; i < n.size() && i < cap; ++i ) {
         buf[ i ] = n[ i ];
      }
      return n.size();
   }
}  // namespace vfp

// ---------------------------------------------------------------------------------------------------------------- RAISE
#if defined( C05P_RAISE )
#if defined( C05P_LAZY )
using input_t = memory_input< tracking_mode::lazy, eol::lf_crlf, std::string >;
#else
using input_t = memory_input< tracking_mode::eager, eol::lf_crlf, std::string >;
#endif
// a memory_input over b[0..n) with initial counters (ib, il, ic) and source src[0..nsrc); k bytes are consumed; then normal< R >::raise( in )
C05P_EXPORT void w_raise( const char* b, unsigned long n, unsigned long k, unsigned long ib, unsigned long il, unsigned long ic, const char* src, unsigned long nsrc, unsigned long* out, char* txt )
{
   input_t in( b, b + n, std::string( src, nsrc ), ib, il, ic );
   in.bump( k );
   vfp::observe( [ & ] { normal< c05p_r >::raise( in ); }, nullptr, out, txt );
}

C05P_EXPORT unsigned long w_name( char* buf, unsigned long cap )
{
   return vfp::copy_name< c05p_r >( buf, cap );
}
#endif

// --------------------------------------------------------------------------------------------------------------- NESTED
#if defined( C05P_NESTED )
// normal< R >::raise_nested( am ) with am = position( ab, al, ac, src ), called
//   w_nested_none    : while no exception is being handled
//   w_nested_foreign : inside the handler of a c05p_foreign{ fid }
//   w_nested_perr    : inside the handler of a parse_error raised by normal< c05p_ri >::raise at position( hb, hl, hc, "in" )
C05P_EXPORT void w_nested_none( unsigned long ab, unsigned long al, unsigned long ac, const char* src, unsigned long nsrc, unsigned long* out, char* txt )
{
   const position am( ab, al, ac, std::string( src, nsrc ) );
   vfp::observe( [ & ] { normal< c05p_r >::raise_nested( am ); }, nullptr, out, txt );
}

C05P_EXPORT void w_nested_foreign( unsigned long fid, unsigned long ab, unsigned long al, unsigned long ac, const char* src, unsigned long nsrc, unsigned long* out, char* txt )
{
   const position am( ab, al, ac, std::string( src, nsrc ) );
   try {
      throw c05p_foreign{ fid };
   }
   catch( const c05p_foreign& f ) {
      vfp::observe( [ & ] { normal< c05p_r >::raise_nested( am ); }, &f, out, txt );
   }
}

C05P_EXPORT void w_nested_perr( unsigned long hb, unsigned long hl, unsigned long hc, unsigned long ab, unsigned long al, unsigned long ac, const char* src, unsigned long nsrc, unsigned long* out, char* txt )
{
   const position am( ab, al, ac, std::string( src, nsrc ) );
   try {
      normal< c05p_ri >::raise( position( hb, hl, hc, "in" ) );
   }
   catch( const parse_error& e ) {
      vfp::observe( [ & ] { normal< c05p_r >::raise_nested( am ); }, &e, out, txt );
   }
}

C05P_EXPORT unsigned long w_name( char* buf, unsigned long cap )
{
   return vfp::copy_name< c05p_r >( buf, cap );
}
#endif

// ---------------------------------------------------------------------------------------------------------------- RULES
#if defined( C05P_RULES ) || defined( C05P_PNESTED )
// grammar:  pre* guarded            guarded := 'a' must< 'c' >   (the must'd rule c05p_bi carries error_message C05P_MSG_I)
// the guarded rule c05p_g carries error_message C05P_MSG_M iff C05P_WITH_MSG; its action throws c05p_foreign{ 7 } when the
// match is "ac" followed by 'x' ... (see below): a foreign exception thrown by an action
struct c05p_bi : one< 'c' > { static constexpr const char* error_message = C05P_MSG_I; };
struct c05p_act_rule : one< 'd' > {};   // its action throws c05p_foreign
#if C05P_WITH_MSG
struct c05p_g : seq< one< 'a' >, sor< c05p_act_rule, must< c05p_bi > > > { static constexpr const char* error_message = C05P_MSG_M; };
#else
struct c05p_g : seq< one< 'a' >, sor< c05p_act_rule, must< c05p_bi > > > {};
#endif

template< typename Rule > struct c05p_action : nothing< Rule > {};
template<> struct c05p_action< c05p_act_rule >
{
   template< typename ActionInput >
   static void apply( const ActionInput& in, unsigned long& /*unused*/ )
   {
      throw c05p_foreign{ 1000 + in.position().byte };
   }
};

using pinput_t = memory_input< tracking_mode::eager, eol::lf_crlf, std::string >;

template< typename Top >
inline void c05p_run( const char* b, unsigned long n, unsigned long ib, unsigned long il, unsigned long ic, const char* src, unsigned long nsrc, unsigned long* out, char* txt )
{
   pinput_t in( b, b + n, std::string( src, nsrc ), ib, il, ic );
   unsigned long st = 0;
   vfp::observe( [ & ] { out[ O_RESULT ] = parse< Top, c05p_action >( in, st ) ? 1 : 0; }, nullptr, out, txt );
   out[ O_CONSUMED ] = in.byte() - ib;
}
#endif

#if defined( C05P_RULES )
// C05P_FAMILY: 0 try_catch_raise_nested (parse_error_base), 1 try_catch_any_raise_nested, 2 try_catch_std_raise_nested,
//              3 try_catch_type_raise_nested< c05p_foreign, ... >, 4 try_catch_type_raise_nested< parse_error, ... >
#ifndef C05P_FAMILY
#define C05P_FAMILY 0
#endif
#if C05P_FAMILY == 0
using c05p_tc = try_catch_raise_nested< c05p_g >;
#elif C05P_FAMILY == 1
using c05p_tc = try_catch_any_raise_nested< c05p_g >;
#elif C05P_FAMILY == 2
using c05p_tc = try_catch_std_raise_nested< c05p_g >;
#elif C05P_FAMILY == 3
using c05p_tc = try_catch_type_raise_nested< c05p_foreign, c05p_g >;
#else
using c05p_tc = try_catch_type_raise_nested< parse_error, c05p_g >;
#endif
struct c05p_top : seq< star< one< 'p', '\n' > >, c05p_tc > {};

C05P_EXPORT void w_parse( const char* b, unsigned long n, unsigned long ib, unsigned long il, unsigned long ic, const char* src, unsigned long nsrc, unsigned long* out, char* txt )
{
   c05p_run< c05p_top >( b, n, ib, il, ic, src, nsrc, out, txt );
}

C05P_EXPORT unsigned long w_name( char* buf, unsigned long cap )
{
   return vfp::copy_name< c05p_g >( buf, cap );
}
#endif

// -------------------------------------------------------------------------------------------------------------- PNESTED
#if defined( C05P_PNESTED )
// parse_nested< c05p_ptop >( am, in ): am = position( ab, al, ac, "am" )
#if C05P_WITH_MSG
struct c05p_ptop : seq< star< one< 'p', '\n' > >, c05p_g > { static constexpr const char* error_message = C05P_MSG_M; };
#else
struct c05p_ptop : seq< star< one< 'p', '\n' > >, c05p_g > {};
#endif

C05P_EXPORT void w_parse_nested( const char* b, unsigned long n, unsigned long ab, unsigned long al, unsigned long ac, const char* src, unsigned long nsrc, unsigned long* out, char* txt )
{
   pinput_t in( b, b + n, "in" );
   const position am( ab, al, ac, std::string( src, nsrc ) );
   unsigned long st = 0;
   vfp::observe( [ & ] { out[ O_RESULT ] = parse_nested< c05p_ptop, c05p_action >( am, in, st ) ? 1 : 0; }, nullptr, out, txt );
   out[ O_CONSUMED ] = in.byte();
}

C05P_EXPORT unsigned long w_name( char* buf, unsigned long cap )
{
   return vfp::copy_name< c05p_ptop >( buf, cap );
}
#endif
