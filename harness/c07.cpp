// C07: buffer_input (incremental input) one operation at a time, and leaf rules on buffer_input vs memory_input.
// The reader is a harness-side callback (symbolic stream, arbitrary legal short reads).
#include "common.hpp"
#include <tao/pegtl/buffer_input.hpp>
#include <tao/pegtl/contrib/uint8.hpp>
#include <tao/pegtl/contrib/uint16.hpp>
#include <tao/pegtl/contrib/uint32.hpp>
#include <tao/pegtl/contrib/utf16.hpp>
#include <tao/pegtl/contrib/utf32.hpp>
#include <tao/pegtl/contrib/rep_one_min_max.hpp>
#include <tao/pegtl/contrib/raw_string.hpp>
#include <stdexcept>
#include <string>
using namespace tao::pegtl;

#ifndef CHUNK
#define CHUNK 2
#endif

extern "C" unsigned long verif_read( char* buffer, unsigned long length );
// action log: (rule id, byte, line, column of the match start, matched size, sum of the matched bytes)
extern "C" void verif_act( int id, unsigned long byte, unsigned long line, unsigned long column, unsigned long size, unsigned long sum );

struct vreader
{
   std::size_t operator()( char* buffer, const std::size_t length )
   {
      return verif_read( buffer, length );
   }
};

using bin = buffer_input< vreader, eol::lf_crlf, const char*, CHUNK >;

// the harness observes the input through its public interface only: idx = which snapshot; p = current()
extern "C" void verif_snap( int idx, const char* p, unsigned long byte, unsigned long line, unsigned long column, unsigned long occupied, unsigned long before, unsigned long after, unsigned long capacity );
extern "C" void verif_base( const char* buffer_start );

static void snap( const bin& in, const int idx )
{
   verif_snap( idx, in.current(), in.byte(), in.line(), in.column(), in.buffer_occupied(), in.buffer_free_before_current(), in.buffer_free_after_end(), in.buffer_capacity() );
}

// set-up: a sequence of real operations (0 require, 1 bump, 2 discard) brings the input into an arbitrary valid state
static void setup( bin& in, const unsigned long n, const unsigned long* ops, const unsigned long* args )
{
   verif_base( in.current() - in.buffer_free_before_current() );
   for( unsigned long i = 0; i < n; ++i ) {
      switch( ops[ i ] ) {
         case 0:
            try {
               in.require( args[ i ] );
            }
            catch( const std::overflow_error& ) {
            }
            break;
         case 1:
            in.bump( ( std::min )( args[ i ], in.buffer_occupied() ) );
            break;
         default:
            in.discard();
            break;
      }
   }
   snap( in, 0 );
}

enum : int
{
   OP_REQUIRE,
   OP_SIZE,
   OP_END,
   OP_EMPTY,
   OP_BUMP,
   OP_BUMP_IN_THIS_LINE,
   OP_BUMP_TO_NEXT_LINE,
   OP_DISCARD,
   OP_REWIND
};

// one operation from the state reached by the set-up; the buffer_input lives on the stack of this call.
// o[0] 0 normal, 1 std::overflow_error, 2 any other exception; o[1] value returned by the operation
template< int OP >
static void run_op( const unsigned long maximum, const unsigned long n, const unsigned long* ops, const unsigned long* args, const unsigned long a, const unsigned long k, const int ok, unsigned long* o )
{
   bin in( "", maximum );
   setup( in, n, ops, args );
   unsigned long v = 0;
   int r = 0;
   try {
      if constexpr( OP == OP_REQUIRE ) {
         in.require( a );
      }
      else if constexpr( OP == OP_SIZE ) {
         v = in.size( a );
      }
      else if constexpr( OP == OP_END ) {
         const char* e = in.end( a );
         v = (unsigned long)( e - in.current() );
      }
      else if constexpr( OP == OP_EMPTY ) {
         v = in.empty();
      }
      else if constexpr( OP == OP_BUMP ) {
         in.bump( ( std::min )( k, in.buffer_occupied() ) );
      }
      else if constexpr( OP == OP_BUMP_IN_THIS_LINE ) {
         in.bump_in_this_line( ( std::min )( k, in.buffer_occupied() ) );
      }
      else if constexpr( OP == OP_BUMP_TO_NEXT_LINE ) {
         in.bump_to_next_line( ( std::min )( k, in.buffer_occupied() ) );
      }
      else if constexpr( OP == OP_DISCARD ) {
         in.discard();
         snap( in, 1 );
         in.require( ( std::min )( a, maximum ) );  // documented: after a discard at least `maximum` bytes can be buffered
      }
      else if constexpr( OP == OP_REWIND ) {
         // save, look ahead a bytes, consume up to k of them, leave the guard with result ok (false: rewind)
         auto m = in.auto_rewind< rewind_mode::required >();
         const unsigned long s = in.size( a );
         v = ( std::min )( k, s );
         in.bump( v );
         (void)m( ok != 0 );
      }
   }
   catch( const std::overflow_error& ) {
      r = 1;
   }
   catch( ... ) {
      r = 2;
   }
   snap( in, OP == OP_DISCARD ? 2 : 1 );
   o[ 0 ] = r;
   o[ 1 ] = v;
}

#define C07_OP( name, OP )                                                                                                                                                                \
   extern "C" __attribute__( ( noinline ) ) void name( unsigned long maximum, unsigned long n, const unsigned long* ops, const unsigned long* args, unsigned long a, unsigned long k, int ok, unsigned long* o ) \
   {                                                                                                                                                                                      \
      run_op< OP >( maximum, n, ops, args, a, k, ok, o );                                                                                                                                 \
   }

#ifndef C07_RULE
C07_OP( w_require, OP_REQUIRE )
C07_OP( w_size, OP_SIZE )
C07_OP( w_end, OP_END )
C07_OP( w_empty, OP_EMPTY )
C07_OP( w_bump, OP_BUMP )
C07_OP( w_bump_in_this_line, OP_BUMP_IN_THIS_LINE )
C07_OP( w_bump_to_next_line, OP_BUMP_TO_NEXT_LINE )
C07_OP( w_discard, OP_DISCARD )
C07_OP( w_rewind, OP_REWIND )
#endif

// ------------------------------------------------------------------ a rule on buffer_input and on memory_input
#ifdef C07_RULE

#ifndef C07_REWIND
#define C07_REWIND required   // grammars that discard run like tao::pegtl::parse() does by default: optional (no rewind guard is live across the discard)
#endif

// the opening bracket of raw_string<> as a rule of its own (library internal; a whole literal of level >= 1 needs a 6-byte buffer, which is beyond reach:
// no verdict / out of memory at capacity 6): the marker count asks for look-ahead byte by byte, in.size( i + 1 )
struct raw_open
{
   using rule_t = raw_open;
   using subs_t = empty_list;

   template< apply_mode A, rewind_mode M, template< typename... > class Action, template< typename... > class Control, typename ParseInput, typename... States >
   [[nodiscard]] static bool match( ParseInput& in, States&&... /*unused*/ )
   {
      std::size_t marker_size = 0;
      auto m = in.template auto_rewind< M >();
      return m( internal::raw_string_open< '[', '=' >::template match< A, M, Action, Control >( in, marker_size ) );
   }
};

struct A1 : one< 'a' > {};   // rules that carry a logging action
struct B1 : one< 'b' > {};

namespace vf
{
   template<> struct rid< A1 > { static constexpr int value = 71; };
   template<> struct rid< B1 > { static constexpr int value = 72; };
#ifndef C07_NO_TOP_ACTION
   template<> struct rid< C07_RULE > { static constexpr int value = 70; };
#endif
}  // namespace vf

template< typename Rule >
struct act : nothing< Rule >
{};

template< typename Rule >
struct logact
{
   template< typename ActionInput >
   static void apply( const ActionInput& in )
   {
      unsigned long sum = 0;
      for( std::size_t i = 0; i < in.size(); ++i ) {
         sum += in.peek_uint8( i );
      }
      verif_act( vf::rid< Rule >::value, in.inputerator().byte, in.inputerator().line, in.inputerator().column, in.size(), sum );
   }
};

template<> struct act< A1 > : logact< A1 > {};
template<> struct act< B1 > : logact< B1 > {};
#ifndef C07_NO_TOP_ACTION
template<> struct act< C07_RULE > : logact< C07_RULE > {};
#endif

// o[0] 0 local failure, 1 success, 2 verif_exc (parse error), 4 std::overflow_error, 5 any other exception
// o[1] byte, o[4] line, o[5] column afterwards; o[2] error id, o[3]/o[6]/o[7] error byte/line/column
template< typename Input >
static void run_rule( Input& in, unsigned long* o )
{
   o[ 2 ] = 0; o[ 3 ] = 0; o[ 6 ] = 0; o[ 7 ] = 0;
   try {
      o[ 0 ] = vf::vcontrol< C07_RULE >::template match< apply_mode::action, rewind_mode::C07_REWIND, act, vf::vcontrol >( in );
   }
   catch( const vf::verif_exc& e ) {
      o[ 0 ] = 2; o[ 2 ] = e.id; o[ 3 ] = e.byte; o[ 6 ] = e.line; o[ 7 ] = e.column;
   }
   catch( const std::overflow_error& ) {
      o[ 0 ] = 4;
   }
   catch( ... ) {
      o[ 0 ] = 5;
   }
   o[ 1 ] = in.byte();
   o[ 4 ] = in.line();
   o[ 5 ] = in.column();
}

extern "C" __attribute__( ( noinline ) ) void w_rule_buf( unsigned long maximum, unsigned long n, const unsigned long* ops, const unsigned long* args, unsigned long* o )
{
   bin in( "", maximum );
   setup( in, n, ops, args );
   run_rule( in, o );
   snap( in, 1 );
}

extern "C" __attribute__( ( noinline ) ) void w_rule_mem( const char* b, unsigned long n, unsigned long byte, unsigned long line, unsigned long column, unsigned long* o )
{
   vf::eager_in in( b, b + n, "", byte, line, column );
   run_rule( in, o );
}

#endif
