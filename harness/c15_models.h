/* c15_models.h — C models of the externals on the overflow-reporting path of contrib/integer.hpp
 *     throw parse_error( "... overflow", in );
 * Included by the C15 harnesses after verif.h.  Only the translated unit uses them: the real (g++) build runs the real
 * constructors and libstdc++, so translation validation compares these models with the real thing on every run.
 *
 * What stays real IR around them: __cxa_allocate_exception / __cxa_throw (lowered by ll2c to the pending-exception
 * flag), the inline std::string( const char* ) constructor and destructor, the unwinding through the rule's frames and the
 * wrapper's  catch( const parse_error& ).  What is modelled: the parse_error constructor itself (message and position
 * formatting through std::ostringstream; not a subject of C15); the out-of-line libstdc++ string allocation helper
 * std::string::_M_create is modelled in lib/models.h (the harness selects its parameter type with VF_STRING_SELF_T). */
#ifndef C15_MODELS_H
#define C15_MODELS_H
#ifndef VF_REAL
struct S_class_tao__pegtl__parse_error_template;
struct S_class_std____cxx11__basic_string;
struct S_class_tao__pegtl__memory_input;
struct S_class_tao__pegtl__internal__action_input;
struct S_class_std__runtime_error;

static unsigned c15_reported; /* number of parse_error objects constructed by the translated code */

/* parse_error_template< position >::parse_error_template( const std::string&, const memory_input< eager, lf_crlf, const char* >& ) */
void x__ZN3tao5pegtl20parse_error_templateINS0_8positionEEC1INS0_12memory_inputILNS0_13tracking_modeE0ENS0_5ascii3eol7lf_crlfEPKcEEEERKNSt7__cxx1112basic_stringIcSt11char_traitsIcESaIcEEERKT_(
    struct S_class_tao__pegtl__parse_error_template *e, struct S_class_std____cxx11__basic_string *msg, struct S_class_tao__pegtl__memory_input *in) {
  (void)e; (void)msg; (void)in; c15_reported++;
}
/* parse_error_template< position >::parse_error_template( const std::string&, const internal::action_input< memory_input< ... > >& ) */
void x__ZN3tao5pegtl20parse_error_templateINS0_8positionEEC1INS0_8internal12action_inputINS0_12memory_inputILNS0_13tracking_modeE0ENS0_5ascii3eol7lf_crlfEPKcEEEEEERKNSt7__cxx1112basic_stringIcSt11char_traitsIcESaIcEEERKT_(
    struct S_class_tao__pegtl__parse_error_template *e, struct S_class_std____cxx11__basic_string *msg, struct S_class_tao__pegtl__internal__action_input *in) {
  (void)e; (void)msg; (void)in; c15_reported++;
}
/* referenced only from parse_error's destructors / vtable, which the lowered exception model never calls */
void x__ZNSt13runtime_errorD2Ev(struct S_class_std__runtime_error *e) { (void)e; }
u8 *x__ZNKSt13runtime_error4whatEv(struct S_class_std__runtime_error *e) { (void)e; return (u8 *)""; }
#endif
#endif
