// c06_common.hpp — wrapper side of the C06 check (positions are a function of the consumed prefix).
//
// One run: construct a memory_input (eager or lazy, one eol policy, Source = const char*) over b[0..n) with the
// initial counters (ib, il, ic), consume s bytes with the generic in.bump( s ), match  named< Rule >  with an
// action and a control attached, and report every position that was observable on the way:
//   o[0]  result (0 local failure, 1 success, 2 global failure raised by must<>)
//   o[1]  cursor offset in.current() - b after the run
//   o[2]  in.byte()          o[3] in.line()  o[4] in.column()   (line/column only exist on eager inputs, else 0)
//   o[5..7]   in.position() after the run
//   o[8..11]  position (byte, line, column) and cursor offset seen by Control::start
//   o[12..15] ... by Control::success      o[16..19] ... by Control::failure
//   o[20..23] action_input::position() seen by Action::apply and offset of the begin of the match
//   o[24] bit mask of the hooks that ran (1 start, 2 success, 4 failure, 8 apply)
//   o[25..28] in.position() and cursor offset seen by Control::raise (what parse_error would carry)
#pragma once

#include "common.hpp"

namespace c06
{
   using namespace tao::pegtl;

   constexpr int SLOTS = 30;

   struct obs
   {
      unsigned long v[ 16 ];
      unsigned long seen;
   };

   struct exc
   {
      unsigned long byte;
      unsigned long line;
      unsigned long column;
      unsigned long cursor;
   };

   inline void put( obs& o, const int slot, const position& p, const unsigned long cursor )
   {
      o.v[ 4 * slot ] = p.byte;
      o.v[ 4 * slot + 1 ] = p.line;
      o.v[ 4 * slot + 2 ] = p.column;
      o.v[ 4 * slot + 3 ] = cursor;
      o.seen |= 1UL << slot;
   }

   // a user-level name for the rule under test: built-in atoms have enable_control == false, a rule
   // deriving from them (as every grammar does) gets the control hooks and actions
   template< typename Rule >
   struct named
      : Rule
   {};

   template< typename T >
   inline constexpr bool is_named = false;
   template< typename R >
   inline constexpr bool is_named< named< R > > = true;

   // the observation record is the last state (rules like raw_string pass additional states of their own in front)
   inline obs& last( obs& o )
   {
      return o;
   }

   template< typename T, typename... Ts >
   inline obs& last( T& /*unused*/, Ts&... ts )
   {
      return last( ts... );
   }

   template< typename Rule >
   struct ctl
      : normal< Rule >
   {
      template< typename ParseInput, typename... States >
      static void start( const ParseInput& in, States&&... st )
      {
         if constexpr( is_named< Rule > ) {
            put( last( st... ), 0, in.position(), (unsigned long)( in.current() - in.begin() ) );
         }
      }

      template< typename ParseInput, typename... States >
      static void success( const ParseInput& in, States&&... st )
      {
         if constexpr( is_named< Rule > ) {
            put( last( st... ), 1, in.position(), (unsigned long)( in.current() - in.begin() ) );
         }
      }

      template< typename ParseInput, typename... States >
      static void failure( const ParseInput& in, States&&... st )
      {
         if constexpr( is_named< Rule > ) {
            put( last( st... ), 2, in.position(), (unsigned long)( in.current() - in.begin() ) );
         }
      }

      // parse_error( msg, in ) stores in.position(); the message formatting is not the subject here
      template< typename ParseInput, typename... States >
      [[noreturn]] static void raise( const ParseInput& in, States&&... /*unused*/ )
      {
         const auto p = in.position();
         throw exc{ p.byte, p.line, p.column, (unsigned long)( in.current() - in.begin() ) };
      }
   };

   template< typename Rule >
   struct act
      : nothing< Rule >
   {};

   template< typename Rule >
   struct act< named< Rule > >
   {
      template< typename ActionInput >
      static void apply( const ActionInput& ai, obs& o )
      {
         put( o, 3, ai.position(), (unsigned long)( ai.begin() - ai.input().begin() ) );
      }
   };

   template< tracking_mode P, typename Eol, typename Rule, rewind_mode M >
   inline void run1( const char* b, unsigned long n, unsigned long s, unsigned long ib, unsigned long il, unsigned long ic, unsigned long* o )
   {
      memory_input< P, Eol, const char* > in( b, b + n, "", ib, il, ic );
      in.bump( s );
      obs ob{};
      o[ 25 ] = o[ 26 ] = o[ 27 ] = o[ 28 ] = 0;
      o[ 29 ] = 0;
      try {
         o[ 0 ] = ctl< named< Rule > >::template match< apply_mode::action, M, act, ctl >( in, ob );
      }
      catch( const exc& e ) {
         o[ 0 ] = 2;
         o[ 25 ] = e.byte;
         o[ 26 ] = e.line;
         o[ 27 ] = e.column;
         o[ 28 ] = e.cursor;
      }
      o[ 1 ] = (unsigned long)( in.current() - b );
      o[ 2 ] = in.byte();
      if constexpr( P == tracking_mode::eager ) {
         o[ 3 ] = in.line();
         o[ 4 ] = in.column();
      }
      else {
         o[ 3 ] = 0;
         o[ 4 ] = 0;
      }
      {
         const auto p = in.position();
         o[ 5 ] = p.byte;
         o[ 6 ] = p.line;
         o[ 7 ] = p.column;
      }
      for( int i = 0; i < 16; ++i ) {
         o[ 8 + i ] = ob.v[ i ];
      }
      o[ 24 ] = ob.seen;
   }

   // eager run in o[0..29], lazy run in o[30..59]
   template< typename Eol, typename Rule, rewind_mode M = rewind_mode::required >
   inline void run( const char* b, unsigned long n, unsigned long s, unsigned long ib, unsigned long il, unsigned long ic, unsigned long* o )
   {
      run1< tracking_mode::eager, Eol, Rule, M >( b, n, s, ib, il, ic, o );
      run1< tracking_mode::lazy, Eol, Rule, M >( b, n, s, ib, il, ic, o + SLOTS );
   }

}  // namespace c06

#define C06_WRAP1( name, pol, mode, ... ) \
   extern "C" __attribute__( ( noinline ) ) void name( const char* b, unsigned long n, unsigned long s, unsigned long ib, unsigned long il, unsigned long ic, unsigned long* o ) { c06::run< tao::pegtl::eol::pol, __VA_ARGS__, tao::pegtl::rewind_mode::mode >( b, n, s, ib, il, ic, o ); }

// the five end-of-line policies of one rule
#define C06_WRAP( name, mode, ... )                  \
   C06_WRAP1( name##_lf, lf, mode, __VA_ARGS__ )           \
   C06_WRAP1( name##_cr, cr, mode, __VA_ARGS__ )           \
   C06_WRAP1( name##_crlf, crlf, mode, __VA_ARGS__ )       \
   C06_WRAP1( name##_lf_crlf, lf_crlf, mode, __VA_ARGS__ ) \
   C06_WRAP1( name##_cr_crlf, cr_crlf, mode, __VA_ARGS__ )
