// C11 (a): the real analyze_cycles_impl (work(), problems(), stack guards) compiled unchanged against array-backed stand-ins for
// <map>/<set>/<vector> (lib/stubstd, placed before the system headers).
//   w_frame : one frame of work(); under CBMC the recursive calls are cut (ll2c --cut) and answered by the harness
//   w_whole : a complete problems() run on an abstract grammar (native builds only: translation validation and replay)
#include <tao/pegtl/contrib/analyze.hpp>
using namespace tao::pegtl;
static const char* const NAMES[] = { "A", "B", "C", "D", "E", "F", "G", "H" };
struct H : internal::analyze_cycles_impl
{
   H() : analyze_cycles_impl( -1 ) {}
   void add( int id, int type, int nsubs, const int* subs )
   {
      auto [ i, b ] = m_entries.try_emplace( NAMES[ id ], internal::analyze_type( type ) );
      for( int k = 0; k < nsubs; ++k ) {
         i->second.subs.emplace_back( NAMES[ subs[ k ] ] );
      }
   }
   bool frame( int id, bool accum, bool onstack, unsigned long* problems )
   {
      if( onstack ) {
         m_stack.emplace( NAMES[ id ] );
      }
      m_trace.push_back( "root" );
      const bool r = work( find( NAMES[ id ] ), accum );
      *problems = m_problems;
      return r;
   }
};

// entry 0 = the frame under test (type, subs symbolic), entries 1..3 = possible sub-rules
extern "C" __attribute__( ( noinline ) ) int w_frame( int type, int nsubs, const int* subs, int accum, int onstack, unsigned long* problems )
{
   H h;
   h.add( 0, type, nsubs, subs );
   const int none = 0;
   for( int i = 1; i < 4; ++i ) {
      h.add( i, 0, 0, &none );
   }
   return h.frame( 0, accum, onstack, problems );
}

// abstract grammar:  [ if wrap: P(6) := seq< N(0), T(5) > ;  T := opt< P > ; ]  N := type< c[subs]... > ;
//   child c_i (1..3): consumes_i ? ( backedge_i ? seq< N, L > : any<> ) : ( backedge_i ? opt< N > : opt<> ) ;  L(4) := any<>
extern "C" __attribute__( ( noinline ) ) unsigned long w_whole( int type, int nsubs, const int* subs, const int* consumes, const int* backedge, int wrap )
{
   H h;
   const int ps[ 2 ] = { 0, 5 };
   const int ts[ 1 ] = { 6 };
   if( wrap ) {
      h.add( 6, 2, 2, ps );
      h.add( 5, 1, 1, ts );
   }
   h.add( 0, type, nsubs, subs );
   h.add( 4, 0, 0, ps );
   for( int i = 1; i < 4; ++i ) {
      const int be2[ 2 ] = { 0, 4 };
      if( consumes[ i ] ) {
         h.add( i, backedge[ i ] ? 2 : 0, backedge[ i ] ? 2 : 0, be2 );
      }
      else {
         h.add( i, 1, backedge[ i ] ? 1 : 0, be2 );
      }
   }
   return h.problems();
}
