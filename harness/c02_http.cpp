// C02: http chunk helper rules (match functions that take the chunk size as a state)
#include "common.hpp"
#include <tao/pegtl/contrib/http.hpp>
using namespace tao::pegtl;

template< rewind_mode M >
static void run_chunk_size( const char* b, unsigned long n, unsigned long s, unsigned long* o )
{
   vf::eager_in in( b, b + n, "" );
   in.bump_in_this_line( s );
   std::size_t size = 77;
   o[ 0 ] = http::chunk_size::match< apply_mode::action, M, nothing, vf::vcontrol >( in, size );
   o[ 1 ] = in.byte();
   o[ 2 ] = size;
   o[ 4 ] = in.line();
   o[ 5 ] = in.column();
}

template< rewind_mode M >
static void run_chunk_data( const char* b, unsigned long n, unsigned long s, unsigned long size, unsigned long* o )
{
   vf::eager_in in( b, b + n, "" );
   in.bump_in_this_line( s );
   o[ 0 ] = http::chunk_data::match< apply_mode::action, M, nothing, vf::vcontrol >( in, size );
   o[ 1 ] = in.byte();
   o[ 4 ] = in.line();
   o[ 5 ] = in.column();
}

extern "C" __attribute__( ( noinline ) ) void w_chunk_size_r( const char* b, unsigned long n, unsigned long s, unsigned long* o ) { run_chunk_size< rewind_mode::required >( b, n, s, o ); }
extern "C" __attribute__( ( noinline ) ) void w_chunk_data_r( const char* b, unsigned long n, unsigned long s, unsigned long size, unsigned long* o ) { run_chunk_data< rewind_mode::required >( b, n, s, size, o ); }
VF_WRAP( w_chunk_r, http::chunk, apply_mode::action, rewind_mode::required, nothing, vf::vcontrol )
VF_WRAP( w_chunk_o, http::chunk, apply_mode::action, rewind_mode::optional, nothing, vf::vcontrol )
