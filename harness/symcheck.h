/* symcheck.h — outcome of one real run vs the reference outcome (shared by the sym-level harnesses) */
#ifndef SYMCHECK_H
#define SYMCHECK_H
static void check_variant(const char *unused, u64 *o, out_t e, int required) {
  CHECK(o[0] == (u64)e.r, "result equals the PEG semantics (success / local failure / global failure)");
  if (e.r == 1) {
    CHECK(o[1] == e.pos, "on success exactly the prescribed prefix is consumed");
    CHECK(o[1] >= sp_start, "success never moves the cursor backwards");
  }
  if (e.r == 0 && required) {
    CHECK(o[1] == sp_start, "local failure under rewind_mode::required restores the cursor (byte)");
  }
  if (e.r == 0 || e.r == 1) {
#ifndef SP_LAZY   /* lazy inputs keep no line/column counters (their position() is C06's subject) */
    if (e.r == 1 || required) {
      u64 l, c; sp_recount(o[1], &l, &c);
      CHECK(o[4] == l && o[5] == c, "line/column after the call equal a recount of the consumed prefix");
    }
#endif
  }
  if (e.r == 2) {
    CHECK((s64)o[2] == (s64)e.id, "global failure names the first must-rule that failed in evaluation order");
    CHECK(o[3] >= e.lo && o[3] <= e.far, "exception position lies between the start of the blamed attempt and the furthest point reached");
#ifndef SP_LAZY
    if (e.id < 1000 || e.id >= 4000) { u64 l, c; sp_recount(o[3], &l, &c); CHECK(o[6] == l && o[7] == c, "exception byte/line/column are mutually consistent"); }
#endif
  }
  if (e.r == 3) {
    CHECK((s64)o[2] == (s64)e.id, "foreign exception propagates unchanged");
  }
}
#endif
