/* C16: raw_string vs an independent scanner for Lua long brackets */
#ifndef C16_OPEN
#define C16_OPEN '['
#define C16_MARK '='
#define C16_CLOSE ']'
#endif
#ifndef C16_ALPHA
#define C16_ALPHA "[[=]]]\n\rax"
#endif
#define VF_ALPHABET C16_ALPHA
#include "verif.h"
#include "leaf.h"
#ifndef NA
#define NA 5
#endif
#define B(i) (lf_buf[i])
/* eol policies: 0 lf_crlf ("\n" or "\r\n"), 1 lf ("\n"), 2 crlf ("\r\n") */
#ifndef C16_POL
#define C16_POL 0
#endif
static u64 eol_len(u64 p) {
  if (C16_POL != 2 && p < lf_n && B(p) == '\n') return 1;
  if (C16_POL != 1 && p + 1 < lf_n && B(p) == '\r' && B(p + 1) == '\n') return 2;
  return 0;
}
/* content rule: 0 none (any byte), 1 any, 2 not_one<'x'> */
#ifndef C16_CONTENT
#define C16_CONTENT 0
#endif
typedef struct { int ok; u64 end, cb, ce; } rs_t;
static rs_t scan(void) {
  rs_t r = { 0, 0, 0, 0 };
  u64 s = lf_start;
  if (s >= lf_n || B(s) != C16_OPEN) return r;
  u64 i = 1;
  for (u64 k = 0; k < NA; ++k) { if (s + i < lf_n && B(s + i) == C16_MARK) i++; else break; }
  if (s + i >= lf_n || B(s + i) != C16_OPEN) return r;
  u64 level = i - 1, msz = i + 1;
  u64 p = s + msz;
  p += eol_len(p);                                /* a single line ending right after the opening bracket is not content */
  for (u64 q = p; q <= NA; ++q) {                 /* first closing long bracket of the same level */
    if (q + msz > lf_n) break;
    int close = B(q) == C16_CLOSE && B(q + msz - 1) == C16_CLOSE;
    for (u64 j = 0; j < NA; ++j) if (j < level && B(q + 1 + j) != C16_MARK) close = 0;
    if (close) { r.ok = 1; r.cb = p; r.ce = q; r.end = q + msz; return r; }
    if (C16_CONTENT == 2 && B(q) == 'x') break;   /* content rule rejects this byte */
  }
  return r;
}
static void harness(void) {
  lf_setup(NA);
  rs_t e = scan();
  u64 o[8];
#if !defined(VF_SPLIT) || defined(V_lazy_r)
  w_rs_lazy_r(lf_buf, lf_n, lf_start, o);
  CHECK(o[0] == (u64)e.ok, "matches exactly when an opening long bracket is followed by a closing bracket of the same level");
  CHECK(o[1] <= lf_n, "cursor inside the input");
  if (e.ok) { CHECK(o[1] == e.end, "consumes through the first closing bracket of the same level");
              CHECK(o[6] == 1 && o[2] == e.cb && o[3] == e.ce, "content action gets the text between the brackets without the first line ending"); }
  else { CHECK(o[1] == lf_start, "without a matching close the rule fails locally without consuming"); CHECK(o[6] == 0, "no content action on failure"); }
#endif
#if !defined(VF_SPLIT) || defined(V_lazy_o)
  w_rs_lazy_o(lf_buf, lf_n, lf_start, o);
  CHECK(o[0] == (u64)e.ok, "result independent of the rewind mode");
  if (e.ok) CHECK(o[1] == e.end && o[2] == e.cb && o[3] == e.ce, "consumption and content independent of the rewind mode");
#endif
#if !defined(VF_SPLIT) || defined(V_eager_r)
  w_rs_eager_r(lf_buf, lf_n, lf_start, o);
  lf_check(o, e.ok, e.end, 1, NA);
  if (e.ok) CHECK(o[2] == e.cb && o[3] == e.ce, "content span on the eager input");
#endif
  OBS(e.ok); OBS(e.end);
  REACH(e.ok && e.ce > e.cb, "literal with non-empty content");
  REACH(!e.ok && lf_start < lf_n && B(lf_start) == C16_OPEN, "opening character without a complete literal");
#if NA >= 5 && C16_POL != 2
  REACH(e.ok && e.cb == lf_start + 3, "line ending after the opening bracket skipped");
#endif
#if NA >= 6 && C16_POL != 1
  REACH(e.ok && e.cb == lf_start + 4 && B(lf_start + 1) == C16_OPEN, "CRLF after the opening bracket skipped");
#endif
#if NA >= 8
  REACH(e.ok && e.end - lf_start == 8 && B(lf_start + 1) == C16_MARK && B(lf_start + 3) == C16_CLOSE && B(lf_start + 4) == C16_CLOSE, "level-1 literal containing a level-0 closing bracket");
#endif
#if NA >= 6
  REACH(e.ok && e.end - lf_start == 6 && B(lf_start + 1) == C16_MARK, "level-1 literal");
#endif
}
