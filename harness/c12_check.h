/* c12_check.h — harness side of C12: the reference node list (filled by the generated PEG reference), its positional layout,
 * and the comparison with the tree the real parse_tree::parse<> returned (reported by harness/c12_tree.hpp).
 *
 * Before including: SP_N/SP_K/SP_MAXRES, C12_MAXCH, C12_MAXD, C12_MAXN, C12_TOTAL (= MAXCH + .. + MAXCH^MAXD) and the constant
 * tables c12_par[], c12_k[], c12_dep[] (parent slot or -1, sibling index, depth of every slot) and c12_off[] (first slot of a level).
 */
#ifndef C12_CHECK_H
#define C12_CHECK_H

void x_verif_capacity_exceeded(void) { CHECK(0, "stand-in container capacity suffices for every run within the bounds"); }
/* assert() of the library (builder stack never empty; exactly the root left after a successful parse): x___assert_fail in symtab.h is a failed check */

/* verdicts of bool-returning actions attached to named rules (vf::act_bool): 0 veto, 1 accept, 2 throw; indexed by rule and start */
#ifndef C12_VETO_MAX
#define C12_VETO_MAX 0
#endif
static u8 c12_T_veto[8][SP_N + 1];     /* rows 0..3: sym<0..3>, rows 4..7: named<0..3> (and other ids >= 100) */
static int c12_veto(u32 rule, u64 begin) { return c12_T_veto[(rule >= 100 ? 4 : 0) + (rule & 3)][begin <= SP_N ? begin : 0]; }
u32 x_verif_veto(u32 rule, u64 begin, u64 end) { (void)end; return (u32)c12_veto(rule, begin); }
static void c12_setup(void) {
  for (int r = 0; r < 8; ++r) for (u64 p = 0; p <= SP_N; ++p) c12_T_veto[r][p] = (u8)IN(C12_VETO_MAX ? 0 : 1, C12_VETO_MAX ? C12_VETO_MAX : 1);
}

/* ------------------------------------------------------------------ reference node list (pre-order) */
#define TS_NONE 255u
static u16 ts_id[C12_MAXN];
static u8 ts_d[C12_MAXN], ts_b[C12_MAXN], ts_e[C12_MAXN];
static unsigned ts_n, ts_depth;
static int ts_over;

static void ts_reset(void) { ts_n = 0; ts_depth = 0; ts_over = 0; }

/* a selected rule starts a match at p: its node comes before everything recorded inside it */
static unsigned ts_open(u32 id, u64 p) {
  unsigned i = ts_n;
  if (i < C12_MAXN) { ts_id[i] = (u16)id; ts_d[i] = (u8)ts_depth; ts_b[i] = (u8)p; ts_e[i] = TS_NONE; }
  else ts_over = 1;
  ts_n = i + 1; ts_depth++;
  return i;
}

/* the documented transformers (doc/Parse-Tree.md), applied when the selected rule has succeeded at q:
 *   0 store_content   the node keeps its content
 *   1 remove_content  the node is stored without content
 *   2 fold_one        exactly one child: the child takes the node's place; otherwise the node is stored without content
 *   3 discard_empty   no children: the node is removed; otherwise the node is stored without content                      */
static void ts_close(unsigned i, u64 q, int mode) {
  if (i >= C12_MAXN) return;
  if (mode == 0) { ts_e[i] = (u8)q; return; }
  if (mode == 1) { ts_e[i] = TS_NONE; return; }
  if (mode == 3) { if (ts_n == i + 1) ts_n = i; else ts_e[i] = TS_NONE; return; }
  unsigned nc = 0;
  for (unsigned j = 0; j < C12_MAXN; ++j) if (j > i && j < ts_n && ts_d[j] == ts_d[i] + 1) nc++;
  if (nc == 1) {
    for (unsigned j = 0; j + 1 < C12_MAXN; ++j)
      if (j >= i && j + 1 < ts_n) { ts_id[j] = ts_id[j + 1]; ts_d[j] = (u8)(ts_d[j + 1] - 1); ts_b[j] = ts_b[j + 1]; ts_e[j] = ts_e[j + 1]; }
    ts_n--;
  } else ts_e[i] = TS_NONE;
}

/* ------------------------------------------------------------------ positional layout of the reference list */
static unsigned ts_slot[C12_MAXN], ts_nch[C12_MAXN], ts_rootn;

static int ts_layout(void) {
  unsigned cnt[C12_MAXD + 1], open_[C12_MAXD + 1];
  u64 lvl[C12_MAXD + 1];
  int fit = 1;
  for (unsigned d = 0; d <= C12_MAXD; ++d) { cnt[d] = 0; open_[d] = 0; lvl[d] = 0; }
  ts_rootn = 0;
  for (unsigned i = 0; i < C12_MAXN; ++i) {
    ts_slot[i] = 0; ts_nch[i] = 0;
    if (i < ts_n) {
      unsigned d = ts_d[i];
      if (d >= C12_MAXD) { fit = 0; }
      else {
        unsigned k = cnt[d];
        if (k >= C12_MAXCH) fit = 0;
        cnt[d] = k + 1; cnt[d + 1] = 0;
        lvl[d] = (d ? lvl[d - 1] * C12_MAXCH : 0) + k;
        ts_slot[i] = (unsigned)(c12_off[d] + lvl[d]);
        open_[d] = i;
        if (d == 0) ts_rootn++; else ts_nch[open_[d - 1]]++;
      }
    }
  }
  return fit;
}

/* ------------------------------------------------------------------ report of the real run (see c12_tree.hpp) */
#define W_PRESENT(w) ((unsigned)((w) >> 63))
#define W_ID(w) ((unsigned)((w) & 0xffff))
#define W_TID(w) ((unsigned)(((w) >> 16) & 0xffff))
#define W_B(w) ((unsigned)(((w) >> 32) & 0xff))
#define W_E(w) ((unsigned)(((w) >> 40) & 0xff))
#define W_NCH(w) ((unsigned)(((w) >> 48) & 0xff))

static void c12_clear(u64 *o) { for (unsigned i = 0; i < 8 + C12_TOTAL; ++i) o[i] = 0; }

static void c12_obs(u64 *o) { for (unsigned i = 0; i < 8 + C12_TOTAL; ++i) if (i != 7) OBS(o[i]); }

/* the returned tree against the reference */
static void c12_compare(u64 *o, out_t e) {
  CHECK(o[0] == (u64)e.r, "parse_tree::parse returns a tree iff the grammar matches (exceptions propagate unchanged)");
  if (e.r == 1) CHECK(o[1] == e.pos, "the tree-building parse consumes exactly what the grammar consumes");
  if (e.r >= 2) CHECK((s64)o[2] == (s64)e.id, "an exception that aborts the parse is the one the plain parse raises");
  if (e.r != 1) return;
  CHECK(o[4] == 1, "the returned root is a root node without content");
  CHECK(o[5] == 0, "the tree fits the reported shape (no null child, no node beyond the reference bounds)");
  CHECK(o[3] == ts_n, "number of nodes equals the number of successful selected matches in the derivation");
  CHECK(o[6] == ts_rootn, "number of top-level nodes");
  for (unsigned i = 0; i < C12_MAXN; ++i) {
    if (i < ts_n) {
      u64 w = o[8 + ts_slot[i]];
      CHECK(W_PRESENT(w), "every match of the derivation has its node at its place (order and nesting)");
      CHECK(W_ID(w) == ts_id[i] + 1u, "the node at that place belongs to the rule that matched there");
      CHECK(W_TID(w) == ts_id[i] + 1u, "the node's type member names that rule");
      CHECK(W_B(w) == ts_b[i], "node begins where its rule started to match");
      CHECK(W_E(w) == ts_e[i], "node ends where its rule's match ended (or has no content where the transformer removes it)");
      CHECK(W_NCH(w) == ts_nch[i], "node has exactly the children of the derivation (nothing left from abandoned branches)");
    }
  }
}

/* shape of the returned tree on its own: present nodes are exactly the first children of present parents; unless the grammar looks
 * ahead (a match inside at<> may reach beyond its parent and is followed by nodes that start earlier), children lie inside their parent,
 * one after the other */
static void c12_structure(u64 *o, int lookahead) {
  if (o[0] != 1) { CHECK(o[3] == 0, "no tree, no nodes"); return; }
  for (unsigned s = 0; s < C12_TOTAL; ++s) {
    u64 w = o[8 + s];
    int par = c12_par[s];
    unsigned k = c12_k[s];
    unsigned pn = par < 0 ? (unsigned)o[6] : W_NCH(o[8 + (par < 0 ? 0 : par)]);
    int pp = par < 0 ? 1 : (int)W_PRESENT(o[8 + (par < 0 ? 0 : par)]);
    CHECK(W_PRESENT(w) == (unsigned)(pp && k < pn), "a node is reported exactly for the children its parent has");
    if (W_PRESENT(w)) {
      if (W_E(w) != TS_NONE) CHECK(W_B(w) <= W_E(w), "a node's content is a forward range");
      CHECK(W_B(w) >= sp_start && (W_E(w) == TS_NONE || W_E(w) <= sp_n), "a node's content lies inside the input");
      if (!lookahead) {
        if (par >= 0) {
          u64 pw = o[8 + par];
          CHECK(W_B(w) >= W_B(pw), "a child does not begin before its parent");
          if (W_E(pw) != TS_NONE && W_E(w) != TS_NONE) CHECK(W_E(w) <= W_E(pw), "a child does not end after its parent");
        }
        if (k > 0) {
          u64 sw = o[8 + s - 1];
          CHECK(W_B(sw) <= W_B(w), "siblings are ordered by position");
          if (W_E(sw) != TS_NONE) CHECK(W_E(sw) <= W_B(w), "siblings do not overlap");
        }
      }
    }
  }
}

#endif
