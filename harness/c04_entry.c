/* C04: parse<>() / parse_nested<>() forward the requested apply and rewind mode: the sub-rules of the top-level rule see them, actions run iff enabled */
#define SP_N 2
#define SP_K 2
#define SP_MAXRES 3
#define SP_BYTES 0
#define SP_LOG 8
#define SP_EVENTS 1
#include "verif.h"
#include "symtab.h"
static unsigned n_apply;
static void ev_push_real(u8 kind, u32 rule, u64 a, u64 b) { (void)kind; (void)rule; (void)a; (void)b; }
void x_verif_event(u32 kind, u32 rule, u64 a, u64 b) { (void)rule; (void)a; (void)b; if (kind == 6 /* EV_APPLY */ || kind == 7 /* EV_APPLY0 */) n_apply++; }
u32 x_verif_veto(u32 rule, u64 b, u64 e) { (void)rule; (void)b; (void)e; return 1; }
static void one(void (*w)(Pu8, u64, u64, Pu64), int a, int m_required) {
  u64 o[2];
  n_apply = 0; sp_nlog = 0;
  sp_expect_reset(a);
  w(sp_buf, sp_n, sp_start, o);
  sp_expect_check(o[0]);
  if (m_required && o[0] == 0) CHECK(o[1] == sp_start, "a run requested with rewind_mode::required restores the cursor on local failure");
  if (!a) CHECK(n_apply == 0, "no action runs in a run requested with apply_mode::nothing");
  if (a && o[0] == 1) CHECK(n_apply == 3, "the actions of the top-level rule and of its two sub-rules run exactly once each in a successful run with actions");
  OBS(o[0]); OBS(o[1]); OBS(n_apply);
}
static void harness(void) {
  sp_setup();
  one(w_parse_a, 1, 1);
  one(w_parse_n, 0, 0);
  one(w_nested_a, 1, 0);
  one(w_nested_n, 0, 1);
  ASSUME(!sp_exhausted);
  REACH(T_res[0][sp_start] == 1 && T_res[1][T_np[0][sp_start]] == 1, "both sub-rules match");
  REACH(T_res[0][sp_start] == 2, "a sub-rule raises");
}
