// c06_tree.hpp — positions stored in parse-tree nodes (C06): the node's own start()/success() hooks, which are what
// parse_tree::parse calls for every selected rule, followed by node.begin()/node.end().
//   o[0] result   o[1] cursor offset after the run
//   o[2..4] node.begin() (byte, line, column)   o[5..7] node.end() (valid when o[0] == 1)
#pragma once

#include "c06_common.hpp"

#include <tao/pegtl/contrib/parse_tree.hpp>

namespace c06
{
   template< tracking_mode P, typename Eol, typename Rule >
   inline void tree1( const char* b, unsigned long n, unsigned long s, unsigned long ib, unsigned long il, unsigned long ic, unsigned long* o )
   {
      memory_input< P, Eol, const char* > in( b, b + n, "", ib, il, ic );
      in.bump( s );
      parse_tree::node nd;
      nd.template start< Rule >( in );
      o[ 0 ] = normal< Rule >::template match< apply_mode::nothing, rewind_mode::required, nothing, normal >( in );
      if( o[ 0 ] ) {
         nd.template success< Rule >( in );
      }
      o[ 1 ] = (unsigned long)( in.current() - b );
      {
         const auto p = nd.begin();
         o[ 2 ] = p.byte;
         o[ 3 ] = p.line;
         o[ 4 ] = p.column;
      }
      o[ 5 ] = o[ 6 ] = o[ 7 ] = 0;
      if( o[ 0 ] ) {
         const auto p = nd.end();
         o[ 5 ] = p.byte;
         o[ 6 ] = p.line;
         o[ 7 ] = p.column;
      }
   }

   // eager run in o[0..7], lazy run in o[8..15]
   template< typename Eol, typename Rule >
   inline void tree( const char* b, unsigned long n, unsigned long s, unsigned long ib, unsigned long il, unsigned long ic, unsigned long* o )
   {
      tree1< tracking_mode::eager, Eol, Rule >( b, n, s, ib, il, ic, o );
      tree1< tracking_mode::lazy, Eol, Rule >( b, n, s, ib, il, ic, o + 8 );
   }

}  // namespace c06

#define C06_TREE1( name, pol, ... ) \
   extern "C" __attribute__( ( noinline ) ) void name( const char* b, unsigned long n, unsigned long s, unsigned long ib, unsigned long il, unsigned long ic, unsigned long* o ) { c06::tree< tao::pegtl::eol::pol, __VA_ARGS__ >( b, n, s, ib, il, ic, o ); }

#define C06_TREE( name, ... )                  \
   C06_TREE1( name##_lf, lf, __VA_ARGS__ )           \
   C06_TREE1( name##_cr, cr, __VA_ARGS__ )           \
   C06_TREE1( name##_crlf, crlf, __VA_ARGS__ )       \
   C06_TREE1( name##_lf_crlf, lf_crlf, __VA_ARGS__ ) \
   C06_TREE1( name##_cr_crlf, cr_crlf, __VA_ARGS__ )
