// wrapper TU (C04): the entry points parse<>() and parse_nested<>() hand the requested apply mode and rewind mode on to the top-level rule
// (a run requested with apply_mode::nothing must not enable actions anywhere; a run with actions must not lose them)
#include "common.hpp"
using namespace tao::pegtl;
using G = vf::named< 0, vf::sym< 0 >, vf::sym< 1 > >;

template< bool Nested, apply_mode A, rewind_mode M >
static void entry( const char* b, unsigned long n, unsigned long start, unsigned long* o )
{
   vf::eager_in in( b, b + n, "" );
   in.bump_in_this_line( start );
   o[ 0 ] = 9;
   try {
      if constexpr( Nested ) {
         o[ 0 ] = parse_nested< G, vf::act_void, vf::vcontrol, A, M >( in.position(), in ) ? 1 : 0;
      }
      else {
         o[ 0 ] = parse< G, vf::act_void, vf::vcontrol, A, M >( in ) ? 1 : 0;
      }
   }
   catch( const vf::verif_exc& ) {
      o[ 0 ] = 2;
   }
   catch( const vf::foreign_exc& ) {
      o[ 0 ] = 3;
   }
   o[ 1 ] = in.byte();
}
#define ENTRY( name, nested, a, m ) extern "C" __attribute__( ( noinline ) ) void name( const char* b, unsigned long n, unsigned long s, unsigned long* o ) { entry< nested, apply_mode::a, rewind_mode::m >( b, n, s, o ); }
ENTRY( w_parse_a, false, action, required )
ENTRY( w_parse_n, false, nothing, optional )
ENTRY( w_nested_a, true, action, optional )
ENTRY( w_nested_n, true, nothing, required )
