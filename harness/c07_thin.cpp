// C07: string_input / argv_input are thin wrappers that hand (pointer, size) to memory_input
#include "common.hpp"
#include <string>
using namespace tao::pegtl;

#include <tao/pegtl/string_input.hpp>
#include <tao/pegtl/argv_input.hpp>

// o[0] size, o[1] bytes equal to the given ones (0/1), o[2] byte, o[3] line, o[4] column, o[5] result of any, o[6] byte afterwards
extern "C" __attribute__( ( noinline ) ) void w_string_input( const char* b, unsigned long n, unsigned long* o )
{
   string_input< tracking_mode::eager, eol::lf_crlf, const char* > in( std::string( b, n ), "" );
   o[ 0 ] = in.size( 0 );
   unsigned long same = ( in.end() - in.begin() == (long)n );
   for( unsigned long i = 0; i < n && i < o[ 0 ]; ++i ) {
      same = same && ( in.peek_char( i ) == b[ i ] );
   }
   o[ 1 ] = same;
   o[ 2 ] = in.byte();
   o[ 3 ] = in.line();
   o[ 4 ] = in.column();
   o[ 5 ] = vf::vcontrol< any >::match< apply_mode::nothing, rewind_mode::required, nothing, vf::vcontrol >( in );
   o[ 6 ] = in.byte();
}

// argv[ 1 ] = zero-terminated b
extern "C" __attribute__( ( noinline ) ) void w_argv_input( char* b, unsigned long* o )
{
   char* argv[ 2 ] = { nullptr, b };
   memory_input< tracking_mode::eager, eol::lf_crlf, const char* > ref( b, "" );
   argv_input< tracking_mode::eager, eol::lf_crlf > in( argv, 1, "" );
   o[ 0 ] = in.size( 0 );
   o[ 1 ] = ( in.begin() == b ) && ( in.end() == ref.end() );
   o[ 2 ] = in.byte();
   o[ 3 ] = in.line();
   o[ 4 ] = in.column();
   o[ 5 ] = vf::vcontrol< any >::match< apply_mode::nothing, rewind_mode::required, nothing, vf::vcontrol >( in );
   o[ 6 ] = in.byte();
}
