// wrapper TU (C19): at / begin_of_line / end_of_line / line_at under eol::crlf, eager and lazy
#include "c19_common.hpp"
C19_WRAP( crlf )
