// c08_cov.hpp — wrapper-side helpers for the C08 coverage check (nothing here lives in /repo).
//
// The code under test is the REAL  tao::pegtl::coverage< Rule, Action, Control >( in, result )  of contrib/coverage.hpp
// (internal::coverage_state, internal::coverage_insert, visit<>, state_control<>::type = rotate_states_right< control >).
// The wrapper only (a) catches what leaves the call, (b) flattens the coverage_result into arrays of unsigned long that the
// C harness understands.  Rule identities: the position of the rule type in the type_list handed to cov_tab<>; the harness
// generator spells that list (its structural model of the grammar), the library's own visit<> decides what is in the map —
// any disagreement is a failed check, not a silent pass.
//
// layout (shared with harness/c08_cov.h), n = number of listed rule types, 7 words per entry:
//    present, start, success, failure, unwind, raise, raise_nested
//    rl[ 7 * i ... ]                 entry of rule i
//    br[ 7 * ( i * n + j ) ... ]     branch entry of rule j inside the entry of rule i
//    meta[ 0 ] result.size()   meta[ 1 ] number of map entries (rule or branch, listed or not) with start != success + failure + unwind
//    meta[ 2 ] size of the name stack after the run (state mode; 0 in coverage mode where the stack is a local of coverage())
//    meta[ 3 + i ] branches.size() of rule i
#pragma once

#include "common.hpp"

#include <tao/pegtl/contrib/coverage.hpp>

namespace vf
{
   inline void cov_put( unsigned long* o, const coverage_info& i )
   {
      o[ 0 ] = 1;
      o[ 1 ] = i.start;
      o[ 2 ] = i.success;
      o[ 3 ] = i.failure;
      o[ 4 ] = i.unwind;
      o[ 5 ] = i.raise;
      o[ 6 ] = i.raise_nested;
   }

   inline void cov_zero( unsigned long* o )
   {
      for( int k = 0; k < 7; ++k ) {
         o[ k ] = 0;
      }
   }

   inline bool cov_balanced( const coverage_info& i )
   {
      return i.start == i.success + i.failure + i.unwind;
   }

   template< typename List >
   struct cov_tab;

   template< typename... Ts >
   struct cov_tab< type_list< Ts... > >
   {
      static constexpr std::size_t n = sizeof...( Ts );

      static void flatten( const coverage_result& r, unsigned long* rl, unsigned long* br, unsigned long* meta )
      {
         const std::string_view names[ n ] = { demangle< Ts >()... };
         meta[ 0 ] = r.size();
         unsigned long bad = 0;
         for( const auto& e : r ) {  // every entry of the real map, whether the harness knows its name or not
            if( !cov_balanced( e.second ) ) {
               ++bad;
            }
            for( const auto& b : e.second.branches ) {
               if( !cov_balanced( b.second ) ) {
                  ++bad;
               }
            }
         }
         meta[ 1 ] = bad;
         meta[ 2 ] = 0;
         for( std::size_t i = 0; i < n; ++i ) {
            const auto it = r.find( names[ i ] );
            if( it == r.end() ) {
               cov_zero( rl + 7 * i );
               meta[ 3 + i ] = 0;
               for( std::size_t j = 0; j < n; ++j ) {
                  cov_zero( br + 7 * ( i * n + j ) );
               }
               continue;
            }
            cov_put( rl + 7 * i, it->second );
            meta[ 3 + i ] = it->second.branches.size();
            for( std::size_t j = 0; j < n; ++j ) {
               const auto jt = it->second.branches.find( names[ j ] );
               if( jt == it->second.branches.end() ) {
                  cov_zero( br + 7 * ( i * n + j ) );
               }
               else {
                  cov_put( br + 7 * ( i * n + j ), jt->second );
               }
            }
         }
      }
   };

   inline void cov_out_init( unsigned long* out )
   {
      out[ 2 ] = 0;
      out[ 3 ] = 0;
      out[ 6 ] = 0;
      out[ 7 ] = 0;
   }

   // out[] as vf::run (common.hpp); out[ 0 ] == 9: something else left the call (std::out_of_range of std::map::at)
   // coverage mode: the real coverage<>() call
   template< typename G, typename List, template< typename... > class Action >
   inline void cov_run( const char* b, unsigned long n, unsigned long start, unsigned long* out, unsigned long* rl, unsigned long* br, unsigned long* meta )
   {
      eager_in in( b, b + n, "" );
      in.bump_in_this_line( start );
      coverage_result result;
      cov_out_init( out );
      try {
         out[ 0 ] = coverage< G, Action, vcontrol >( in, result );
      }
      catch( const verif_exc& e ) {
         out[ 0 ] = 2;
         out[ 2 ] = e.id;
         out[ 3 ] = e.byte;
         out[ 6 ] = e.line;
         out[ 7 ] = e.column;
      }
      catch( const foreign_exc& e ) {
         out[ 0 ] = 3;
         out[ 2 ] = e.id;
      }
      catch( ... ) {
         out[ 0 ] = 9;
      }
      out[ 1 ] = in.byte();
      out[ 4 ] = in.line();
      out[ 5 ] = in.column();
      cov_tab< List >::flatten( result, rl, br, meta );
   }

   // state mode: the three statements of coverage<>() spelled out, so that the coverage_state object (name stack) survives the run
   template< typename G, typename List, template< typename... > class Action >
   inline void cov_run_state( const char* b, unsigned long n, unsigned long start, unsigned long* out, unsigned long* rl, unsigned long* br, unsigned long* meta )
   {
      eager_in in( b, b + n, "" );
      in.bump_in_this_line( start );
      coverage_result result;
      internal::coverage_state state( result );
      cov_out_init( out );
      try {
         visit< G, internal::coverage_insert >( state.result );
         out[ 0 ] = parse< G, Action, state_control< vcontrol >::template type >( in, state );
      }
      catch( const verif_exc& e ) {
         out[ 0 ] = 2;
         out[ 2 ] = e.id;
         out[ 3 ] = e.byte;
         out[ 6 ] = e.line;
         out[ 7 ] = e.column;
      }
      catch( const foreign_exc& e ) {
         out[ 0 ] = 3;
         out[ 2 ] = e.id;
      }
      catch( ... ) {
         out[ 0 ] = 9;
      }
      out[ 1 ] = in.byte();
      out[ 4 ] = in.line();
      out[ 5 ] = in.column();
      cov_tab< List >::flatten( result, rl, br, meta );
      meta[ 2 ] = state.stack.size();
   }

}  // namespace vf

#define VF_COV_WRAP( name, fn, ... ) \
   extern "C" __attribute__( ( noinline ) ) void name( const char* b, unsigned long n, unsigned long s, unsigned long* o, unsigned long* rl, unsigned long* br, unsigned long* meta ) { vf::fn< __VA_ARGS__ >( b, n, s, o, rl, br, meta ); }
