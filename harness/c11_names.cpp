// C11 (c): the analysis keys its rule graph and its on-stack set by demangle< Rule >(); distinct rule types must get distinct keys
#include <tao/pegtl.hpp>
#include <tao/pegtl/demangle.hpp>
using namespace tao::pegtl;
template< typename T >
static void put( unsigned long* o )
{
   const std::string_view n = demangle< T >();
   o[ 0 ] = n.size();
   for( std::size_t i = 0; i < 160; ++i ) {
      o[ 1 + i ] = ( i < n.size() ) ? (unsigned char)n[ i ] : 0;
   }
}
// sibling instantiations that differ only behind a character that is special in __PRETTY_FUNCTION__ / template-id syntax
using T0 = one< ';' >;
using T1 = one< ';', 'a' >;
using T2 = until< one< ';' > >;
using T3 = until< one< ';' >, star< space > >;
using T4 = seq< one< '@' >, until< one< ';' > > >;
using T5 = seq< one< '@' >, until< one< ';' >, star< space > > >;
using T6 = one< '>' >;
using T7 = one< '>', 'x' >;
using T8 = one< ',' >;
using T9 = one< ',', ' ' >;
using T10 = one< ']' >;
using T11 = one< ']', '=' >;
using T12 = string< ';', ';' >;
using T13 = string< ';' >;
using T14 = one< '=' >;
using T15 = one< '=', ';' >;
extern "C" __attribute__( ( noinline ) ) void w_name( unsigned long i, unsigned long* o )
{
   switch( i ) {
      case 0: put< T0 >( o ); break;
      case 1: put< T1 >( o ); break;
      case 2: put< T2 >( o ); break;
      case 3: put< T3 >( o ); break;
      case 4: put< T4 >( o ); break;
      case 5: put< T5 >( o ); break;
      case 6: put< T6 >( o ); break;
      case 7: put< T7 >( o ); break;
      case 8: put< T8 >( o ); break;
      case 9: put< T9 >( o ); break;
      case 10: put< T10 >( o ); break;
      case 11: put< T11 >( o ); break;
      case 12: put< T12 >( o ); break;
      case 13: put< T13 >( o ); break;
      case 14: put< T14 >( o ); break;
      default: put< T15 >( o ); break;
   }
}
