/* leaf.h — rules running directly on symbolic bytes (exact-size heap buffer, no terminator). */
#ifndef LEAF_H
#define LEAF_H
static u64 lf_n, lf_start;
static u8 *lf_buf;
#ifndef LF_EOL
#define LF_EOL '\n'
#endif
#ifndef LF_LINECOL
#define LF_LINECOL 1 /* 0 or an expression: skip the line/column recount after a success (rules documented as not tracking line/column) */
#endif
static void lf_setup(u64 maxn) {
  lf_n = IN(0, maxn);
  lf_buf = (u8 *)exact_alloc_n(lf_n, maxn);
  for (u64 i = 0; i < maxn; ++i) { u8 v = IN_BYTE(); if (i < lf_n) lf_buf[i] = v; }
  lf_start = IN(0, lf_n);
}
static void lf_recount(u64 byte, u64 maxn, u64 *line, u64 *col) {
  /* vf::run() positions the cursor at lf_start with bump_in_this_line(): line 1, column 1 + lf_start */
  u64 l = 1, c = 1 + lf_start;
  for (u64 i = 0; i < maxn; ++i) {
    if (i >= byte) break;
    if (i < lf_start) continue;
    if (lf_buf[i] == LF_EOL) { l++; c = 1; } else c++;
  }
  *line = l; *col = c;
}
/* o: result block of vf::run; er expected result (0/1), epos expected cursor on success */
static void lf_check(u64 *o, int er, u64 epos, int required, u64 maxn) {
  CHECK(o[0] == (u64)er, "result equals the specification");
  CHECK(o[1] <= lf_n, "cursor never past the end of the input");
  if (er == 1) CHECK(o[1] == epos, "consumed exactly the specified bytes");
  if (er == 0 && required) CHECK(o[1] == lf_start, "local failure leaves the cursor where it was");
  if ((er == 1 && (LF_LINECOL)) || (er == 0 && required)) { u64 l, c; lf_recount(o[1], maxn, &l, &c); CHECK(o[4] == l && o[5] == c, "line/column equal a recount of the consumed prefix"); }
}
void x_verif_event(u32 kind, u32 rule, u64 a, u64 b) { (void)kind; (void)rule; (void)a; (void)b; }
u32 x_verif_sym(u32 k, u64 pos, u32 a, u32 m, u64 *np) { *np = pos; return 0; }
u32 x_verif_veto(u32 rule, u64 b, u64 e) { return 1; }
#endif
