/* C11 (c): demangle< Rule >() is an injective key on rule types whose printed names contain ';' ',' '>' ']' '=' */
#include "verif.h"
static void harness(void) {
  static u64 a[161], b[161];
  u64 i = IN(0, 15), j = IN(0, 15);
  ASSUME(i != j);
  w_name(i, a); w_name(j, b);
  int differ = (a[0] != b[0]);
  for (unsigned k = 0; k < 160; ++k) if (a[1 + k] != b[1 + k]) differ = 1;
  CHECK(a[0] > 0 && a[0] <= 160, "name fits the harness buffer");
  CHECK(differ, "two different rule types never share an analysis key (demangled name)");
  OBS(differ);   /* the names themselves differ between compilers (clang IR vs g++ build): only their distinctness is compared */
  REACH(i == 2 && j == 3, "the pair until< one<';'> > / until< one<';'>, star<space> >");
}
