/* c15_rules.h — the integer rules of contrib/integer.hpp on symbolic BYTES vs the documented numeral syntax and exact arithmetic.
 *
 * Parameters (set by the generated harness before including this file):
 *   NA            number of symbolic bytes (buffer length n is symbolic in [C15_MINN, NA], start offset symbolic in [0, n])
 *   C15_W(v)      name of the wrapper for variant v in {ar, ao, nr, no} (apply_mode action/nothing x rewind_mode required/optional)
 *   C15_SIGNED    1: an optional sign is part of the syntax
 *   C15_BITS      width of the state object handed to the rule
 *   C15_MAXPOS    largest magnitude accepted without sign or with '+',  C15_MAXNEG  largest magnitude accepted after '-'
 *   C15_OVF_A / C15_OVF_N   what a too large numeral does in apply_mode::action / ::nothing:
 *                 0 nothing (the rule does not look at the value), 1 local failure, 2 parse_error
 *   C15_CONV_A    1: in apply_mode::action the state receives the value
 *   C15_PREFIX    optional: concrete digit string placed at the front (after the sign position when C15_SIGNED): boundary
 *                 neighbourhoods of wide types; the start offset is 0 then;  C15_FIXN  optional: concrete buffer length
 *   C15_WIDE      1: numeral values need more than 64 bit in the specification (NA > 19)
 */
#ifndef C15_RULES_H
#define C15_RULES_H
#include "leaf.h"
#include "c15_models.h"

#if C15_WIDE
typedef unsigned __int128 c15_val;
#else
typedef u64 c15_val;
#endif
#ifndef C15_MINN
#define C15_MINN 0
#endif
#define C15_MASK (C15_BITS == 64 ? ~0ULL : ((1ULL << (C15_BITS % 64)) - 1))

/* Exact-size buffer of symbolic bytes.  Under CBMC and in replays the object has exactly n bytes, so reading byte n is a bounds
 * violation / ASan error.  Only in the differential (random) runs one readable non-digit pad byte follows, so that a scan running
 * over the end does not abort the whole differential run (CBMC and the replay still report it). */
static void c15_setup(void) {
#ifdef C15_FIXN
  lf_n = IN(C15_FIXN, C15_FIXN);
  lf_n = C15_FIXN;   /* a constant for the symbolic execution (boundary neighbourhoods run once per buffer length) */
#else
  lf_n = IN(C15_MINN, NA);
#endif
  u64 slack = 0;
#if defined(VF_NATIVE)
  slack = (vf_mode == 0);
#endif
  lf_buf = (u8 *)exact_alloc(lf_n + slack);
  for (u64 i = 0; i < NA; ++i) { u8 v = IN_BYTE(); if (i < lf_n) lf_buf[i] = v; }
  u8 pad = IN_BYTE();
  if (pad >= '0' && pad <= '9') pad = 'x';   /* a digit would make a scan that runs over the end run on past the pad byte as well */
  if (slack) lf_buf[lf_n] = pad;
  lf_start = IN(0, lf_n);
#ifdef C15_PREFIX
  { static const char pre[] = C15_PREFIX;
    for (u64 i = 0; i + 1 < sizeof(pre); ++i) if (C15_SIGNED + i < lf_n) lf_buf[C15_SIGNED + i] = (u8)pre[i];
    lf_start = 0; }
#endif
}

static int c15_isdig(u8 c) { return c >= '0' && c <= '9'; }

/* The documented syntax (integer.hpp: unsigned_rule_new / signed_rule_new, "does not allow leading zeros"):
 *     unsigned :=  '0' !digit  |  digit+          signed := [-+]? unsigned
 * -> 1 and *end, *mag (exact magnitude), *neg when the bytes at the start offset begin with a numeral; *hit: probe equals 0 or
 * the exact value (<= C15_MAXPOS) of a proper or improper prefix of the digit string. */
static int c15_spec(u64 *end, c15_val *mag, int *neg, u64 probe, int *hit) {
  u64 p = lf_start;
  *neg = 0; *mag = 0; *end = p; *hit = (probe == 0);
#if C15_SIGNED
  if (p < lf_n && (lf_buf[p] == '-' || lf_buf[p] == '+')) { *neg = (lf_buf[p] == '-'); p++; }
#endif
  if (!(p < lf_n && c15_isdig(lf_buf[p]))) return 0;
  if (lf_buf[p] == '0') {
    p++;
    if (p < lf_n && c15_isdig(lf_buf[p])) return 0;   /* superfluous leading zero */
    *end = p;
    return 1;
  }
  c15_val v = 0;
  for (u64 i = 0; i < NA; ++i) {
    if (!(p < lf_n && c15_isdig(lf_buf[p]))) break;
    v = v * 10 + (c15_val)(lf_buf[p] - '0');   /* < 10^NA: no wrap in c15_val */
    if (v <= (c15_val)C15_MAXPOS && (u64)v == probe) *hit = 1;
    p++;
  }
  *end = p; *mag = v;
  return 1;
}

static int c15_er, c15_neg, c15_over;
static u64 c15_end;

/* o: result block of c15::run_st */
static void c15_check(u64 *o, int act, int required, u64 st0) {
  c15_val mag; int hit;
  int syn = c15_spec(&c15_end, &mag, &c15_neg, o[8], &hit);
  int ovf = act ? C15_OVF_A : C15_OVF_N;
  c15_over = syn && ovf != 0 && (c15_neg ? mag > (c15_val)C15_MAXNEG : mag > (c15_val)C15_MAXPOS);
  c15_er = !syn ? 0 : !c15_over ? 1 : ovf == 1 ? 0 : 2;
  CHECK(o[0] == (u64)c15_er, "result: success iff a documented numeral in range starts here; overflow reported as specified");
  CHECK(o[0] != 1 || !c15_over, "a numeral beyond the maximum is never accepted");
  CHECK(o[1] <= lf_n, "cursor never past the end of the input");
  if (c15_er == 1) CHECK(o[1] == c15_end, "consumed exactly the numeral (sign and all digits)");
  if (c15_er == 0 && required) CHECK(o[1] == lf_start, "local failure leaves the cursor where it was");
  if (c15_er == 1 || (c15_er == 0 && required)) { u64 l, c; lf_recount(o[1], NA, &l, &c); CHECK(o[4] == l && o[5] == c, "line/column equal a recount of the consumed prefix"); }
  if (act && C15_CONV_A) {
    u64 want = (c15_neg ? 0 - (u64)mag : (u64)mag) & C15_MASK;
    if (o[0] == 1) CHECK(!c15_over && o[8] == want, "stored value is the mathematically exact value of the numeral");
    if (o[0] == 2) CHECK(hit || o[8] == st0, "after a reported overflow the state holds its old value, 0 or the exact value of a prefix, never a wrapped value");
  } else {
    CHECK(o[8] == st0, "state untouched when no conversion is requested");
  }
  OBS(o[0]); OBS(o[1]); OBS(o[8]);
}

static void harness(void) {
  c15_setup();
  u64 st0 = IN(0, C15_MASK);
  u64 o[9];
#if V_ar
  C15_W(ar)(lf_buf, lf_n, lf_start, st0, o); c15_check(o, 1, 1, st0);
#endif
#if V_ao
  C15_W(ao)(lf_buf, lf_n, lf_start, st0, o); c15_check(o, 1, 0, st0);
#endif
#if V_nr
  C15_W(nr)(lf_buf, lf_n, lf_start, st0, o); c15_check(o, 0, 1, st0);
#endif
#if V_no
  C15_W(no)(lf_buf, lf_n, lf_start, st0, o); c15_check(o, 0, 0, st0);
#endif
  /* witnesses refer to the last variant run */
  REACH(c15_er == 1, "numeral accepted");
#if C15_REACH_FAIL
  REACH(c15_er == 0 && !c15_over, "no numeral: local failure");
#endif
  REACH(c15_er == 1 && c15_end - lf_start >= C15_REACH_LEN, "long numeral accepted");
  REACH(c15_er == 1 && c15_end < lf_n, "numeral followed by a trailing byte");
#if C15_REACH_EOF
  REACH(c15_er == 1 && c15_end == lf_n, "numeral at the end of the input");
#endif
#if C15_SIGNED
  REACH(c15_er == 1 && c15_neg, "negative numeral accepted");
#endif
#if C15_REACH_OVF
  REACH(c15_over, "numeral beyond the maximum");
#endif
#if C15_REACH_EXC
  REACH(o[0] == 2, "parse_error caught by the wrapper");
#endif
}
#endif
