/* C11 (a): frame contract of analyze_cycles_impl::work() (CBMC) / whole-run family against a reference (native builds) */
#include "verif.h"
void x_verif_capacity_exceeded(void) { CHECK(0, "stub container capacity exceeded (harness bound)"); }
void x___assert_fail(u8 *a, u8 *b, u32 c, u8 *d) { CHECK(0, "library assert() failed"); }
#ifndef VF_REAL
/* iostream code of the verbose warning path (m_verbose >= 0), never reached with verbose = -1: reaching it is reported */
u8 g___dso_handle;
S_class_std__basic_ostream g__ZSt4cerr;
void x__ZNSt8ios_base4InitC1Ev(PS_class_std__ios_base__Init a) {}
void x__ZNSt8ios_base4InitD1Ev(PS_class_std__ios_base__Init a) {}
u32 x___cxa_atexit(vptr a, Pu8 b, Pu8 c) { return 0; }
PS_class_std__basic_ostream x__ZSt16__ostream_insertIcSt11char_traitsIcEERSt13basic_ostreamIT_T0_ES6_PKS3_l(PS_class_std__basic_ostream o, Pu8 s, u64 n) { CHECK(0, "verbose output reached"); return o; }
PS_class_std__basic_ostream x__ZNSo3putEc(PS_class_std__basic_ostream o, u8 c) { CHECK(0, "verbose output reached"); return o; }
PS_class_std__basic_ostream x__ZNSo5flushEv(PS_class_std__basic_ostream o) { CHECK(0, "verbose output reached"); return o; }
void x__ZSt16__throw_bad_castv(void) { CHECK(0, "verbose output reached"); }
void x__ZNKSt5ctypeIcE13_M_widen_initEv(PS_class_std__ctype c) { CHECK(0, "verbose output reached"); }
#endif
static int ncalls, call_id[8], call_accum[8];
static u8 R[4], BE[4];
#ifdef __CPROVER__
/* the cut recursive call: logs which sub-rule is explored with which accumulated-consumption flag, returns a symbolic verdict */
u1 x_cut_recursion(void *self, void *entry, u1 accum) {
  const char *name = *(const char **)((char *)entry + 8);   /* pair< const string_view, analyze_entry >: string_view { len, ptr } */
  int id = name[0] - 'A';
  if (ncalls < 8) { call_id[ncalls] = id; call_accum[ncalls] = accum; }
  ncalls++;
  return R[id & 3];
}
#endif
#ifndef TYPE
#define TYPE 3
#endif
static void harness(void) {
  int type = TYPE;                                  /* analyze_type: 0 any, 1 opt, 2 seq, 3 sor (one query per type) */
  int m = (int)IN(0, 3);
  u32 subs[3]; for (int k = 0; k < 3; ++k) subs[k] = (u32)IN(1, 3);
  for (int i = 0; i < 4; ++i) { R[i] = (u8)IN(0, 1); BE[i] = (u8)IN(0, 1); }
  int accum = (int)IN(0, 1), onstack = (int)IN(0, 1);
  /* which sub-rules can be entered at the position where this frame starts, and does the frame always consume? (reference) */
  int reach[3], stop = 0, all = 1, some = 0;
  for (int k = 0; k < 3; ++k) { reach[k] = (k < m) && (type == 3 || !stop); if (k < m) { if (R[subs[k]]) { stop = 1; some = 1; } else all = 0; } }
  int consumes = type == 0 ? 1 : type == 1 ? 0 : type == 2 ? some : (all && 1);
#ifdef __CPROVER__
  u64 problems = 77;
  ncalls = 0;
  int r = (int)w_frame(type, m, subs, accum, onstack, &problems) & 1;
  if (onstack) {
    /* re-entry of a rule that is on the exploration stack */
    if (!accum) CHECK(problems >= 1, "re-entering a rule without consumption since its first entry is counted as a problem");
    CHECK(!r || accum, "a re-entered rule is not reported as consuming unless consumption was accumulated");
  } else {
    int pos = 0;
    for (int k = 0; k < 3; ++k) {
      /* find the call that explores sub k (calls are made in order) */
      if (reach[k] && BE[subs[k]]) {
        int found = 0;
        for (int c = 0; c < 8; ++c) if (c < ncalls && c >= pos && !found && call_id[c] == (int)subs[k]) { found = 1; pos = c + 1;
          CHECK(!call_accum[c] || accum, "a sub-rule entered at the start position is explored without claiming consumption that did not happen"); }
        CHECK(found, "every sub-rule that can be entered at the position where the rule starts is explored (sor: every alternative)");
      }
    }
    CHECK(!r || consumes, "the rule is reported as always-consuming only if it is (any; seq with a consuming sub; sor with all alternatives consuming)");
  }
  REACH(!onstack && m == 3 && ncalls == 3, "three sub-rules explored");
  REACH(onstack && !accum, "re-entry without progress");
#if TYPE != 3
  REACH(!onstack && m >= 2 && ncalls == 1, "exploration stops after a consuming sub-rule");
#else
  REACH(!onstack && m == 2 && ncalls == 2 && !R[subs[0]], "second alternative explored after a non-consuming first one");
#endif
#else
  /* native builds (translated without the cut / real): a whole problems() run on the abstract grammar
   *    P := seq< N, T >, T := opt< P >, N := type< children >, child_i := consumes_i x backedge_i (see c11_frame.cpp)
   * must report a problem whenever the grammar has a cycle without progress */
  (void)accum; (void)onstack;
  int cons[4], be[4]; for (int i = 0; i < 4; ++i) { cons[i] = R[i]; be[i] = BE[i]; }
  /* (A) N alone: a child that can be entered at N's start position and leads back to N is a cycle without progress */
  u64 pa = w_whole(type, m, subs, (u32 *)cons, (u32 *)be, 0);
  int cyc_a = 0;
  for (int k = 0; k < 3; ++k) if (reach[k] && BE[subs[k]]) cyc_a = 1;
  OBS(pa > 0);
  if (cyc_a) CHECK(pa > 0, "a grammar with a cycle without progress is reported with at least one problem (rule alone)");
  /* (B) N inside P := seq< N, opt< P > >: additionally a cycle whenever N may succeed without consuming */
  u64 pb = w_whole(type, m, subs, (u32 *)cons, (u32 *)be, 1);
  OBS(pb > 0);
  if (cyc_a || !consumes) CHECK(pb > 0, "a grammar with a cycle without progress is reported with at least one problem (rule in a repetition)");
#endif
}
