// c15_common.hpp — wrapper-side helpers for C15 (contrib/integer.hpp); nothing here lives in /repo.
#pragma once

#include "common.hpp"

#include <string_view>
#include <type_traits>

#include <tao/pegtl/contrib/integer.hpp>

// The overflow paths of integer.hpp are  throw parse_error( "...", in ) : the constructor formats the position with an
// std::ostringstream, which is outside what ll2c/CBMC can encode.  For the IR build (clang) only, the two constructor
// instantiations that integer.hpp uses are declared as explicit specialisations without a definition, so the IR calls an
// external symbol that the harness models as "an overflow was reported" (harness/c15_models.h).  Everything around it
// (exception allocation, std::string temporary, __cxa_throw, unwinding through the rules, the catch clause) stays real IR.
// The g++/ASan build used for translation validation and replay sees no such declaration and runs the real constructor.
#ifdef __clang__
namespace tao::pegtl
{
   template<>
   template<>
   parse_error_template< position >::parse_error_template( const std::string&, const vf::eager_in& );
   template<>
   template<>
   parse_error_template< position >::parse_error_template( const std::string&, const internal::action_input< vf::eager_in >& );
}  // namespace tao::pegtl
#endif

namespace c15
{
   using namespace tao::pegtl;

   template< typename T >
   [[nodiscard]] constexpr unsigned long raw( const T v ) noexcept
   {
      return static_cast< unsigned long >( static_cast< std::make_unsigned_t< T > >( v ) );  // bits of v, zero-extended
   }

   // a plain rule Target with one of the documented actions attached to it (every other rule: nothing<>)
   template< typename Act, typename Target >
   struct bind
   {
      template< typename Rule >
      struct on : std::conditional_t< std::is_same_v< Rule, Target >, Act, nothing< Rule > >
      {};
   };

   // out[0] 0 local failure, 1 success, 2 parse_error thrown; out[1] byte after; out[4] line, out[5] column after;
   // out[8] bits of the state after the call (zero-extended)
   template< typename Rule, apply_mode A, rewind_mode M, template< typename... > class Action, typename State >
   inline void run_st( const char* b, unsigned long n, unsigned long start, unsigned long st0, unsigned long* out )
   {
      vf::eager_in in( b, b + n, "" );
      in.bump_in_this_line( start );
      State st = static_cast< State >( st0 );
      try {
         out[ 0 ] = normal< Rule >::template match< A, M, Action, normal >( in, st );
      }
      catch( const parse_error& ) {
         out[ 0 ] = 2;
      }
      out[ 1 ] = in.byte();
      out[ 4 ] = in.line();
      out[ 5 ] = in.column();
      out[ 8 ] = raw( st );
   }

   // the same without any state (rules used as plain grammar rules)
   template< typename Rule, apply_mode A, rewind_mode M >
   inline void run_nost( const char* b, unsigned long n, unsigned long start, unsigned long st0, unsigned long* out )
   {
      vf::eager_in in( b, b + n, "" );
      in.bump_in_this_line( start );
      try {
         out[ 0 ] = normal< Rule >::template match< A, M, nothing, normal >( in );
      }
      catch( const parse_error& ) {
         out[ 0 ] = 2;
      }
      out[ 1 ] = in.byte();
      out[ 4 ] = in.line();
      out[ 5 ] = in.column();
      out[ 8 ] = st0;
   }

}  // namespace c15

#define C15_EXPORT extern "C" __attribute__( ( noinline ) )
