// wrapper TU (C19): the helpers asked about the position at which a REAL parsing run stopped, on the very input object of that run
// (error reporting in a catch handler). The run: a grammar with a byte-window limiter (limit_bytes< 2 >, which lowers the input's
// end while its rule runs), a predicate, a rewinding choice and a must<> that raises (vcontrol: POD exception), one step started after j bytes.
//   o[0..8] as in c19_common.hpp, o[9] outcome (0 failure, 1 success, 2 global failure),
//   o[10] offset of the cursor in the data when the position was taken (the harness derives the expected line from it)
#include "c19_common.hpp"
#include <tao/pegtl/contrib/limit_bytes.hpp>

namespace c19
{
   struct word : plus< one< 'a' > > {};
   struct guarded : seq< word, must< one< 'b' > > > {};                    // raises inside the window when no 'b' follows
   struct grammar : sor< seq< at< one< 'a' > >, guarded, opt< eol > >, eol > {};   // one step: the run starts after j bytes

   // where the global failure was raised: position() of the input at that moment (what a parse_error carries) and the true offset of the cursor
   inline unsigned long g_byte, g_line, g_column;
   inline const char* g_cur;

   template< typename Rule >
   struct pcontrol
      : normal< Rule >
   {
      template< typename ParseInput, typename... States >
      [[noreturn]] static void raise( const ParseInput& in, States&&... /*unused*/ )
      {
         const auto p = in.position();
         g_byte = p.byte;
         g_line = p.line;
         g_column = p.column;
         g_cur = in.current();
         throw vf::verif_exc{ vf::rid< Rule >::value, p.byte, p.line, p.column };
      }
   };

   template< typename Rule > struct act : nothing< Rule > {};
   template<> struct act< guarded > : limit_bytes< 2 > {};

   template< tracking_mode P, typename Eol >
   inline void after1( const char* b, unsigned long n, unsigned long j, unsigned long ib, unsigned long il, unsigned long ic, unsigned long* o, unsigned long* x )
   {
      memory_input< P, Eol, const char* > in( b, b + n, "", ib, il, ic );
      in.bump( j );
      x[ 0 ] = 0;
      try {
         x[ 0 ] = normal< grammar >::template match< apply_mode::action, rewind_mode::optional, act, pcontrol >( in );
      }
      catch( const vf::verif_exc& ) {
         x[ 0 ] = 2;
      }
      // after success / local failure: where the input stands; after a global failure: the position the exception carries (the rewind
      // guards have moved the cursor back while the exception passed, so the input stands in front of it)
      auto p = in.position();
      x[ 1 ] = (unsigned long)( in.current() - b );
      if( x[ 0 ] == 2 ) {
         p.byte = g_byte;
         p.line = g_line;
         p.column = g_column;
         x[ 1 ] = (unsigned long)( g_cur - b );
      }
      o[ 0 ] = p.byte;
      o[ 1 ] = p.line;
      o[ 2 ] = p.column;
      o[ 3 ] = off( in.at( p ), b );
      o[ 4 ] = off( in.begin_of_line( p ), b );
      o[ 5 ] = o[ 6 ] = o[ 7 ] = o[ 8 ] = 0;
      if( o[ 3 ] <= n ) {
         o[ 5 ] = off( in.end_of_line( p ), b );
         const auto sv = in.line_at( p );
         o[ 6 ] = off( sv.data(), b );
         o[ 7 ] = sv.size();
         o[ 8 ] = 1;
      }
   }
}  // namespace c19

#define C19_AFTER_WRAP( mode ) \
   extern "C" __attribute__( ( noinline ) ) void w_c19_after_##mode( const char* b, unsigned long n, unsigned long j, unsigned long ib, unsigned long il, unsigned long ic, unsigned long* o ) \
   { c19::after1< tao::pegtl::tracking_mode::mode, tao::pegtl::eol::lf >( b, n, j, ib, il, ic, o, o + 9 ); }
C19_AFTER_WRAP( eager )
C19_AFTER_WRAP( lazy )
