/* C01: recursive and mutually recursive named rules vs the PEG semantics (recursive reference) */
#ifndef SP_N
#define SP_N 3
#endif
#define SP_K 3
#define SP_MAXRES 3
#include "verif.h"
#include "symtab.h"
#include "symcheck.h"
/* the reference is recursive like the grammar; recursion is bounded because sym<0> must make progress (assumed below) */
static out_t specR(u64 p) {
  u64 far = p;
  out_t a = sp_sym(0, p); if (a.far > far) far = a.far;
  if (a.r >= 2) return a;
  if (a.r == 1) {
    out_t b = specR(a.pos); if (b.far > far) far = b.far;
    if (b.r >= 2) return b;
    if (b.r == 1) { out_t c = sp_sym(1, b.pos); if (c.far > far) far = c.far; if (c.r >= 2) return c; if (c.r == 1) { c.far = far; return c; } }
  }
  out_t e = sp_sym(2, p); if (e.far > far) far = e.far;
  if (e.r == 0) return sp_fail(p, far);
  if (e.r == 1) e.far = far;
  return e;
}
static out_t specA(u64 p);
static out_t specB(u64 p) {
  u64 q = p, far = p;
  out_t o = sp_sym(1, p); if (o.far > far) far = o.far;
  if (o.r >= 2) return o;
  if (o.r == 1) q = o.pos;
  out_t a = specA(q); if (a.far > far) far = a.far;
  if (a.r >= 2) return a;
  if (a.r == 0) return sp_fail(p, far);
  a.far = far; return a;
}
static out_t specA(u64 p) {
  u64 far = p;
  out_t a = sp_sym(0, p); if (a.far > far) far = a.far;
  if (a.r >= 2) return a;
  if (a.r == 1) { out_t b = specB(a.pos); if (b.far > far) far = b.far; if (b.r >= 2) return b; if (b.r == 1) { b.far = far; return b; } }
  out_t e = sp_sym(2, p); if (e.far > far) far = e.far;
  if (e.r == 0) return sp_fail(p, far);
  if (e.r == 1) e.far = far;
  return e;
}
#ifdef MUTUAL
#define SPEC specA
#define W(v) w_A_##v
#else
#define SPEC specR
#define W(v) w_R_##v
#endif
static void harness(void) {
  sp_setup();
  for (u64 p = 0; p <= SP_N; ++p) ASSUME(T_res[0][p] != 1 || T_np[0][p] > p);   /* the recursive alternative consumes before it recurses (no left recursion: C11) */
  out_t e = SPEC(sp_start);
  u64 o[8];
#if !defined(VF_SPLIT) || defined(V_a)
  W(ar)(sp_buf, sp_n, sp_start, o); check_variant("", o, e, 1);
  W(ao)(sp_buf, sp_n, sp_start, o); check_variant("", o, e, 0);
#endif
#if !defined(VF_SPLIT) || defined(V_n)
  W(nr)(sp_buf, sp_n, sp_start, o); check_variant("", o, e, 1);
  W(no)(sp_buf, sp_n, sp_start, o); check_variant("", o, e, 0);
#endif
#if !defined(VF_SPLIT) || defined(V_p)
  W(pr)(sp_buf, sp_n, sp_start, o); check_variant("", o, e, 1);
  W(po)(sp_buf, sp_n, sp_start, o); check_variant("", o, e, 0);
  W(qr)(sp_buf, sp_n, sp_start, o); check_variant("", o, e, 1);
  W(xr)(sp_buf, sp_n, sp_start, o); check_variant("", o, e, 1);
  W(xo)(sp_buf, sp_n, sp_start, o); check_variant("", o, e, 0);
#endif
  ASSUME(!sp_exhausted);
  OBS(e.r); OBS(e.pos);
  REACH(e.r == 1 && e.pos == sp_start + 3, "nested match of three sub-rules");
  REACH(e.r == 0, "local failure");
  REACH(e.r == 2, "exception from the nested level");
}
