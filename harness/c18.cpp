// C18: depth and byte limits (both are attached through the action class of a rule)
#include "common.hpp"
#include <cstddef>
// the one-step harness (w_depth_step) puts the real input_with_depth into an arbitrary pre-state (any number of levels already entered)
#define private public
#include <tao/pegtl/contrib/input_with_depth.hpp>
#undef private
#include <tao/pegtl/contrib/limit_depth.hpp>
#include <tao/pegtl/contrib/limit_bytes.hpp>
#include <tao/pegtl/contrib/check_bytes.hpp>
using namespace tao::pegtl;

#ifndef LIM
#define LIM 2
#endif

extern "C" int verif_dsym( int k, unsigned long pos, unsigned long end, unsigned long depth, int m, unsigned long* np );

template< typename Input, typename = void >
struct depth_of
{
   static unsigned long get( const Input& /*unused*/ ) { return 0; }
};
template< typename Input >
struct depth_of< Input, std::void_t< decltype( std::declval< const Input& >().current_depth() ) > >
{
   static unsigned long get( const Input& in ) { return in.current_depth(); }
};

// symbolic sub-rule that reports the nesting depth and the end of the input it can see
template< int K >
struct dsym
{
   using rule_t = dsym;
   using subs_t = empty_list;

   template< apply_mode A, rewind_mode M, template< typename... > class Action, template< typename... > class Control, typename ParseInput, typename... States >
   [[nodiscard]] static bool match( ParseInput& in, States&&... /*unused*/ )
   {
      unsigned long np = 0;
      const unsigned long pos = in.byte();
      const int r = verif_dsym( K, pos, pos + in.size( 0 ), depth_of< ParseInput >::get( in ), int( M ), &np );
      in.bump_in_this_line( np - pos );
      if( r == 2 ) {
         throw vf::verif_exc{ 1000 + K, in.byte(), 0, 0 };
      }
      if( r == 3 ) {
         throw vf::foreign_exc{ 2000 + K };
      }
      return r == 1;
   }
};

namespace vf
{
   template<> struct rid< limit_depth< LIM > > { static constexpr int value = 700; };
   template<> struct rid< limit_bytes< LIM > > { static constexpr int value = 701; };
}  // namespace vf

// ---- depth: R := ( d0 R d2 ) / d1 , every attempt of R is one guarded level
struct R : sor< seq< dsym< 0 >, R, dsym< 2 > >, dsym< 1 > > {};
template< typename Rule > struct dact : nothing< Rule > {};
template<> struct dact< R > : limit_depth< LIM > {};

using depth_in = input_with_depth< vf::eager_in >;

template< apply_mode A, rewind_mode M >
static void run_depth( const char* b, unsigned long n, unsigned long s, unsigned long* o )
{
   depth_in in( b, b + n, "" );
   in.bump_in_this_line( s );
   o[ 2 ] = 0; o[ 3 ] = 0;
   try {
      o[ 0 ] = vf::vcontrol< R >::match< A, M, dact, vf::vcontrol >( in );
   }
   catch( const vf::verif_exc& e ) { o[ 0 ] = 2; o[ 2 ] = e.id; o[ 3 ] = e.byte; }
   catch( const vf::foreign_exc& e ) { o[ 0 ] = 3; o[ 2 ] = e.id; }
   o[ 1 ] = in.byte();
   o[ 4 ] = in.current_depth();
}

extern "C" __attribute__( ( noinline ) ) void w_depth_ar( const char* b, unsigned long n, unsigned long s, unsigned long* o ) { run_depth< apply_mode::action, rewind_mode::required >( b, n, s, o ); }
extern "C" __attribute__( ( noinline ) ) void w_depth_ao( const char* b, unsigned long n, unsigned long s, unsigned long* o ) { run_depth< apply_mode::action, rewind_mode::optional >( b, n, s, o ); }
extern "C" __attribute__( ( noinline ) ) void w_depth_nr( const char* b, unsigned long n, unsigned long s, unsigned long* o ) { run_depth< apply_mode::nothing, rewind_mode::required >( b, n, s, o ); }

// ---- bytes: G := d0 X d2 ,  X := d1   with limit_bytes< LIM > attached to X
struct X : seq< dsym< 1 > > {};
struct G : seq< dsym< 0 >, X, dsym< 2 > > {};
template< typename Rule > struct bact : nothing< Rule > {};
template<> struct bact< X > : limit_bytes< LIM > {};

template< apply_mode A, rewind_mode M >
static void run_bytes( const char* b, unsigned long n, unsigned long s, unsigned long* o )
{
   vf::eager_in in( b, b + n, "" );
   in.bump_in_this_line( s );
   o[ 2 ] = 0; o[ 3 ] = 0;
   try {
      o[ 0 ] = vf::vcontrol< G >::match< A, M, bact, vf::vcontrol >( in );
   }
   catch( const vf::verif_exc& e ) { o[ 0 ] = 2; o[ 2 ] = e.id; o[ 3 ] = e.byte; }
   catch( const vf::foreign_exc& e ) { o[ 0 ] = 3; o[ 2 ] = e.id; }
   o[ 1 ] = in.byte();
   o[ 4 ] = (unsigned long)( in.end() - in.begin() );
}

extern "C" __attribute__( ( noinline ) ) void w_bytes_ar( const char* b, unsigned long n, unsigned long s, unsigned long* o ) { run_bytes< apply_mode::action, rewind_mode::required >( b, n, s, o ); }
extern "C" __attribute__( ( noinline ) ) void w_bytes_ao( const char* b, unsigned long n, unsigned long s, unsigned long* o ) { run_bytes< apply_mode::action, rewind_mode::optional >( b, n, s, o ); }
extern "C" __attribute__( ( noinline ) ) void w_bytes_nr( const char* b, unsigned long n, unsigned long s, unsigned long* o ) { run_bytes< apply_mode::nothing, rewind_mode::required >( b, n, s, o ); }

// ---- one guarded step from an arbitrary depth: L := d1 under limit_depth< BIG >, entered with d0 levels already counted
#ifndef BIG
#define BIG 70000
#endif
namespace vf
{
   template<> struct rid< limit_depth< BIG > > { static constexpr int value = 702; };
}  // namespace vf
struct L : dsym< 1 > {};
template< typename Rule > struct sact : nothing< Rule > {};
template<> struct sact< L > : limit_depth< BIG > {};

extern "C" __attribute__( ( noinline ) ) void w_depth_step( const char* b, unsigned long n, unsigned long s, unsigned long d0, unsigned long* o )
{
   depth_in in( b, b + n, "" );
   in.bump_in_this_line( s );
   in.m_depth = static_cast< decltype( in.m_depth ) >( d0 );
   o[ 5 ] = in.current_depth();
   o[ 2 ] = 0; o[ 3 ] = 0;
   try {
      o[ 0 ] = vf::vcontrol< L >::match< apply_mode::action, rewind_mode::required, sact, vf::vcontrol >( in );
   }
   catch( const vf::verif_exc& e ) { o[ 0 ] = 2; o[ 2 ] = e.id; o[ 3 ] = e.byte; }
   catch( const vf::foreign_exc& e ) { o[ 0 ] = 3; o[ 2 ] = e.id; }
   o[ 1 ] = in.byte();
   o[ 4 ] = in.current_depth();
}
