// C17: contrib/unescape.hpp — wrapper TU (one group of wrappers per unit, selected with -DC17_<GROUP>)
//
// Every wrapper uses a REAL std::string as the sink (default-constructed or pre-filled with a short prefix) and copies
// its size and bytes out:   out[0] result (0 false / 1 true or void return / 2 parse_error thrown), out[1] size,
// out[2 + i] byte i (i < 16).
//
// The actions get a real internal::action_input over a real memory_input (the object the library hands to actions);
// w_j_parse additionally runs a tiny real grammar with unescape_j attached through parse<>().
#include "common.hpp"
#include <tao/pegtl/contrib/unescape.hpp>
#include <utility>

using namespace tao::pegtl;

using input_t = memory_input< tracking_mode::lazy, eol::lf_crlf, const char* >;
using ainput_t = internal::action_input< input_t >;

// throw parse_error( "...", in ): the constructor formats the position through std::ostringstream, which ll2c/CBMC cannot
// encode.  For the IR build (clang) only, the instantiation used by unescape.hpp is declared as an explicit specialisation
// without a definition, so the IR calls an external symbol that the harness models (harness/c17_models.h); allocation of the
// exception, the std::string temporary, __cxa_throw, unwinding and the catch clause stay real IR.  The g++/ASan build
// used for translation validation and replay sees no such declaration and runs the real constructor.
#ifdef __clang__
namespace tao::pegtl
{
   template<>
   template<>
   parse_error_template< position >::parse_error_template( const std::string&, const ainput_t& );
}  // namespace tao::pegtl
#endif

#define C17_EXPORT extern "C" __attribute__( ( noinline ) )

namespace c17
{
   // the sink string with its previous content.  Built with push_back (inline byte stores) rather than std::string( pre, npre ):
   // the latter is a memcpy of symbolic length into the string object, which CBMC's built-in memcpy model does not encode precisely
   inline void fill( std::string& s, const char* pre, unsigned long npre )
   {
#ifdef C17_RESERVE
      s.reserve( C17_RESERVE );  // heap buffer instead of the in-object short-string buffer (see props/C17.py)
#endif
      for( unsigned long i = 0; i < npre; ++i ) {
         s.push_back( pre[ i ] );
      }
   }

   // straight-line (no loop: every loop in the unit costs the solver its unwinding bound)
   template< std::size_t... Is >
   inline void copy_out_impl( const std::string& s, unsigned long* out, std::index_sequence< Is... > /*unused*/ )
   {
      const unsigned long n = s.size();
      const char* d = s.data();
      ( ( out[ 2 + Is ] = ( Is < n ) ? static_cast< unsigned char >( d[ Is ] ) : 0xffffUL ), ... );
   }

   template< std::size_t N = 16 >
   inline void copy_out( const std::string& s, unsigned long* out )
   {
      out[ 1 ] = s.size();
      copy_out_impl( s, out, std::make_index_sequence< N >() );
   }

   // Action::apply( action_input over bytes [b, b+n), s ) where s starts out as the prefix
   template< typename Action >
   inline void run_action( const char* b, unsigned long n, const char* pre, unsigned long npre, unsigned long* out )
   {
      std::string s;
      fill( s, pre, npre );
      input_t in( b, b + n, "" );
      const auto m = in.inputerator();
      in.bump_in_this_line( n );
      const ainput_t ai( m, in );
      try {
         if constexpr( std::is_same_v< decltype( Action::apply( ai, s ) ), void > ) {
            Action::apply( ai, s );
            out[ 0 ] = 1;
         }
         else {
            out[ 0 ] = Action::apply( ai, s ) ? 1 : 0;
         }
      }
      catch( const parse_error& ) {
         out[ 0 ] = 2;
      }
      copy_out( s, out );
   }
}  // namespace c17

#if defined( C17_ENC )
// utf8_append_utf32 on a string that already holds npre bytes
C17_EXPORT void w_append( unsigned long cp, const char* pre, unsigned long npre, unsigned long* out )
{
   std::string s;
   c17::fill( s, pre, npre );
   out[ 0 ] = unescape::utf8_append_utf32( s, static_cast< unsigned >( cp ) ) ? 1 : 0;
   c17::copy_out( s, out );
}
#endif

#if defined( C17_HEX )
// out[0] = bits of the result, zero-extended
C17_EXPORT void w_unhex_char_u( unsigned long c, unsigned long* out ) { out[ 0 ] = unescape::unhex_char< unsigned >( static_cast< char >( c ) ); }
C17_EXPORT void w_unhex_char_c( unsigned long c, unsigned long* out ) { out[ 0 ] = static_cast< unsigned char >( unescape::unhex_char< char >( static_cast< char >( c ) ) ); }
C17_EXPORT void w_unhex_char_uc( unsigned long c, unsigned long* out ) { out[ 0 ] = unescape::unhex_char< unsigned char >( static_cast< char >( c ) ); }
C17_EXPORT void w_unhex_char_ul( unsigned long c, unsigned long* out ) { out[ 0 ] = unescape::unhex_char< unsigned long >( static_cast< char >( c ) ); }
C17_EXPORT void w_unhex_string_c( const char* b, unsigned long n, unsigned long* out ) { out[ 0 ] = static_cast< unsigned char >( unescape::unhex_string< char >( b, b + n ) ); }
C17_EXPORT void w_unhex_string_uc( const char* b, unsigned long n, unsigned long* out ) { out[ 0 ] = unescape::unhex_string< unsigned char >( b, b + n ); }
C17_EXPORT void w_unhex_string_u( const char* b, unsigned long n, unsigned long* out ) { out[ 0 ] = unescape::unhex_string< unsigned >( b, b + n ); }
C17_EXPORT void w_unhex_string_ul( const char* b, unsigned long n, unsigned long* out ) { out[ 0 ] = unescape::unhex_string< unsigned long >( b, b + n ); }
#endif

#if defined( C17_ACT )
using json_c = unescape::unescape_c< one< '"', '\\', '/', 'b', 'f', 'n', 'r', 't' >, '"', '\\', '/', '\b', '\f', '\n', '\r', '\t' >;
// the set of src/example/pegtl/unescape.cpp
using ex_c = unescape::unescape_c< one< '\'', '"', '?', '\\', 'a', 'b', 'f', 'n', 'r', 't', 'v' >, '\'', '"', '?', '\\', '\a', '\b', '\f', '\n', '\r', '\t', '\v' >;
C17_EXPORT void w_c_json( const char* b, unsigned long n, const char* pre, unsigned long npre, unsigned long* out ) { c17::run_action< json_c >( b, n, pre, npre, out ); }
C17_EXPORT void w_c_ex( const char* b, unsigned long n, const char* pre, unsigned long npre, unsigned long* out ) { c17::run_action< ex_c >( b, n, pre, npre, out ); }
C17_EXPORT void w_x( const char* b, unsigned long n, const char* pre, unsigned long npre, unsigned long* out ) { c17::run_action< unescape::unescape_x >( b, n, pre, npre, out ); }
C17_EXPORT void w_all( const char* b, unsigned long n, const char* pre, unsigned long npre, unsigned long* out ) { c17::run_action< unescape::append_all >( b, n, pre, npre, out ); }
#endif

#if defined( C17_GROW )
// append_all beyond the short-string capacity: out[1] size, out[2 + i] byte i (i < 28)
C17_EXPORT void w_all_long( const char* b, unsigned long n, const char* pre, unsigned long npre, unsigned long* out )
{
   std::string s;
   c17::fill( s, pre, npre );
   input_t in( b, b + n, "" );
   const auto m = in.inputerator();
   in.bump_in_this_line( n );
   const ainput_t ai( m, in );
   unescape::append_all::apply( ai, s );
   out[ 0 ] = 1;
   c17::copy_out< 28 >( s, out );
}
#endif

#if defined( C17_U )
C17_EXPORT void w_u( const char* b, unsigned long n, const char* pre, unsigned long npre, unsigned long* out ) { c17::run_action< unescape::unescape_u >( b, n, pre, npre, out ); }
#endif

#if defined( C17_J )
C17_EXPORT void w_j( const char* b, unsigned long n, const char* pre, unsigned long npre, unsigned long* out ) { c17::run_action< unescape::unescape_j >( b, n, pre, npre, out ); }
#endif

#if defined( C17_JP )
// real use: the rule of contrib/json.hpp (unicode = list< seq< one<'u'>, rep<4, xdigit> >, one<'\\'> >) with unescape_j
// attached, run through parse<>() with the default control; the rule is preceded by the backslash and followed by eof
namespace c17
{
   struct unicode : list< seq< one< 'u' >, rep< 4, xdigit > >, one< '\\' > > {};
   struct grammar : seq< one< '\\' >, unicode, eof > {};
   template< typename Rule > struct action : nothing< Rule > {};
   template<> struct action< unicode > : unescape::unescape_j {};
}  // namespace c17

// out[0]: 0 parse returned false, 1 true, 2 parse_error
C17_EXPORT void w_j_parse( const char* b, unsigned long n, const char* pre, unsigned long npre, unsigned long* out )
{
   std::string s;
   c17::fill( s, pre, npre );
   input_t in( b, b + n, "" );
   try {
      out[ 0 ] = parse< c17::grammar, c17::action >( in, s ) ? 1 : 0;
   }
   catch( const parse_error& ) {
      out[ 0 ] = 2;
   }
   c17::copy_out( s, out );
}
#endif
