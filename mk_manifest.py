#!/usr/bin/env python3
"""Regenerates MANIFEST.json from the table below (kept next to the checks so that it stays in sync)."""
import json
import os

HERE = os.path.dirname(os.path.abspath(__file__))
ALL = ['C%02d' % i for i in range(1, 21)]

TRUST = ('Trusted: clang-14 -O1 IR as the semantics of the C++ source, the ll2c IR->C translator (validated on every run by differential '
         'execution of the same harness against the g++ build), CBMC 6.11 + SAT back end, the C models of external functions, the reference '
         'specification in the harness, and the written induction argument of DESIGN.md that lifts the per-rule contract to whole runs. '
         'Bounds (input length N, table sizes, unwinding K with unwinding assertions) are listed per query in the evidence file; nothing is claimed beyond them.')

CHECKS = {
    'C01': ('4.C01', 'Every classical operator (seq, sor, star, plus, opt, at, not_at, nestings) compiled from the real headers is proved equal to the PEG '
                     'reference semantics for all sub-rule behaviours (symbolic tables incl. consume-before-fail and exceptions), all start offsets and input lengths <= N, '
                     'for the 4 apply/rewind mode combinations and with void apply/apply0 actions attached; atoms are proved on symbolic bytes. '
                     'Bounded model checking is the right level: the operators are small loop/branch kernels whose interesting inputs are rare combinations of sub-rule behaviours.'),
    'C09': ('4.C09', 'Each convenience/contrib rule is proved equal (result, consumed prefix, exception identity and position range) to the PEG semantics of the '
                     'expansion that doc/Rule-Reference.md states for it, over all symbolic sub-rule behaviours within the bound; the oracle is parsed from the documentation at run time.'),
}

CHECKS['C04'] = ('4.C04', 'The complete sequence of action invocations (void and bool, apply and apply0, apply<>/apply0<>/if_apply<> pseudo rules) with their exact spans, interleaved with '
                 'the rule hooks, produced by the real match() machinery is proved equal to the reference protocol for named rules over symbolic sub-rules: an action fires iff its rule '
                 'just matched with actions enabled, with begin = cursor at entry and end = cursor now; none inside at/not_at/disable; veto turns the match into a local failure with the '
                 'cursor restored; eager and lazy inputs.')
CHECKS['C08'] = ('4.C08', 'The complete hook sequence start / apply / success / failure / unwind / raise of the real match() machinery is proved equal to the reference protocol (balanced, '
                 'truthful, properly nested) for grammars of named rules over symbolic sub-rules, for controls with and without unwind(), with none / void / bool vetoing or throwing actions, '
                 'including exceptions from must-rules, sub-rules and actions and their conversion by try_catch rules, sub-rules with the simple rule interface, and runs made during stack unwinding; '
                 'balance of whole runs follows by induction over frames. The real coverage<>() (coverage_state, visit<>, state_control<>::type) is run on 10-13 grammars: every rule and '
                 'branch entry satisfies start == success + failure + unwind in every outcome, every counter equals the reference event count, the name stack is empty afterwards.')

CHECKS['C05'] = ('4.C05', 'Rules of the must / raise / try_catch families (return_false and raise_nested, typed, any, std, default), nested in predicates, repetitions and choices, plus must_if<> '
                 'controls, are proved against the reference semantics over symbolic sub-rules that fail after consuming, raise or throw foreign exceptions: identity of the first blamed rule, '
                 'position within [start of attempt, furthest point], byte/line/column consistency, unchanged propagation, exact conversion with cursor restore. Second part: the real '
                 'normal<Rule>::raise / raise_nested, parse_error construction, what() == source:line:column: message, message(), position_object(), and the nested exceptions of '
                 'try_catch_*_raise_nested / parse_nested under the real control (stub <sstream>, C models of libstdc++ externals validated against the genuine library on every run).')

CHECKS['C13'] = ('4.C13', 'For grammars with the state<> rule and rules whose action class derives from change_state(s) / change_action / change_action_and_state / change_control / '
                 'enable_action / disable_action (plus action<> / control<> rules), the complete log of state construction, the state instance and action class every action sees, the control that sees '
                 'the hooks, success() (exactly once, iff matched [and actions enabled for the action-based variants], with the cursor after the match and the outer state) and destruction is proved '
                 'equal to the reference protocol over symbolic sub-rules, including failure, exceptions and the rules following the scope.')

CHECKS['C18'] = ('4.C18', 'The real limit_depth<N>/input_with_depth guard on a recursive rule and the real limit_bytes<N> guard on a rule starting at an arbitrary offset are proved, over symbolic '
                 'sub-rules that observe depth and visible input end and may fail, succeed or throw, to behave as the reference: depth = guarded levels entered, error exactly beyond N, window = '
                 'min(N, remaining) bytes from the start of the guarded match, counter and input end restored in every outcome; plus one guarded level of limit_depth<70000> entered from an arbitrary 64-bit counter value '
                 '(inductive step over the nesting depth).')
CHECKS['C02'] = ('4.C02', 'Rewind contract of every rule with its own match() (core, convenience, contrib incl. rematch/minus, try_catch, rep_one_min_max, predicates, http chunk matchers): local failure under '
                 'rewind_mode::required restores byte/line/column, look-ahead never moves the cursor, success never moves it backwards — over symbolic sub-rules that leave garbage on failure, without '
                 'actions and with void apply/apply0 actions attached (which shifts the rewinding responsibility into match()).')
CHECKS['C03'] = ('4.C03', 'Every input-dereferencing leaf (all peek families through their rules, string/istring/bytes, five eol policies, integer matchers, rep_one_min_max, predicates, scanning rules, '
                 'rematch sub-inputs) is run on an exact-size heap object of symbolic length where CBMC flags any access outside [begin,end), and as a window inside a larger object where bytes beyond '
                 'the logical end are proved not to influence result or consumption.')
CHECKS['C10'] = ('4.C10', 'Every single-unit rule instantiation (ASCII classes, one/range/ranges, string/istring, RFC 5234 core, UTF-8/16/32, uint8..64 both byte orders, masks) is proved on fully symbolic '
                 'bytes with symbolic length (all truncations) to match iff an independently written specification (documented byte sets, Unicode Table 3-7, surrogate arithmetic, shift/or) matches and to '
                 'consume exactly the specified length; complete over the data, template constants are a representative boundary set.')

CHECKS['C16'] = ('4.C16', 'The real raw_string (open, close test, until loop, content action) is proved equal to an independent Lua long-bracket scanner on fully symbolic bytes '
                 '(all lengths up to the bound, all start offsets): match iff opening bracket of level k followed by a closing bracket of level k, consumption through the first such close, content span '
                 'without one leading line ending, other levels ignored, failure without consumption; lazy and eager inputs, three eol policies, custom characters, content rules, and an input that grants only the look-ahead a rule requests (buffered-input contract).')

CHECKS['C06'] = ('4.C06', 'For 25 (quick) / 40 (thorough) byte-oriented and UTF-8 rules and small grammars under the five eol policies, on symbolic bytes with symbolic initial byte/line/column, the counters '
                 'of the eager input, lazy position(), the positions seen by control hooks, actions, raise and parse-tree nodes are proved equal to an independent recount of the consumed prefix and '
                 'eager == lazy. One recorded finding (D12, cr_crlf eol rule) is excluded by a narrow predicate and re-confirmed on every run.')
CHECKS['C11'] = ('4.C11', 'The real analyze_cycles_impl::work() (recursion cut, containers replaced by array-backed stand-ins) is proved to satisfy the frame contract from which soundness follows by '
                 'induction: every sub-rule enterable at the start position is explored without over-claiming consumption, re-entry without consumption is counted, the consumes-verdict is conservative; '
                 'counterexamples are replayed as whole analyze runs of the real code on an abstract grammar against a reference. (b) the analyze_traits tree of each rule family, dumped from the compiler on every run, is proved '
                 'conservative against the real rule over symbolic sub-rules: verdict always-consumes => real success consumes; every sub-rule really entered at the start position is a trait edge reachable without consumption; '
                 'a repetition that can spin is a reported self-edge.')
CHECKS['C15'] = ('4.C15', 'accumulate_digit is proved exact-or-overflow from every accumulator state for all 8 integer types and ~70 maxima (step lemma); the digit loops and convert_* kernels on symbolic digit '
                 'strings up to width+1 digits (8/16-bit exhaustive, 32/64-bit to 11/8 digits plus boundary neighbourhoods, -ftrapv for source-level overflow); all integer rules and actions on symbolic bytes '
                 'for syntax (no superfluous zeros, signs), consumption, rewind, stored value or reported overflow.')
CHECKS['C19'] = ('4.C19', 'at / begin_of_line / end_of_line / line_at of memory_input are compared on symbolic bytes (n <= 5/8), every position, five eol policies, eager and lazy, default and symbolic initial '
                 'counters, with an independent line splitter and numeric pointer-range checks. Two recorded findings (D11 initial counters, C19_EOL2 two-byte policies) are excluded by narrow predicates '
                 'and re-confirmed on every run.')

CHECKS['C17'] = ('4.C17', 'utf8_append_utf32 is proved over all 2^32 code points (true iff scalar value; appended bytes are the unique well-formed encoding per an independent Table 3-6/3-7 codec; nothing appended '
                 'otherwise; prefix preserved) on a real std::string sink with libstdc++ append modelled on the SSO layout; unhex_char/unhex_string for all digit strings up to the type width; unescape_c/x/u and '
                 'append_all; unescape_j for 1..3 (thorough 4) escapes with fully symbolic hex digits: throws iff a lone surrogate, else exact concatenation with pairs combined.')

CHECKS['C07'] = ('4.C07', 'buffer_input is verified per operation from an arbitrary valid state (reached by real require/bump/discard calls with symbolic arguments, Chunk 1/2/4, small maxima) with a symbolic '
                 'stream and a reader that returns every legal short-read pattern: representation invariant, require = overflow_error exactly when the request does not fit else enough data whatever the read sizes, '
                 'discard preserves window and counters, bump/rewind; 12 leaf rules give the same result/consumption/position/error on the buffer input as on a memory input over the rest of the stream, or '
                 'overflow_error; every multi-byte single-unit rule of C10 is proved against its specification over an input that grants only the look-ahead requested (size(n) = min(n, remaining), the buffered-input contract). '
                 'string_input/argv_input hand-off checked. File/mmap/stdio/iostream inputs are I/O and FFI: not applicable parts.')
CHECKS['C12'] = ('4.C12', 'The real parse_tree::parse (make_control state_handler start/success/failure/unwind, internal::state stack, basic_node spans, selectors and the transformers store/remove_content, '
                 'fold_one, discard_empty) is run on 16 grammars of named rules over symbolic sub-rules (backtracking, star, at/not_at, must, try_catch incl. an action that throws, a recursive rule, a subtree '
                 'beyond is_leaf<8>) and the returned tree is compared slot by slot with the reference derivation (tree iff plain parse succeeds; nodes = surviving successful matches of selected rules, spans, '
                 'order, nesting; nothing left over after backtracking or exceptions; builder stack back to the root).')
E2TRUST = ('Trusted: the hand transcription of the RFC ABNF (spec/*.abnf), the PEG combinator and atom semantics written in lib/peg2smt/pegenc.py (the same semantics the CBMC engine proves for the real '
           'combinators and atoms in C01/C09/C10/C15), z3 4.8/5.1 and cvc5 1.0 (cross-checked against each other for small n), the dumper that reads the grammar structure from the compiler '
           '(rule_t/subs_t of the real headers, regenerated on every run). Encoder validated on every run against the real compiled parser and an independent recogniser on corpus and solver-chosen strings.')
E2 = {
    'C14': ('4.C14', 'The PEG extracted from the real json.hpp (70 rules) and the RFC 8259 ABNF are proved to accept the same byte strings for every string up to N bytes (quick 11, thorough 14): one SMT query per '
                     'length, all bytes symbolic; never-throws is a structural fact (no raising rule in the extracted grammar).'),
    'C20': ('4.C20', 'The PEGs extracted from the real uri.hpp for URI, URI-reference, absolute-URI, IPv4address, IPv6address (and IP-literal) and the RFC 3986 ABNF are proved to accept the same byte strings up to N bytes '
                     '(quick 14/16/24, thorough 19-20/16/46-48; the IPv4/IPv6 bounds cover their whole languages); a raised must counts as rejection; only parse_error can be raised (structural).'),
}

NOT_YET = {}


def main():
    checks = []
    for pid in ALL:
        if pid not in CHECKS:
            continue
        ref, text = CHECKS[pid]
        checks.append({
            'property_id': pid,
            'quick_cmd': './check %s --tier quick' % pid,
            'thorough_cmd': './check %s --tier thorough' % pid,
            'evidence_file': 'evidence/%s.json' % pid,
            'replay_cmd_template': './check %s --replay {path}' % pid,
            'engine': 'll2c+cbmc',
            'level_claimed': {'category': 'model_checking', 'text': text, 'design_ref': 'DESIGN.md section ' + ref},
            'level_note': TRUST,
            'technique': 'bounded symbolic model checking of the real code: clang LLVM IR of the real templates -> own IR-to-C translator -> CBMC/SAT, symbolic inputs and symbolic sub-rule tables, counterexamples replayed on the g++ build',
        })
    for pid, (ref, text) in E2.items():
        checks.append({
            'property_id': pid, 'quick_cmd': './check %s --tier quick' % pid, 'thorough_cmd': './check %s --tier thorough' % pid,
            'evidence_file': 'evidence/%s.json' % pid, 'replay_cmd_template': './check %s --replay {path}' % pid, 'engine': 'peg2smt',
            'level_claimed': {'category': 'model_checking', 'text': text, 'design_ref': 'DESIGN.md section ' + ref}, 'level_note': E2TRUST,
            'technique': 'bounded symbolic language equivalence: grammar structure extracted from the compiler -> packrat encoding of the PEG and derivability encoding of the RFC ABNF over a symbolic byte string in z3/cvc5, witnesses replayed on the real parser',
        })
    checks.sort(key=lambda c: c['property_id'])
    na = []
    for pid in ALL:
        if pid not in CHECKS and pid not in E2:
            na.append({'property_id': pid, 'reason': NOT_YET.get(pid, 'check not built yet in this round (see DESIGN.md section 4 for the planned encoding)')})
    m = {
        'version': 1,
        'setup_cmd': 'true',
        'hooks': {
            'guard': 'TAO_PEGTL_VERIF',
            'enable': 'no source hooks are needed: wrapper TUs under /verif/harness instantiate the unmodified headers of /repo/include (the define -DTAO_PEGTL_VERIF is passed but no code in /repo tests it)',
            'baseline_off_cmd': '/verif/run_baseline.sh',
            'source_commits': [],
            'add_only': True,
        },
        'engines': [
            {'name': 'peg2smt', 'path': 'lib/peg2smt/driver.py', 'serves_properties': sorted(E2), 'kind_free_text': 'grammar extraction through rule_t/subs_t of the real headers + bounded packrat/derivability encoding in z3 and cvc5'},
            {'name': 'll2c+cbmc', 'path': 'lib/vf.py', 'serves_properties': sorted(CHECKS), 'kind_free_text': 'clang-14 LLVM IR of wrapper TUs instantiating the real templates -> lib/ll2c.py (IR->C, exceptions lowered) -> CBMC 6.11 with unwinding assertions; translation validated per run against the g++ build; counterexamples replayed on the real build under ASan/UBSan'},
        ],
        'checks': checks,
        'not_applicable': na,
        'notes': 'Exit codes of ./check: 0 held on everything explored, 1 violation (VIOLATION line, replay file under replays/), 2 inconclusive (timeout, vacuity guard, translation-validation mismatch) — never reported as held. Known/fixed findings: known_findings.json.',
    }
    with open(os.path.join(HERE, 'MANIFEST.json'), 'w') as f:
        json.dump(m, f, indent=1)
    print('MANIFEST.json: %d checks, %d not applicable' % (len(checks), len(na)))


if __name__ == '__main__':
    main()
