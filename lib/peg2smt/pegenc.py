"""PEG side: packrat results R_e(i) in {fail, raise, success at j} of the extracted grammar over a string of
concrete length n whose bytes are symbolic (Z3Alg) or concrete (ConcAlg).

The encoder is written once against a small algebra; Z3Alg yields z3 Bool terms, ConcAlg yields Python bools.
Both fold Python constants, so everything decided by the concrete length/positions is pruned at build time.

Semantics (PEGTL combinators as documented in doc/Rule-Reference.md; the CBMC engine E1 proves that the
real combinators implement the same specification over symbolic sub-rules, C01/C09):
  seq     thread positions; first failing/raising element decides
  sor     first alternative that does not fail (success or raise) decides
  opt     R or empty;  star: repeat R until it fails;  plus = R star<R>
  rep<n>  n times;  rep_opt<m>: up to m times, stops at the first failure
  rep_min_max<a,b>: a times mandatory, then up to b-a more, stops at first failure; after b matches a further
          match of R makes the rule fail (not_at<R>)
  until<C>: try C, else consume one byte, repeat (fail at end of input); until<C,R>: try C, else R (must
          succeed), repeat
  must<R> R or raise;  if_must<D,C,must<..>>: C then the musts (raise on failure); C failed: D
  if_then_else<C,T,E>;  at / not_at: lookahead, consume nothing, a raise inside propagates
A repetition whose body succeeds without consuming would not terminate -> EncodeError (inconclusive).
Re-entering (rule, position) during its own construction = left recursion -> EncodeError.
"""
import sys

sys.setrecursionlimit(20000)


class EncodeError(Exception):
    pass


# --------------------------------------------------------------------------- algebras
class _AlgBase:
    def and_(self, xs):
        r = []
        for x in xs:
            if x is False:
                return False
            if x is True:
                continue
            r.append(x)
        if not r:
            return True
        if len(r) == 1:
            return r[0]
        return self._and(r)

    def or_(self, xs):
        r = []
        for x in xs:
            if x is True:
                return True
            if x is False:
                continue
            r.append(x)
        if not r:
            return False
        if len(r) == 1:
            return r[0]
        return self._or(r)

    def not_(self, x):
        if x is True:
            return False
        if x is False:
            return True
        return self._not(x)


def _ranges_of(s):
    xs = sorted(s)
    out = []
    for c in xs:
        if out and out[-1][1] == c - 1:
            out[-1][1] = c
        else:
            out.append([c, c])
    return [tuple(r) for r in out]


class Z3Alg(_AlgBase):
    symbolic = True

    def __init__(self, z3, nbytes, prefix='s'):
        self.z3 = z3
        self.s = [z3.BitVec('%s%d' % (prefix, k), 8) for k in range(nbytes)]
        self._setmemo = {}
        self.nodes = 0

    def _and(self, r):
        self.nodes += 1
        return self.z3.And(*r)

    def _or(self, r):
        self.nodes += 1
        return self.z3.Or(*r)

    def _not(self, x):
        self.nodes += 1
        return self.z3.Not(x)

    def byte(self, k):
        return self.s[k]

    def byte_in_set(self, k, st):
        key = (k, st)
        if key in self._setmemo:
            return self._setmemo[key]
        z3 = self.z3
        b = self.s[k]
        if len(st) == 0:
            r = False
        elif len(st) == 256:
            r = True
        else:
            alts = []
            for lo, hi in _ranges_of(st):
                if lo == hi:
                    alts.append(b == lo)
                elif lo == 0:
                    alts.append(z3.ULE(b, hi))
                elif hi == 255:
                    alts.append(z3.UGE(b, lo))
                else:
                    alts.append(z3.And(z3.UGE(b, lo), z3.ULE(b, hi)))
            r = self.or_(alts)
        self._setmemo[key] = r
        return r

    def zext(self, b):
        return self.z3.ZeroExt(24, b)

    def side_constraints(self):
        return []

    def model_bytes(self, m, pick=None):
        return [m.eval(b, model_completion=True).as_long() for b in self.s]

    def block(self, m):
        z3 = self.z3
        if not self.s:
            return z3.BoolVal(False)
        return z3.Or(*[b != m.eval(b, model_completion=True) for b in self.s])

    def in_range_u(self, x, lo, hi):
        z3 = self.z3
        return z3.And(z3.UGE(x, lo), z3.ULE(x, hi))

    def eq(self, x, c):
        return x == c


class ConcAlg(_AlgBase):
    symbolic = False

    def __init__(self, data):
        self.data = bytes(data)

    def _and(self, r):          # never reached: all values are Python bools
        raise AssertionError

    _or = _not = _and

    def byte(self, k):
        return self.data[k]

    def byte_in_set(self, k, st):
        return self.data[k] in st

    def zext(self, b):
        return b

    def in_range_u(self, x, lo, hi):
        return lo <= x <= hi

    def eq(self, x, c):
        return x == c


# --------------------------------------------------------------------------- results
class Res:
    __slots__ = ('ends', 'raise_', '_failed', '_succ')

    def __init__(self, ends, raise_):
        self.ends = {j: c for j, c in ends.items() if c is not False}
        self.raise_ = raise_
        self._failed = None
        self._succ = None

    def succ(self, A):
        if self._succ is None:
            self._succ = A.or_(list(self.ends.values()))
        return self._succ

    def failed(self, A):
        if self._failed is None:
            self._failed = A.not_(A.or_([self.succ(A), self.raise_]))
        return self._failed


KNOWN_KINDS = {'seq', 'sor', 'opt', 'star', 'plus', 'rep', 'rep_opt', 'rep_min_max', 'until', 'if_must', 'must',
               'if_then_else', 'at', 'not_at', 'one', 'range', 'ranges', 'string', 'any', 'eof', 'success', 'failure',
               'maximum_rule', 'eol', 'eolf'}
ARITY = {'opt': (1, 1), 'star': (1, 1), 'plus': (1, 1), 'rep': (1, 1), 'rep_opt': (1, 1), 'rep_min_max': (1, 1),
         'until': (1, 2), 'if_must': (2, 2), 'must': (1, 1), 'if_then_else': (3, 3), 'at': (1, 1), 'not_at': (1, 1),
         'one': (0, 0), 'range': (0, 0), 'ranges': (0, 0), 'string': (0, 0), 'any': (0, 0), 'eof': (0, 0),
         'success': (0, 0), 'failure': (0, 0), 'maximum_rule': (0, 0), 'eol': (0, 0), 'eolf': (0, 0), 'seq': (0, 999), 'sor': (0, 999)}
RAISING_KINDS = {'must'}


def structural_problems(rules, names):
    """Reasons why the encoder would have to guess; any entry makes the run inconclusive."""
    bad = []
    for nme in names:
        r = rules[nme]
        k = r['kind']
        if k not in KNOWN_KINDS:
            bad.append('unknown rule kind for %s (rule_t %s)' % (nme, r['rule_t']))
            continue
        short = r['rule_t'].split('<')[0].split('::')[-1]
        if short != k:
            bad.append('kind %s does not match rule_t %s' % (k, r['rule_t']))
        if not r.get('derives'):
            bad.append('%s does not derive from its rule_t' % nme)
        lo, hi = ARITY[k]
        if not lo <= len(r['subs']) <= hi:
            bad.append('%s: %d sub-rules for kind %s' % (nme, len(r['subs']), k))
        if 'peek' in r:
            pk = r['peek']
            if pk.get('peek') not in ('char', 'utf8'):
                bad.append('%s: unknown peek class %s' % (nme, pk))
            elif pk['peek'] == 'char' and pk.get('data_bytes') != 1:
                bad.append('%s: peek_char data_t is not one byte' % nme)
        if k == 'maximum_rule' and r.get('bits') not in (8, 16, 32, 64):
            bad.append('%s: maximum_rule width' % nme)
    return bad


class PegEnc:
    def __init__(self, rules, alg, n):
        self.rules = rules
        self.A = alg
        self.n = n
        self.memo = {}
        self.busy = set()
        self._sets = {}
        self._nf = {}

    # ---- helpers
    def never_fails(self, name, _stack=()):
        if name in self._nf:
            return self._nf[name]
        if name in _stack:
            return False
        r = self.rules[name]
        k = r['kind']
        st = _stack + (name,)
        if k in ('must', 'success', 'opt', 'star', 'rep_opt'):
            v = True
        elif k == 'seq':
            v = all(self.never_fails(s, st) for s in r['subs'])
        elif k == 'if_must':
            v = bool(r['default'])
        else:
            v = False
        self._nf[name] = v
        return v

    def _byteset(self, r):
        """Set of byte values accepted by a single-byte (peek_char) atom; data_t comparisons are done in the
        signedness the dump reports for peek_char::data_t."""
        key = r['name']
        if key in self._sets:
            return self._sets[key]
        signed = r['peek']['data_signed']
        k = r['kind']
        cs = r.get('cs', [])

        def val(b):
            return b - 256 if (signed and b >= 128) else b

        def test(v):
            if k == 'one':
                return (v in cs) == r['found']
            if k == 'range':
                return (cs[0] <= v <= cs[1]) == r['found']
            if k == 'ranges':
                ok = any(cs[2 * t] <= v <= cs[2 * t + 1] for t in range(len(cs) // 2))
                if len(cs) % 2:
                    ok = ok or v == cs[-1]
                return ok
            if k == 'any':
                return True
            raise EncodeError(k)
        s = frozenset(b for b in range(256) if test(val(b)))
        self._sets[key] = s
        return s

    # independent UTF-8 specification: Unicode Standard Table 3-7 "Well-Formed UTF-8 Byte Sequences"
    TAB37 = [
        (1, [(0x00, 0x7F)]),
        (2, [(0xC2, 0xDF), (0x80, 0xBF)]),
        (3, [(0xE0, 0xE0), (0xA0, 0xBF), (0x80, 0xBF)]),
        (3, [(0xE1, 0xEC), (0x80, 0xBF), (0x80, 0xBF)]),
        (3, [(0xED, 0xED), (0x80, 0x9F), (0x80, 0xBF)]),
        (3, [(0xEE, 0xEF), (0x80, 0xBF), (0x80, 0xBF)]),
        (4, [(0xF0, 0xF0), (0x90, 0xBF), (0x80, 0xBF), (0x80, 0xBF)]),
        (4, [(0xF1, 0xF3), (0x80, 0xBF), (0x80, 0xBF), (0x80, 0xBF)]),
        (4, [(0xF4, 0xF4), (0x80, 0x8F), (0x80, 0xBF), (0x80, 0xBF)]),
    ]

    @staticmethod
    def _cp(bs):
        if len(bs) == 1:
            return bs[0]
        if len(bs) == 2:
            return ((bs[0] & 0x1F) << 6) | (bs[1] & 0x3F)
        if len(bs) == 3:
            return ((bs[0] & 0x0F) << 12) | ((bs[1] & 0x3F) << 6) | (bs[2] & 0x3F)
        return ((bs[0] & 0x07) << 18) | ((bs[1] & 0x3F) << 12) | ((bs[2] & 0x3F) << 6) | (bs[3] & 0x3F)

    @staticmethod
    def _interval_test(r, cpmin, cpmax):
        """True/False if the atom's code point test has the same value on the whole interval, else None"""
        k = r['kind']
        cs = r.get('cs', [])
        if k == 'any':
            return True
        if k == 'range':
            ivs = [(cs[0], cs[1])]
            found = r['found']
        elif k == 'ranges':
            ivs = [(cs[2 * q], cs[2 * q + 1]) for q in range(len(cs) // 2)]
            if len(cs) % 2:
                ivs.append((cs[-1], cs[-1]))
            found = True
        elif k == 'one':
            ivs = [(c, c) for c in cs]
            found = r['found']
        else:
            return None
        if any(lo <= cpmin and cpmax <= hi for lo, hi in ivs):
            return found
        if all(hi < cpmin or cpmax < lo for lo, hi in ivs):
            return not found
        return None

    def _utf8(self, r, i):
        A = self.A
        k = r['kind']
        cs = r.get('cs', [])
        ends = {}
        for L, rows in self.TAB37:
            if i + L > self.n:
                continue
            wf = A.and_([A.byte_in_set(i + t, frozenset(range(lo, hi + 1))) for t, (lo, hi) in enumerate(rows)])
            if wf is False:
                continue
            # code points of this row form the interval [cpmin, cpmax] (cp is monotone in the byte sequence)
            cpmin = self._cp([lo for lo, _ in rows])
            cpmax = self._cp([hi for _, hi in rows])
            quick = self._interval_test(r, cpmin, cpmax)
            if quick is not None:
                c = A.and_([wf, quick])
                ends[i + L] = A.or_([ends.get(i + L, False), c])
                continue
            b = [A.zext(A.byte(i + t)) for t in range(L)]
            if L == 1:
                cp = b[0]
            elif L == 2:
                cp = ((b[0] & 0x1F) << 6) | (b[1] & 0x3F)
            elif L == 3:
                cp = ((b[0] & 0x0F) << 12) | ((b[1] & 0x3F) << 6) | (b[2] & 0x3F)
            else:
                cp = ((b[0] & 0x07) << 18) | ((b[1] & 0x3F) << 12) | ((b[2] & 0x3F) << 6) | (b[3] & 0x3F)
            if k == 'any':
                t = True
            elif k == 'one':
                t = A.or_([A.eq(cp, c) for c in cs])
                if not r['found']:
                    t = A.not_(t)
            elif k == 'range':
                t = A.in_range_u(cp, cs[0], cs[1])
                if not r['found']:
                    t = A.not_(t)
            elif k == 'ranges':
                alts = [A.in_range_u(cp, cs[2 * q], cs[2 * q + 1]) for q in range(len(cs) // 2)]
                if len(cs) % 2:
                    alts.append(A.eq(cp, cs[-1]))
                t = A.or_(alts)
            else:
                raise EncodeError(k)
            c = A.and_([wf, t])
            ends[i + L] = A.or_([ends.get(i + L, False), c])
        return Res(ends, False)

    def _maximum_rule(self, r, i):
        """integer.hpp maximum_rule< U, Max > (match_and_convert_unsigned_with_maximum_nothrow):
        '0' not followed by a digit -> consumes the '0'; '0' followed by a digit -> fails; otherwise the MAXIMAL
        run of digits is taken and the rule succeeds iff its value is <= Max (no shorter prefix is tried)."""
        A = self.A
        n = self.n
        DIG = frozenset(range(0x30, 0x3A))
        if i >= n:
            return Res({}, False)
        mx = str(r['max'])
        D = len(mx)

        def isdig(p):
            return A.byte_in_set(p, DIG) if p < n else False
        ends = {}
        zero = A.byte_in_set(i, frozenset([0x30]))
        ends[i + 1] = A.and_([zero, A.not_(isdig(i + 1))])
        nz = A.byte_in_set(i, frozenset(range(0x31, 0x3A)))
        for b in range(1, D + 1):
            if i + b > n:
                break
            run = A.and_([nz] + [isdig(i + t) for t in range(1, b)] + [A.not_(isdig(i + b))])
            if b < D:
                ok = True
            else:
                # digits lexicographically <= decimal digits of Max
                le = True
                for t in range(D - 1, -1, -1):
                    m = int(mx[t]) + 0x30
                    lt = A.byte_in_set(i + t, frozenset(range(0x30, m)))
                    eq = A.byte_in_set(i + t, frozenset([m]))
                    le = A.or_([lt, A.and_([eq, le])])
                ok = le
            c = A.and_([run, ok])
            ends[i + b] = A.or_([ends.get(i + b, False), c])
        return Res(ends, False)

    # ---- main recursion
    def res(self, name, i):
        key = (name, i)
        if key in self.memo:
            return self.memo[key]
        if key in self.busy:
            raise EncodeError('left recursion through %s at position %d' % (name, i))
        self.busy.add(key)
        r = self.rules[name]
        m = getattr(self, '_k_' + r['kind'], None)
        if m is None or r['kind'] not in KNOWN_KINDS:
            raise EncodeError('unknown rule kind %s for %s' % (r['kind'], name))
        out = m(r, i)
        self.busy.discard(key)
        self.memo[key] = out
        return out

    def _thread(self, subs, start):
        """sequence semantics from a state {pos: cond}; returns (state, raise)"""
        A = self.A
        state = dict(start)
        rz = False
        for s in subs:
            nxt = {}
            for p in sorted(state):
                c = state[p]
                x = self.res(s, p)
                for q, d in x.ends.items():
                    nxt[q] = A.or_([nxt.get(q, False), A.and_([c, d])])
                rz = A.or_([rz, A.and_([c, x.raise_])])
            state = {q: c for q, c in nxt.items() if c is not False}
        return state, rz

    def _k_seq(self, r, i):
        st, rz = self._thread(r['subs'], {i: True})
        return Res(st, rz)

    def _k_sor(self, r, i):
        A = self.A
        prev = True
        ends = {}
        rz = False
        for s in r['subs']:
            if prev is False:
                break
            x = self.res(s, i)
            for q, d in x.ends.items():
                ends[q] = A.or_([ends.get(q, False), A.and_([prev, d])])
            rz = A.or_([rz, A.and_([prev, x.raise_])])
            prev = A.and_([prev, x.failed(A)])
        return Res(ends, rz)

    def _k_opt(self, r, i):
        A = self.A
        x = self.res(r['subs'][0], i)
        ends = dict(x.ends)
        ends[i] = A.or_([ends.get(i, False), x.failed(A)])
        return Res(ends, x.raise_)

    def _k_star(self, r, i):
        A = self.A
        body = r['subs'][0]
        front = {i: True}
        ends = {}
        rz = False
        for p in range(i, self.n + 1):
            c = front.get(p, False)
            if c is False:
                continue
            x = self.res(body, p)
            if p in x.ends:
                raise EncodeError('star body %s can succeed without consuming at %d (non-terminating)' % (body, p))
            for q, d in x.ends.items():
                front[q] = A.or_([front.get(q, False), A.and_([c, d])])
            rz = A.or_([rz, A.and_([c, x.raise_])])
            ends[p] = A.and_([c, x.failed(A)])
        return Res(ends, rz)

    def _k_plus(self, r, i):
        A = self.A
        body = r['subs'][0]
        first = self.res(body, i)
        front = dict(first.ends)
        if i in front:
            raise EncodeError('plus body %s can succeed without consuming' % body)
        ends = {}
        rz = first.raise_
        for p in range(i, self.n + 1):
            c = front.get(p, False)
            if c is False:
                continue
            x = self.res(body, p)
            if p in x.ends:
                raise EncodeError('plus body %s can succeed without consuming at %d' % (body, p))
            for q, d in x.ends.items():
                front[q] = A.or_([front.get(q, False), A.and_([c, d])])
            rz = A.or_([rz, A.and_([c, x.raise_])])
            ends[p] = A.and_([c, x.failed(A)])
        return Res(ends, rz)

    def _k_rep(self, r, i):
        st, rz = self._thread([r['subs'][0]] * r['cnt'], {i: True})
        return Res(st, rz)

    def _bounded(self, body, state, count):
        """up to `count` further iterations from `state`, stopping at the first failure.
        returns (stopped{pos: c} after a failure, full{pos: c} after `count` successes, raise)"""
        A = self.A
        stopped = {}
        rz = False
        for _ in range(count):
            nxt = {}
            for p in sorted(state):
                c = state[p]
                x = self.res(body, p)
                stopped[p] = A.or_([stopped.get(p, False), A.and_([c, x.failed(A)])])
                rz = A.or_([rz, A.and_([c, x.raise_])])
                for q, d in x.ends.items():
                    nxt[q] = A.or_([nxt.get(q, False), A.and_([c, d])])
            state = {q: c for q, c in nxt.items() if c is not False}
        return stopped, state, rz

    def _k_rep_opt(self, r, i):
        A = self.A
        stopped, full, rz = self._bounded(r['subs'][0], {i: True}, r['max'])
        ends = dict(stopped)
        for p, c in full.items():
            ends[p] = A.or_([ends.get(p, False), c])
        return Res(ends, rz)

    def _k_rep_min_max(self, r, i):
        A = self.A
        body = r['subs'][0]
        st, rz = self._thread([body] * r['min'], {i: True})
        stopped, full, rz2 = self._bounded(body, st, r['max'] - r['min'])
        ends = dict(stopped)
        rz = A.or_([rz, rz2])
        for p, c in full.items():        # max reached: not_at< body >
            x = self.res(body, p)
            ends[p] = A.or_([ends.get(p, False), A.and_([c, x.failed(A)])])
            rz = A.or_([rz, A.and_([c, x.raise_])])
        return Res(ends, rz)

    def _k_until(self, r, i):
        A = self.A
        cond = r['subs'][0]
        body = r['subs'][1] if len(r['subs']) == 2 else None
        front = {i: True}
        ends = {}
        rz = False
        for p in range(i, self.n + 1):
            c = front.get(p, False)
            if c is False:
                continue
            xc = self.res(cond, p)
            for q, d in xc.ends.items():
                ends[q] = A.or_([ends.get(q, False), A.and_([c, d])])
            rz = A.or_([rz, A.and_([c, xc.raise_])])
            go = A.and_([c, xc.failed(A)])
            if go is False:
                continue
            if body is None:
                if p < self.n:      # in.bump(): one byte
                    front[p + 1] = A.or_([front.get(p + 1, False), go])
            else:
                x = self.res(body, p)
                if p in x.ends:
                    raise EncodeError('until body %s can succeed without consuming at %d' % (body, p))
                for q, d in x.ends.items():
                    front[q] = A.or_([front.get(q, False), A.and_([go, d])])
                rz = A.or_([rz, A.and_([go, x.raise_])])
        return Res(ends, rz)

    def _k_must(self, r, i):
        A = self.A
        x = self.res(r['subs'][0], i)
        return Res(x.ends, A.or_([x.raise_, x.failed(A)]))

    def _k_if_must(self, r, i):
        A = self.A
        cond, rest = r['subs']
        if not self.never_fails(rest):
            raise EncodeError('if_must: second sub-rule %s is not a must<> sequence' % rest)
        xc = self.res(cond, i)
        st, rz = self._thread([rest], xc.ends)
        rz = A.or_([rz, xc.raise_])
        if r['default']:
            st = dict(st)
            st[i] = A.or_([st.get(i, False), xc.failed(A)])
        return Res(st, rz)

    def _k_if_then_else(self, r, i):
        A = self.A
        cond, then, els = r['subs']
        xc = self.res(cond, i)
        st, rz = self._thread([then], xc.ends)
        rz = A.or_([rz, xc.raise_])
        f = xc.failed(A)
        if f is not False:
            xe = self.res(els, i)
            st = dict(st)
            for q, d in xe.ends.items():
                st[q] = A.or_([st.get(q, False), A.and_([f, d])])
            rz = A.or_([rz, A.and_([f, xe.raise_])])
        return Res(st, rz)

    def _k_at(self, r, i):
        x = self.res(r['subs'][0], i)
        return Res({i: x.succ(self.A)}, x.raise_)

    def _k_not_at(self, r, i):
        x = self.res(r['subs'][0], i)
        return Res({i: x.failed(self.A)}, x.raise_)

    def _atom(self, r, i):
        if r['peek']['peek'] == 'utf8':
            return self._utf8(r, i)
        if i >= self.n:
            return Res({}, False)
        return Res({i + 1: self.A.byte_in_set(i, self._byteset(r))}, False)

    _k_one = _k_range = _k_ranges = _k_any = _atom

    def _k_string(self, r, i):
        cs = r['cs']
        if i + len(cs) > self.n:
            return Res({}, False)
        A = self.A
        return Res({i + len(cs): A.and_([A.byte_in_set(i + t, frozenset([c])) for t, c in enumerate(cs)])}, False)

    def _k_eof(self, r, i):
        return Res({i: i == self.n}, False)

    def _k_eol(self, r, i):
        # the eol rule under the policy of the input the grammar is run on: the replay parser and the property use the default eol::lf_crlf
        # (LF, or CR LF); other policies are outside the claim
        A = self.A
        ends = {}
        if i + 1 <= self.n:
            ends[i + 1] = A.byte_in_set(i, frozenset([0x0a]))
        if i + 2 <= self.n:
            ends[i + 2] = A.and_([A.byte_in_set(i, frozenset([0x0d])), A.byte_in_set(i + 1, frozenset([0x0a]))])
        return Res(ends, False)

    def _k_eolf(self, r, i):
        x = self._k_eol(r, i)
        ends = dict(x.ends)
        if i == self.n:
            ends[i] = True
        return Res(ends, False)

    def _k_success(self, r, i):
        return Res({i: True}, False)

    def _k_failure(self, r, i):
        return Res({}, False)

    def _k_maximum_rule(self, r, i):
        return self._maximum_rule(r, i)

    # ---- top level
    def accepts(self, root):
        """(accept, raise) of the root rule seq< X, eof > at position 0: accept = success (necessarily at n)."""
        x = self.res(root, 0)
        bad = [j for j in x.ends if j != self.n]
        if bad:
            raise EncodeError('root rule can end before the end of input: %r' % bad)
        return x.ends.get(self.n, False), x.raise_
