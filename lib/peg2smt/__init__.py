"""E2 / peg2smt: grammar extraction from the PEGTL headers + bounded language equality in z3/cvc5."""
