"""Extraction of the grammar structure from the real PEGTL headers.

A dumper translation unit is generated, compiled against $VERIF_REPO/include on every run and executed.
It walks the grammar from `seq< Top, eof >` through the library's own meta data (`Rule::rule_t`,
`Rule::subs_t`, `demangle<T>()`), and prints one JSON object per rule:

    name     demangled Rule
    rule_t   demangled Rule::rule_t (kept for the evidence file and cross-checked against `kind`)
    kind     combinator/atom kind, selected by partial specialisation on Rule::rule_t; a rule_t
             for which the dumper has no specialisation is printed as kind UNKNOWN
    <args>   the non-type template arguments as numbers (taken from the template arguments
             themselves, not parsed out of the demangled text)
    derives  std::is_base_of_v< rule_t, Rule >   (the rule inherits rule_t's match())
    own_match  whether &Rule::match differs in type from &rule_t::match cannot be detected portably;
             instead `derives` is required to be true.
    subs     demangled names of Rule::subs_t

Unknown kinds are NOT an error here; the encoder refuses them (-> INCONCLUSIVE).
"""
import json
import os
import subprocess

KINDS_VARIADIC = ['seq', 'sor', 'opt', 'star', 'plus', 'until', 'must', 'at', 'not_at', 'if_then_else']

DUMPER = r'''
#include <iostream>
#include <set>
#include <string>
#include <string_view>
#include <type_traits>
#include <cstdio>
#include <tao/pegtl.hpp>
%(includes)s

namespace p = tao::pegtl;
namespace pi = tao::pegtl::internal;

static std::string esc( std::string_view s )
{
   std::string r;
   for( unsigned char c : s ) {
      if( c == '"' || c == '\\' ) { r += '\\'; r += char( c ); }
      else if( c < 0x20 || c >= 0x7f ) { char b[ 8 ]; std::snprintf( b, sizeof b, "\\u%%04x", unsigned( c ) ); r += b; }
      else r += char( c );
   }
   return r;
}

template< typename T > std::string nm() { return esc( p::demangle< T >() ); }

template< typename Peek > struct PK { static std::string s() { return "{\"peek\":\"UNKNOWN\",\"name\":\"" + nm< Peek >() + "\"}"; } };
template<> struct PK< pi::peek_char > { static std::string s() { return std::string( "{\"peek\":\"char\",\"data_signed\":" ) + ( std::is_signed_v< pi::peek_char::data_t > ? "true" : "false" ) + ",\"data_bytes\":" + std::to_string( sizeof( pi::peek_char::data_t ) ) + "}"; } };
template<> struct PK< pi::peek_utf8 > { static std::string s() { return std::string( "{\"peek\":\"utf8\",\"data_signed\":" ) + ( std::is_signed_v< pi::peek_utf8::data_t > ? "true" : "false" ) + ",\"data_bytes\":" + std::to_string( sizeof( pi::peek_utf8::data_t ) ) + "}"; } };

template< typename T, T... Vs > std::string vals()
{
   std::string r = "[";
   const char* sep = "";
   ( ( r += sep, r += std::to_string( static_cast< long long >( Vs ) ), sep = "," ), ... );
   return r + "]";
}

template< char... Cs > std::string bytes()
{
   std::string r = "[";
   const char* sep = "";
   ( ( r += sep, r += std::to_string( static_cast< unsigned >( static_cast< unsigned char >( Cs ) ) ), sep = "," ), ... );
   return r + "]";
}

template< typename RT > struct K { static void args( std::ostream& o ) { o << "\"kind\":\"UNKNOWN\""; } };

#define COMB( k ) template< typename... Rs > struct K< pi::k< Rs... > > { static void args( std::ostream& o ) { o << "\"kind\":\"" #k "\""; } };
COMB( seq ) COMB( sor ) COMB( opt ) COMB( star ) COMB( plus ) COMB( until ) COMB( must ) COMB( at ) COMB( not_at ) COMB( if_then_else )

template< unsigned N, typename... Rs > struct K< pi::rep< N, Rs... > > { static void args( std::ostream& o ) { o << "\"kind\":\"rep\",\"cnt\":" << N; } };
template< unsigned N, typename... Rs > struct K< pi::rep_opt< N, Rs... > > { static void args( std::ostream& o ) { o << "\"kind\":\"rep_opt\",\"max\":" << N; } };
template< unsigned A, unsigned B, typename... Rs > struct K< pi::rep_min_max< A, B, Rs... > > { static void args( std::ostream& o ) { o << "\"kind\":\"rep_min_max\",\"min\":" << A << ",\"max\":" << B; } };
template< bool D, typename C, typename... Rs > struct K< pi::if_must< D, C, Rs... > > { static void args( std::ostream& o ) { o << "\"kind\":\"if_must\",\"default\":" << ( D ? "true" : "false" ); } };

template< pi::result_on_found R, typename Peek, typename Peek::data_t... Cs >
struct K< pi::one< R, Peek, Cs... > > { static void args( std::ostream& o ) { o << "\"kind\":\"one\",\"found\":" << ( static_cast< bool >( R ) ? "true" : "false" ) << ",\"peek\":" << PK< Peek >::s() << ",\"cs\":" << vals< typename Peek::data_t, Cs... >(); } };
template< pi::result_on_found R, typename Peek, typename Peek::data_t Lo, typename Peek::data_t Hi >
struct K< pi::range< R, Peek, Lo, Hi > > { static void args( std::ostream& o ) { o << "\"kind\":\"range\",\"found\":" << ( static_cast< bool >( R ) ? "true" : "false" ) << ",\"peek\":" << PK< Peek >::s() << ",\"cs\":" << vals< typename Peek::data_t, Lo, Hi >(); } };
template< typename Peek, typename Peek::data_t... Cs >
struct K< pi::ranges< Peek, Cs... > > { static void args( std::ostream& o ) { o << "\"kind\":\"ranges\",\"peek\":" << PK< Peek >::s() << ",\"cs\":" << vals< typename Peek::data_t, Cs... >(); } };
template< char... Cs > struct K< pi::string< Cs... > > { static void args( std::ostream& o ) { o << "\"kind\":\"string\",\"cs\":" << bytes< Cs... >(); } };
template< typename Peek > struct K< pi::any< Peek > > { static void args( std::ostream& o ) { o << "\"kind\":\"any\",\"peek\":" << PK< Peek >::s(); } };
template<> struct K< pi::eof > { static void args( std::ostream& o ) { o << "\"kind\":\"eof\""; } };
template<> struct K< pi::success > { static void args( std::ostream& o ) { o << "\"kind\":\"success\""; } };
template<> struct K< pi::failure > { static void args( std::ostream& o ) { o << "\"kind\":\"failure\""; } };
template<> struct K< pi::eol > { static void args( std::ostream& o ) { o << "\"kind\":\"eol\""; } };
template<> struct K< pi::eolf > { static void args( std::ostream& o ) { o << "\"kind\":\"eolf\""; } };
%(extra_kinds)s

static std::set< std::string > seen;

template< typename... Ts > void names( p::type_list< Ts... > )
{
   const char* sep = "";
   ( ( std::cout << sep << '"' << nm< Ts >() << '"', sep = "," ), ... );
}

template< typename Rule > void walk();
template< typename... Ts > void walk_list( p::type_list< Ts... > ) { ( walk< Ts >(), ... ); }

template< typename Rule > void walk()
{
   const std::string n( p::demangle< Rule >() );
   if( !seen.insert( n ).second ) return;
   using RT = typename Rule::rule_t;
   std::cout << "{\"name\":\"" << esc( n ) << "\",\"rule_t\":\"" << nm< RT >() << "\",";
   K< RT >::args( std::cout );
   std::cout << ",\"derives\":" << ( std::is_base_of_v< RT, Rule > ? "true" : "false" );
   std::cout << ",\"subs\":[";
   names( typename Rule::subs_t{} );
   std::cout << "]}\n";
   walk_list( typename Rule::subs_t{} );
}

template< typename Top > void top( const char* label )
{
   using G = p::seq< Top, p::eof >;
   std::cout << "{\"top\":\"" << label << "\",\"root\":\"" << nm< G >() << "\",\"rule\":\"" << nm< Top >() << "\"}\n";
   walk< G >();
}

int main()
{
%(tops)s
   return 0;
}
'''

EXTRA_MAXIMUM_RULE = r'''
template< typename U, U Max > struct K< p::maximum_rule< U, Max > > { static void args( std::ostream& o ) { o << "\"kind\":\"maximum_rule\",\"bits\":" << 8 * sizeof( U ) << ",\"max\":" << static_cast< unsigned long long >( Max ); } };
'''

RUNNER = r'''
#include <iostream>
#include <string>
#include <exception>
#include <tao/pegtl.hpp>
%(includes)s
namespace p = tao::pegtl;

// Parses each input (one per stdin line: "<top-label> <hex bytes>") with parse< seq< Top, eof > > on a
// memory_input over an exactly sized std::string copy (the byte after the end is the string's NUL).
template< typename Top > const char* run( const std::string& data )
{
   try {
      p::memory_input< p::tracking_mode::eager, p::eol::lf_crlf, const char* > in( data.data(), data.data() + data.size(), "replay" );
      return p::parse< p::seq< Top, p::eof > >( in ) ? "accept" : "reject";
   }
   catch( const p::parse_error& ) {
      return "parse_error";
   }
   catch( const std::exception& ) {
      return "std_exception";
   }
   catch( ... ) {
      return "other_exception";
   }
}

static int hv( char c ) { return ( c >= '0' && c <= '9' ) ? c - '0' : ( c >= 'a' && c <= 'f' ) ? c - 'a' + 10 : -1; }

int main()
{
   std::string line;
   while( std::getline( std::cin, line ) ) {
      const auto sp = line.find( ' ' );
      const std::string label = line.substr( 0, sp );
      const std::string hex = ( sp == std::string::npos ) ? std::string() : line.substr( sp + 1 );
      std::string data;
      for( std::size_t i = 0; i + 1 < hex.size(); i += 2 ) data += char( hv( hex[ i ] ) * 16 + hv( hex[ i + 1 ] ) );
      const char* r = "unknown_top";
%(dispatch)s
      std::cout << r << "\n";
   }
   return 0;
}
'''


class ExtractError(Exception):
    pass


def repo_root():
    return os.environ.get('VERIF_REPO', '/repo')


def _compile(src_text, workdir, stem, cxx=None):
    src = os.path.join(workdir, stem + '.cpp')
    exe = os.path.join(workdir, stem)
    with open(src, 'w') as f:
        f.write(src_text)
    inc = os.path.join(repo_root(), 'include')
    cmd = [cxx or os.environ.get('VERIF_CXX', 'g++'), '-std=c++17', '-O0', '-w', '-I', inc, src, '-o', exe]
    r = subprocess.run(cmd, capture_output=True, text=True)
    if r.returncode != 0:
        raise ExtractError('compile failed: %s\n%s' % (' '.join(cmd), r.stderr[-3000:]))
    return exe, ' '.join(cmd)


def dump_grammar(includes, tops, workdir, with_maximum_rule=False):
    """tops: list of (label, C++ type). Returns (tops_info, rules dict name -> record, compile command)."""
    inc = '\n'.join('#include <%s>' % h for h in includes)
    tp = '\n'.join('   top< %s >( "%s" );' % (t, l) for l, t in tops)
    text = DUMPER % {'includes': inc, 'tops': tp, 'extra_kinds': EXTRA_MAXIMUM_RULE if with_maximum_rule else ''}
    exe, cmd = _compile(text, workdir, 'dumper')
    r = subprocess.run([exe], capture_output=True, text=True)
    if r.returncode != 0:
        raise ExtractError('dumper failed rc=%d %s' % (r.returncode, r.stderr[-1000:]))
    rules = {}
    tinfo = {}
    for line in r.stdout.splitlines():
        if not line.strip():
            continue
        o = json.loads(line)
        if 'top' in o:
            tinfo[o['top']] = o
        else:
            rules[o['name']] = o
    for l, _ in tops:
        if l not in tinfo or tinfo[l]['root'] not in rules:
            raise ExtractError('top %s missing in dump' % l)
    return tinfo, rules, cmd, r.stdout


class Runner:
    """The real parser: a compiled program that parses byte strings with parse< seq< Top, eof > >."""

    def __init__(self, includes, tops, workdir):
        inc = '\n'.join('#include <%s>' % h for h in includes)
        disp = '\n'.join('      if( label == "%s" ) r = run< %s >( data );' % (l, t) for l, t in tops)
        self.exe, self.cmd = _compile(RUNNER % {'includes': inc, 'dispatch': disp}, workdir, 'runner')
        self.calls = 0

    def run(self, items):
        """items: list of (label, bytes) -> list of verdict strings."""
        if not items:
            return []
        inp = ''.join('%s %s\n' % (l, bytes(b).hex()) for l, b in items)
        r = subprocess.run([self.exe], input=inp, capture_output=True, text=True)
        out = r.stdout.split('\n')[:-1]
        if r.returncode != 0 or len(out) != len(items):
            raise ExtractError('runner failed rc=%d lines=%d/%d %s' % (r.returncode, len(out), len(items), r.stderr[-500:]))
        self.calls += len(items)
        return out


def reachable(rules, root):
    seen = []
    st = [root]
    s = set()
    while st:
        x = st.pop()
        if x in s:
            continue
        s.add(x)
        seen.append(x)
        st.extend(reversed(rules[x]['subs']))
    return seen
