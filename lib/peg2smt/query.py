"""One obligation of E2: build PEG side and RFC side for a symbolic byte string of concrete length n and decide

    exists s in Bytes^n :  PEG_accepts(s) != RFC_derives(s)     [ and-not Known(s)  |  and Known(s) ]

The terms are built through the z3 Python API.  The satisfiability verdict comes from
  engine 'z3'    z3 (SolverFor QF_BV) through the API, and/or
  engine 'cvc5'  the cvc5 command line tool (--bitblast=eager) on the SMT-LIB2 export of the same assertion
                 (models are read back with get-value);
when both run they have to agree.  Runs inside a worker process (z3 terms are not picklable)."""
import os
import re
import subprocess
import time


def _bv(z3, x):
    return z3.BoolVal(x) if isinstance(x, bool) else x


def build(z3, task):
    from . import abnf, pegenc
    n = task['n']
    alg = pegenc.Z3Alg(z3, n)
    pe = pegenc.PegEnc(task['rules'], alg, n)
    acc, rz = pe.accepts(task['root'])
    g = abnf.Grammar(task['abnf_text'] + '\n' + task.get('abnf_ext', ''))
    dv = abnf.Deriv(g, alg, n)
    rfc = dv.rule(task['start'], 0, n)
    known = None
    if task.get('known_start'):
        known = dv.rule(task['known_start'], 0, n)
    info = {'peg_table_entries': len(pe.memo), 'rfc_table_entries': len(dv.memo) + len(dv.cmemo) + len(dv.rmemo), 'bool_nodes': alg.nodes}
    return alg, _bv(z3, acc), _bv(z3, rz), _bv(z3, rfc), (None if known is None else _bv(z3, known)), info


def _mk_solver(z3, task, timeout_s=None):
    s = z3.SolverFor('QF_BV')
    s.set('timeout', int((timeout_s or task['timeout_s']) * 1000))
    try:
        s.set('random_seed', int(task.get('seed', 1)))
    except Exception:
        pass
    return s


def _count_nodes(z3, term):
    seen = set()
    st = [term]
    while st:
        t = st.pop()
        i = t.get_id()
        if i in seen:
            continue
        seen.add(i)
        st.extend(t.children())
    return len(seen)


def _cvc5(z3, task, alg, goal, tag):
    """-> (result string, model bytes or None, seconds)"""
    s = z3.SolverFor('QF_BV')
    s.add(goal)
    text = s.to_smt2()
    declared = set(re.findall(r'\(declare-fun (\S+) \(\)', text))
    names = [str(b) for b in alg.s]
    ask = [nm for nm in names if nm in declared]
    path = os.path.join(task['work'], 'q-%s-%s-%d.smt2' % (task['top'], tag, task['n']))
    with open(path, 'w') as f:
        f.write('(set-option :produce-models true)\n(set-logic QF_BV)\n' + text)
        if ask:
            f.write('(get-value (%s))\n' % ' '.join(ask))
    t1 = time.time()
    lim = int(task['timeout_s'])
    cmd = ['cvc5', '--bitblast=eager', '--lang=smt2', '--tlimit=%d' % (lim * 1000), path]
    try:
        cp = subprocess.run(cmd, capture_output=True, text=True, timeout=lim + 30)
        txt = (cp.stdout + '\n' + cp.stderr).strip()
    except subprocess.TimeoutExpired:
        txt = 'timeout'
    dt = round(time.time() - t1, 3)
    try:
        os.unlink(path)
    except OSError:
        pass
    first = txt.split('\n')[0].strip() if txt else ''
    if first == 'unsat':
        # (get-value after unsat prints an error; that is expected and ignored)
        return 'unsat', None, dt
    if first == 'sat':
        if '(error' in txt:
            return 'error: ' + txt[:200].replace('\n', ' '), None, dt
        vals = dict((k, int(v, 2)) for k, v in re.findall(r'\(([^\s()]+) #b([01]+)\)', txt))
        vals.update(dict((k, int(v, 16)) for k, v in re.findall(r'\(([^\s()]+) #x([0-9a-fA-F]+)\)', txt)))
        return 'sat', [vals.get(nm, 0x41) for nm in names], dt
    if 'timeout' in txt or 'interrupted' in txt.lower():
        return 'timeout', None, dt
    return 'error: ' + txt[:200].replace('\n', ' '), None, dt


def _eval_on(z3, alg, data, terms):
    """values of Bool terms under the concrete byte string `data` (by substitution + simplification)"""
    sub = [(b, z3.BitVecVal(v, 8)) for b, v in zip(alg.s, data)]
    out = []
    for t in terms:
        v = z3.simplify(z3.substitute(t, *sub)) if sub else z3.simplify(t)
        if z3.is_true(v):
            out.append(True)
        elif z3.is_false(v):
            out.append(False)
        else:
            raise RuntimeError('term does not evaluate to a constant under a full assignment')
    return out


def decide(z3, task, alg, goal, tag, terms):
    """Decide one assertion with the engines requested in task['engines'].
    -> dict(status, witness?, witness_vals?, engines={name: {result, s}})"""
    engines = {}
    results = []
    witness = None
    if 'z3' in task['engines']:
        s = _mk_solver(z3, task)
        s.add(goal)
        t1 = time.time()
        r = s.check()
        res = str(r)
        if r == z3.unknown:
            res = 'unknown (%s)' % s.reason_unknown()
        engines['z3'] = {'result': res, 's': round(time.time() - t1, 3)}
        results.append(res)
        if r == z3.sat:
            m = s.model()
            witness = [m.eval(b, model_completion=True).as_long() for b in alg.s]
    if 'cvc5' in task['engines']:
        res, model, dt = _cvc5(z3, task, alg, goal, tag)
        engines['cvc5'] = {'result': res, 's': dt}
        results.append(res)
        if res == 'sat' and witness is None:
            witness = model
    out = {'engines': engines}
    if all(r == 'unsat' for r in results):
        out['status'] = 'unsat'
    elif all(r == 'sat' for r in results):
        out['status'] = 'sat'
        acc, rz, rfc = _eval_on(z3, alg, witness, terms)
        out['witness'] = witness
        out['witness_vals'] = {'peg_accept': acc, 'peg_raise': rz, 'rfc': rfc}
    elif set(results) == {'sat', 'unsat'}:
        out['status'] = 'disagree'
        out['reason'] = 'solvers disagree: %r' % engines
    else:
        out['status'] = 'unknown'
        out['reason'] = '%r' % engines
    return out


def solve(task):
    import z3
    from .pegenc import EncodeError
    from .abnf import AbnfError
    t0 = time.time()
    out = {'top': task['top'], 'n': task['n'], 'mode': task['mode']}
    try:
        alg, acc, rz, rfc, known, info = build(z3, task)
    except (EncodeError, AbnfError) as e:
        out.update(status='encode_error', reason=str(e), wall_s=time.time() - t0)
        return out
    out.update(info)
    out['build_s'] = round(time.time() - t0, 3)
    diff = z3.Xor(acc, rfc)
    queries = []
    mode = task['mode']
    if mode == 'main':
        goal = diff if known is None else z3.And(diff, z3.Not(known))
    elif mode == 'confirm':
        goal = z3.And(diff, known)
    else:
        raise ValueError(mode)
    out['formula_dag_nodes'] = _count_nodes(z3, goal)
    out['assertions'] = 1
    d = decide(z3, task, alg, goal, mode, (acc, rz, rfc))
    out.update(d)
    for e, v in d['engines'].items():
        queries.append({'q': mode, 'engine': e, 'result': v['result'], 's': v['s']})
    out['solver_s'] = round(sum(v['s'] for v in d['engines'].values()), 3)
    # "never throws": is a raising rule reachable on some string of this length?
    if task.get('raise_goal'):
        d3 = decide(z3, task, alg, rz, 'raise', (acc, rz, rfc))
        for e, v in d3['engines'].items():
            queries.append({'q': 'a raising rule is reached', 'engine': e, 'result': v['result'], 's': v['s']})
        out['raise_status'] = d3['status']
        if d3['status'] == 'sat':
            out['raise_witness'] = d3['witness']
    # exclusion soundness: every string of the known language is a disagreement of the known shape
    if mode == 'confirm' and d['status'] == 'sat':
        d2 = decide(z3, dict(task, engines=['z3']), alg, z3.And(known, z3.Not(z3.And(z3.Not(acc), rfc))), 'subset', (acc, rz, rfc))
        queries.append({'q': 'known language is a subset of {PEG rejects, RFC derives}', 'engine': 'z3', 'result': d2['status'], 's': d2['engines']['z3']['s']})
        out['known_subset_of_defect'] = (d2['status'] == 'unsat')
    # solver-chosen boundary strings (validation of the encoder against the real parser / recogniser)
    samples = []
    k = task.get('k_samples', 0)
    if k and task['n'] > 0 and d['status'] in ('sat', 'unsat'):
        for label, cond in (('peg_accept', acc), ('peg_reject', z3.And(z3.Not(acc), z3.Not(rz))), ('peg_raise', rz),
                            ('rfc_derives', rfc), ('rfc_not', z3.Not(rfc))):
            s3 = _mk_solver(z3, task, 20)
            s3.add(cond)
            got = 0
            t1 = time.time()
            while got < k:
                r3 = s3.check()
                if r3 != z3.sat:
                    break
                m = s3.model()
                bs = [m.eval(b, model_completion=True).as_long() for b in alg.s]
                samples.append({'class': label, 'bytes': bs,
                                'peg_accept': z3.is_true(m.eval(acc, model_completion=True)),
                                'peg_raise': z3.is_true(m.eval(rz, model_completion=True)),
                                'rfc': z3.is_true(m.eval(rfc, model_completion=True))})
                got += 1
                s3.add(z3.Or(*[b != v for b, v in zip(alg.s, bs)]))
            queries.append({'q': 'sample ' + label, 'engine': 'z3', 'result': '%d models' % got, 's': round(time.time() - t1, 3)})
            out.setdefault('class_sat', {})[label] = got > 0
    out['samples'] = samples
    out['queries'] = queries
    out['wall_s'] = round(time.time() - t0, 3)
    return out
