"""One SMT query of E2: build PEG side and RFC side for a symbolic string of concrete length n and decide
    exists s in Bytes^n :  PEG_accepts(s) != RFC_derives(s)     [ and / and-not  Known(s) ]
Runs inside a worker process (z3 terms are not picklable); everything it needs comes in `task`."""
import os
import subprocess
import time


def _bv(z3, x):
    return z3.BoolVal(x) if isinstance(x, bool) else x


def _encode(z3, task, alg):
    from . import abnf, pegenc
    n = task['n']
    pe = pegenc.PegEnc(task['rules'], alg, n)
    acc, rz = pe.accepts(task['root'])
    g = abnf.Grammar(task['abnf_text'] + '\n' + task.get('abnf_ext', ''))
    dv = abnf.Deriv(g, alg, n)
    rfc = dv.rule(task['start'], 0, n)
    known = None
    if task.get('known_start'):
        known = dv.rule(task['known_start'], 0, n)
    info = {'peg_memo': len(pe.memo), 'rfc_memo': len(dv.memo) + len(dv.cmemo) + len(dv.rmemo), 'bool_nodes': alg.nodes}
    return _bv(z3, acc), _bv(z3, rz), _bv(z3, rfc), (None if known is None else _bv(z3, known)), info


def build(z3, task):
    """Pass 1 (RecAlg, bit-vector bytes) records every byte set either encoding tests.  If no encoding looks at raw
    byte values, pass 2 re-encodes over one-hot byte CLASSES (the partition induced by those sets); otherwise the
    bit-vector encoding of pass 1 is used."""
    from . import pegenc
    n = task['n']
    rec = pegenc.RecAlg(z3, n)
    acc, rz, rfc, known, info = _encode(z3, task, rec)
    if rec.raw or os.environ.get('PEG2SMT_NOCLASS') or not rec.sets:
        info['bytes_as'] = 'bit-vectors (8 bit)'
        return rec, acc, rz, rfc, known, info
    classes = pegenc.byte_classes(rec.sets)
    alg = (pegenc.ClassAlg if os.environ.get('PEG2SMT_ONEHOT') else pegenc.ClassBvAlg)(z3, n, classes)
    acc, rz, rfc, known, info = _encode(z3, task, alg)
    info['bytes_as'] = 'one-hot over %d byte classes' % len(classes)
    info['byte_classes'] = len(classes)
    return alg, acc, rz, rfc, known, info


def _pick(seedless_idx):
    def pick(blk, k):
        pr = [b for b in blk if 0x21 <= b <= 0x7e]
        cand = pr or blk
        return cand[(seedless_idx * 7 + k * 3) % len(cand)] if seedless_idx else cand[0]
    return pick


def _mk_solver(z3, task):
    s = z3.SolverFor('QF_BV')
    s.set('timeout', int(task['timeout_s'] * 1000))
    try:
        s.set('random_seed', int(task.get('seed', 1)))
    except Exception:
        pass
    return s


def solve(task):
    import z3
    from .pegenc import EncodeError
    from .abnf import AbnfError
    t0 = time.time()
    out = {'top': task['top'], 'n': task['n'], 'mode': task['mode']}
    try:
        alg, acc, rz, rfc, known, info = build(z3, task)
    except (EncodeError, AbnfError) as e:
        out.update(status='encode_error', reason=str(e), wall_s=time.time() - t0)
        return out
    out.update(info)
    out['build_s'] = round(time.time() - t0, 3)
    diff = z3.Xor(acc, rfc)
    queries = []
    mode = task['mode']
    if mode == 'main':
        goal = diff if known is None else z3.And(diff, z3.Not(known))
    elif mode == 'confirm':
        goal = z3.And(diff, known)
    else:
        raise ValueError(mode)
    s = _mk_solver(z3, task)
    side = alg.side_constraints()
    s.add(*side) if side else None
    s.add(goal)
    out['assertions'] = len(s.assertions())
    t1 = time.time()
    r = s.check()
    out['solver_s'] = round(time.time() - t1, 3)
    out['status'] = str(r)
    queries.append({'q': mode, 'result': str(r), 's': out['solver_s']})
    if task.get('cvc5') and str(r) in ('sat', 'unsat'):
        # second opinion: the same assertion exported as SMT-LIB2, decided by the cvc5 command line tool
        path = os.path.join(task['work'], 'q-%s-%s-%d.smt2' % (task['top'], mode, task['n']))
        with open(path, 'w') as f:
            f.write('(set-logic QF_BV)\n' + s.to_smt2())
        t1 = time.time()
        lim = int(max(120, 20 * out['solver_s']))
        try:
            cp = subprocess.run(['cvc5', '--bitblast=eager', '--lang=smt2', path], capture_output=True, text=True, timeout=lim)
            txt = (cp.stdout + cp.stderr).strip()
            res = 'error: ' + txt[:200] if ('(error' in txt or cp.returncode != 0) else txt.split('\n')[0].strip()
        except subprocess.TimeoutExpired:
            res = 'timeout after %ds' % lim
        out['cvc5'] = {'result': res, 's': round(time.time() - t1, 3), 'cmd': 'cvc5 --bitblast=eager --lang=smt2 <exported query>'}
        queries.append({'q': mode + ' (cvc5)', 'result': res, 's': out['cvc5']['s']})
        try:
            os.unlink(path)
        except OSError:
            pass
    if r == z3.sat:
        m = s.model()
        out['witness'] = alg.model_bytes(m, _pick(0))
        out['witness_vals'] = {'peg_accept': z3.is_true(m.eval(acc, model_completion=True)),
                               'peg_raise': z3.is_true(m.eval(rz, model_completion=True)),
                               'rfc': z3.is_true(m.eval(rfc, model_completion=True))}
    elif r == z3.unknown:
        out['reason'] = s.reason_unknown()
    # exclusion soundness: every string of the known language is a disagreement of the known shape
    if mode == 'confirm' and r == z3.sat:
        s2 = _mk_solver(z3, task)
        s2.add(*side) if side else None
        s2.add(z3.And(known, z3.Not(z3.And(z3.Not(acc), rfc))))
        t1 = time.time()
        r2 = s2.check()
        queries.append({'q': 'known-set subset of {PEG rejects, RFC derives}', 'result': str(r2), 's': round(time.time() - t1, 3)})
        out['known_subset_of_defect'] = (r2 == z3.unsat)
    # solver-chosen boundary strings (validation of the encoder against the real parser / recogniser)
    samples = []
    k = task.get('k_samples', 0)
    if k and task['n'] > 0:
        for label, cond in (('peg_accept', acc), ('peg_reject', z3.And(z3.Not(acc), z3.Not(rz))), ('peg_raise', rz),
                            ('rfc_derives', rfc), ('rfc_not', z3.Not(rfc))):
            s3 = _mk_solver(z3, task)
            s3.set('timeout', 20000)
            s3.add(*side) if side else None
            s3.add(cond)
            got = 0
            t1 = time.time()
            while got < k:
                r3 = s3.check()
                if r3 != z3.sat:
                    break
                m = s3.model()
                bs = alg.model_bytes(m, _pick(got + 1))
                samples.append({'class': label, 'bytes': bs,
                                'peg_accept': z3.is_true(m.eval(acc, model_completion=True)),
                                'peg_raise': z3.is_true(m.eval(rz, model_completion=True)),
                                'rfc': z3.is_true(m.eval(rfc, model_completion=True))})
                got += 1
                if not alg.s:
                    break
                s3.add(alg.block(m))
            queries.append({'q': 'sample ' + label, 'result': '%d models' % got, 's': round(time.time() - t1, 3)})
            out.setdefault('class_sat', {})[label] = got > 0
    out['samples'] = samples
    out['queries'] = queries
    out['wall_s'] = round(time.time() - t0, 3)
    return out
