"""ABNF (RFC 5234 + RFC 7405 %s/%i) reader and the derivability encoder.

Terminals are BYTES.  AST node kinds:
    alt(items) cat(items) rep(lo, hi|None, item) ref(name) set(frozenset of byte values) empty()

Derivability `D_X(i, j)` ("node X derives s[i..j)") is built for concrete i <= j <= n by memoised
recursion over (node, i, j) through an algebra (see pegenc.Z3Alg / pegenc.ConcAlg), i.e. as z3 Bool terms
for a symbolic string or as Python bools for a concrete one.
"""
import re


class AbnfError(Exception):
    pass


class Node:
    __slots__ = ('kind', 'items', 'lo', 'hi', 'name', 'set', 'id', 'minlen', 'maxlen')
    _n = 0

    def __init__(self, kind, items=None, lo=None, hi=None, name=None, set_=None):
        self.kind = kind
        self.items = items or []
        self.lo = lo
        self.hi = hi
        self.name = name
        self.set = set_
        Node._n += 1
        self.id = Node._n
        self.minlen = None
        self.maxlen = None

    def __repr__(self):
        if self.kind == 'ref':
            return self.name
        if self.kind == 'set':
            return 'set(%s)' % ','.join('%02x' % c for c in sorted(self.set))
        if self.kind == 'rep':
            return '%s*%s(%r)' % (self.lo, '' if self.hi is None else self.hi, self.items[0])
        return '%s(%s)' % (self.kind, ' '.join(repr(x) for x in self.items))


def _strip_comments(text):
    out = []
    for line in text.split('\n'):
        r = []
        inq = False
        inp = False
        for ch in line:
            if inq:
                r.append(ch)
                if ch == '"':
                    inq = False
            elif inp:
                r.append(ch)
                if ch == '>':
                    inp = False
            elif ch == '"':
                inq = True
                r.append(ch)
            elif ch == '<':
                inp = True
                r.append(ch)
            elif ch == ';':
                break
            else:
                r.append(ch)
        if inq:
            raise AbnfError('unterminated string in line: ' + line)
        out.append(''.join(r).rstrip())
    return out


_TOK = re.compile(r'''\s*(?:
      (?P<name>[A-Za-z][A-Za-z0-9-]*)
    | (?P<cs>%s"[^"]*")
    | (?P<ci>(?:%i)?"[^"]*")
    | (?P<num>%[xdb][0-9A-Fa-f]+(?:-[0-9A-Fa-f]+|(?:\.[0-9A-Fa-f]+)+)?)
    | (?P<prose><[^>]*>)
    | (?P<rep>[0-9]*\*[0-9]*|[0-9]+)
    | (?P<op>=/|[=/()\[\]])
    )''', re.X)


def _tokens(s):
    pos = 0
    toks = []
    s = s.rstrip()
    while pos < len(s):
        m = _TOK.match(s, pos)
        if not m or m.end() == pos:
            raise AbnfError('cannot tokenise at: %r' % s[pos:pos + 30])
        pos = m.end()
        toks.append((m.lastgroup, m.group(m.lastgroup)))
    return toks


class Grammar:
    def __init__(self, text, source='<text>'):
        self.source = source
        self.rules = {}      # lower-case name -> Node
        self.display = {}    # lower-case name -> name as written
        self.order = []
        lines = _strip_comments(text)
        chunks = []
        for ln in lines:
            if not ln.strip():
                continue
            if ln[0] in ' \t':
                if not chunks:
                    raise AbnfError('continuation line before first rule')
                chunks[-1] += ' ' + ln.strip()
            else:
                chunks.append(ln)
        for ch in chunks:
            self._rule(ch)
        self._check_refs()
        self._lengths()

    # ---- parser
    def _rule(self, text):
        toks = _tokens(text)
        if len(toks) < 3 or toks[0][0] != 'name' or toks[1] not in (('op', '='), ('op', '=/')):
            raise AbnfError('bad rule: ' + text)
        name = toks[0][1]
        self._t = toks[2:]
        self._p = 0
        node = self._alt()
        if self._p != len(self._t):
            raise AbnfError('trailing tokens in rule %s: %r' % (name, self._t[self._p:]))
        key = name.lower()
        if toks[1][1] == '=/':
            if key not in self.rules:
                raise AbnfError('=/ for undefined rule ' + name)
            old = self.rules[key]
            self.rules[key] = Node('alt', [old, node])
        else:
            if key in self.rules:
                raise AbnfError('duplicate rule ' + name)
            self.rules[key] = node
            self.display[key] = name
            self.order.append(key)

    def _peek(self):
        return self._t[self._p] if self._p < len(self._t) else (None, None)

    def _alt(self):
        items = [self._cat()]
        while self._peek() == ('op', '/'):
            self._p += 1
            items.append(self._cat())
        return items[0] if len(items) == 1 else Node('alt', items)

    def _cat(self):
        items = []
        while True:
            k, v = self._peek()
            if k is None or (k == 'op' and v in ('/', ')', ']')):
                break
            items.append(self._rep())
        if not items:
            raise AbnfError('empty concatenation')
        return items[0] if len(items) == 1 else Node('cat', items)

    def _rep(self):
        k, v = self._peek()
        lo, hi = 1, 1
        have = False
        if k == 'rep':
            self._p += 1
            have = True
            if '*' in v:
                a, b = v.split('*')
                lo = int(a) if a else 0
                hi = int(b) if b else None
            else:
                lo = hi = int(v)
            if hi is not None and hi < lo:
                raise AbnfError('bad repeat ' + v)
        el = self._element(allow_prose=(have and hi == 0))
        if not have:
            return el
        if hi == 0:
            return Node('empty')
        return Node('rep', [el], lo=lo, hi=hi)

    def _element(self, allow_prose=False):
        k, v = self._peek()
        self._p += 1
        if k == 'name':
            return Node('ref', name=v.lower())
        if k == 'op' and v == '(':
            n = self._alt()
            if self._peek() != ('op', ')'):
                raise AbnfError('missing )')
            self._p += 1
            return n
        if k == 'op' and v == '[':
            n = self._alt()
            if self._peek() != ('op', ']'):
                raise AbnfError('missing ]')
            self._p += 1
            return Node('rep', [n], lo=0, hi=1)
        if k in ('ci', 'cs'):
            sens = (k == 'cs')
            body = v[v.index('"') + 1:-1]
            items = []
            for ch in body:
                c = ord(ch)
                if c < 0x20 or c > 0x7e:
                    raise AbnfError('bad char-val')
                s = {c}
                if not sens and ch.isalpha():
                    s = {ord(ch.lower()), ord(ch.upper())}
                items.append(Node('set', set_=frozenset(s)))
            if not items:
                return Node('empty')
            return items[0] if len(items) == 1 else Node('cat', items)
        if k == 'num':
            base = {'x': 16, 'd': 10, 'b': 2}[v[1]]
            body = v[2:]
            if '-' in body:
                a, b = body.split('-')
                a, b = int(a, base), int(b, base)
                if a > b or b > 0xFF:
                    raise AbnfError('num-val range outside bytes / reversed: ' + v)
                return Node('set', set_=frozenset(range(a, b + 1)))
            vals = [int(x, base) for x in body.split('.')]
            if max(vals) > 0xFF:
                raise AbnfError('num-val above %xFF (terminals are bytes): ' + v)
            items = [Node('set', set_=frozenset([x])) for x in vals]
            return items[0] if len(items) == 1 else Node('cat', items)
        if k == 'prose':
            if allow_prose:
                return Node('empty')
            raise AbnfError('prose-val %s is only supported under a 0 repetition' % v)
        raise AbnfError('unexpected token %r' % (v,))

    # ---- analyses
    def _walk(self, n, f):
        f(n)
        for x in n.items:
            self._walk(x, f)

    def _check_refs(self):
        def chk(n):
            if n.kind == 'ref' and n.name not in self.rules:
                raise AbnfError('undefined rule ' + n.name)
        for r in self.rules.values():
            self._walk(r, chk)

    def _lengths(self):
        """minlen / maxlen (None = unbounded) of every node by fix-point iteration."""
        INF = 10 ** 9
        nodes = []
        for r in self.rules.values():
            self._walk(r, nodes.append)
        for n in nodes:
            n.minlen = INF
            n.maxlen = 0
        rmin = {k: INF for k in self.rules}
        rmax = {k: 0 for k in self.rules}

        def calc(n):
            if n.kind == 'set':
                return 1, 1
            if n.kind == 'empty':
                return 0, 0
            if n.kind == 'ref':
                return rmin[n.name], rmax[n.name]
            if n.kind == 'alt':
                return min(x.minlen for x in n.items), max(x.maxlen for x in n.items)
            if n.kind == 'cat':
                return min(INF, sum(x.minlen for x in n.items)), min(INF, sum(x.maxlen for x in n.items))
            if n.kind == 'rep':
                x = n.items[0]
                lo = min(INF, n.lo * x.minlen)
                hi = INF if (n.hi is None and x.maxlen > 0) else min(INF, (n.hi or 0) * x.maxlen)
                return lo, hi
            raise AbnfError(n.kind)

        changed = True
        rounds = 0
        while changed:
            rounds += 1
            changed = False
            for n in reversed(nodes):
                a, b = calc(n)
                if rounds > 200 and b > n.maxlen:
                    b = INF      # recursive rule: unbounded
                if a != n.minlen or b != n.maxlen:
                    n.minlen, n.maxlen = a, b
                    changed = True
            for k, r in self.rules.items():
                if rmin[k] != r.minlen or rmax[k] != r.maxlen:
                    rmin[k], rmax[k] = r.minlen, r.maxlen
                    changed = True
        for n in nodes:
            if n.minlen >= INF:
                raise AbnfError('rule derives no finite string: %r' % n)

    def reachable(self, start):
        seen = []
        s = set()
        st = [start.lower()]
        while st:
            k = st.pop()
            if k in s:
                continue
            s.add(k)
            seen.append(k)
            self._walk(self.rules[k], lambda n: st.append(n.name) if n.kind == 'ref' else None)
        return seen


class Deriv:
    """D_X(i, j) for a Grammar over an algebra `alg` (provides true/false, and_, or_, byte(k) tests) and a
    concrete length n."""

    def __init__(self, grammar, alg, n):
        self.g = grammar
        self.alg = alg
        self.n = n
        self.memo = {}
        self.busy = set()
        self.cmemo = {}
        self.rmemo = {}
        self.terms = 0

    def rule(self, name, i, j):
        return self.der(self.g.rules[name.lower()], i, j)

    def _fits(self, n, length):
        return n.minlen <= length <= n.maxlen

    def der(self, n, i, j):
        L = j - i
        if L < n.minlen or L > n.maxlen:
            return False
        key = (n.id, i, j)
        if key in self.memo:
            return self.memo[key]
        if key in self.busy:
            raise AbnfError('cyclic derivation %r over the same span (unit/nullable cycle): unsupported' % n)
        self.busy.add(key)
        A = self.alg
        k = n.kind
        if k == 'set':
            r = A.byte_in_set(i, n.set)
        elif k == 'empty':
            r = True
        elif k == 'ref':
            r = self.der(self.g.rules[n.name], i, j)
        elif k == 'alt':
            r = A.or_([self.der(x, i, j) for x in n.items])
        elif k == 'cat':
            r = self._cat(n, 0, i, j)
        elif k == 'rep':
            r = self._reps(n, n.lo, n.hi, i, j)
        else:
            raise AbnfError(k)
        self.busy.discard(key)
        self.memo[key] = r
        self.terms += 1
        return r

    def _cat(self, n, idx, i, j):
        items = n.items
        if idx == len(items) - 1:
            return self.der(items[idx], i, j)
        key = (n.id, idx, i, j)
        if key in self.cmemo:
            return self.cmemo[key]
        A = self.alg
        x = items[idx]
        restmin = sum(y.minlen for y in items[idx + 1:])
        restmax = sum(y.maxlen for y in items[idx + 1:])
        alts = []
        for m in range(i + x.minlen, min(j - restmin, i + x.maxlen) + 1):
            if j - m > restmax:
                continue
            a = self.der(x, i, m)
            if a is False:
                continue
            b = self._cat(n, idx + 1, m, j)
            alts.append(A.and_([a, b]))
        r = A.or_(alts)
        self.cmemo[key] = r
        return r

    def _reps(self, n, lo, hi, i, j):
        """s[i..j) = x_1 ... x_c with lo <= c <= hi (hi None = unbounded), each x_k derived from the item.
        Empty iterations are moved to the end (all iterations derive from the same item)."""
        x = n.items[0]
        if hi is not None and hi == 0:
            return i == j
        if i == j:
            if lo == 0:
                return True
            return self.der(x, i, i)        # lo more iterations, all empty
        key = (n.id, lo, hi, i, j)
        if key in self.rmemo:
            return self.rmemo[key]
        A = self.alg
        alts = []
        nlo = max(lo - 1, 0)
        nhi = None if hi is None else hi - 1
        for m in range(i + max(1, x.minlen), min(j, i + x.maxlen) + 1):
            a = self.der(x, i, m)
            if a is False:
                continue
            b = self._reps(n, nlo, nhi, m, j)
            alts.append(A.and_([a, b]))
        r = A.or_(alts)
        self.rmemo[key] = r
        return r
