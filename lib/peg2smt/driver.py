#!/usr/bin/env python3-vt
"""E2 / peg2smt driver:  python3-vt driver.py <C14|C20> [--tier quick|thorough] [--seed N] [--replay file]

Test knobs (environment): VERIF_REPO (repo root, default /repo), VERIF_KNOWN_FINDINGS (alternative known_findings.json),
PEG2SMT_N (override the length bound of every top rule), PEG2SMT_TIMEOUT (per-query seconds), PEG2SMT_WORKERS (default 4).

exit 0 held | 1 VIOLATION (replay-confirmed difference between the real parser and the RFC grammar)
     | 2 INCONCLUSIVE (unknown rule kind, encoder/validation mismatch, solver timeout/error, solver disagreement)
"""
import argparse
import concurrent.futures
import glob
import hashlib
import json
import os
import re
import shutil
import subprocess
import sys
import tempfile
import time

HERE = os.path.dirname(os.path.abspath(__file__))
VERIF = os.path.dirname(os.path.dirname(HERE))
sys.path.insert(0, os.path.dirname(HERE))

from peg2smt import abnf, extract, pegenc, recogniser, query  # noqa: E402

PROPS = {
    'C14': {
        'includes': ['tao/pegtl/contrib/json.hpp'],
        # (label, C++ rule, ABNF start symbol, relative cost weight, {tier: N})
        'tops': [('text', 'tao::pegtl::json::text', 'JSON-text', 1.0, {'quick': 11, 'thorough': 14})],
        'abnf': 'rfc8259.abnf',
        'growth': 3.0,
        'timeout_s': {'quick': 200, 'thorough': 1500},
        'both_max_n': {'quick': 11, 'thorough': 11},      # n <= this: z3 AND cvc5 must agree; above: cvc5 alone
        'raise_allowed': False,
        'maximum_rule': False,
        'k_samples': {'quick': 4, 'thorough': 8},
    },
    'C20': {
        'includes': ['tao/pegtl/contrib/uri.hpp'],
        'tops': [('URI', 'tao::pegtl::uri::URI', 'URI', 1.2, {'quick': 14, 'thorough': 20}),
                 ('URI_reference', 'tao::pegtl::uri::URI_reference', 'URI-reference', 3.0, {'quick': 14, 'thorough': 19}),
                 ('absolute_URI', 'tao::pegtl::uri::absolute_URI', 'absolute-URI', 1.1, {'quick': 14, 'thorough': 20}),
                 # IPv4address derives nothing longer than 15 bytes, IPv6address nothing longer than 45: N = 16 / 46 covers
                 # every string of the RFC language (plus all non-members up to that length)
                 ('IPv4address', 'tao::pegtl::uri::IPv4address', 'IPv4address', 0.0001, {'quick': 16, 'thorough': 16}),
                 ('IPv6address', 'tao::pegtl::uri::IPv6address', 'IPv6address', 0.002, {'quick': 24, 'thorough': 46}),
                 ('IP_literal', 'tao::pegtl::uri::IP_literal', 'IP-literal', 0.002, {'quick': 24, 'thorough': 48})],
        'abnf': 'rfc3986.abnf',
        'growth': 1.6,
        'timeout_s': {'quick': 200, 'thorough': 1500},
        'both_max_n': {'quick': 12, 'thorough': 12},
        'raise_allowed': True,
        'maximum_rule': True,
        'k_samples': {'quick': 3, 'thorough': 4},
    },
}

MAX_WORKERS = int(os.environ.get('PEG2SMT_WORKERS', '4'))

HAND_JSON = [b'', b' ', b'0', b'-0', b'01', b'-', b'1.', b'1.e1', b'1e', b'1e+', b'1E-2', b'0.5', b'.5', b'[', b']', b'[]', b'[1,]',
             b'[,1]', b'[1 2]', b'{}', b'{"a":1}', b'{"a" :1 }', b'{a:1}', b'{"a"}', b'{"a":}', b'{"a":1,}', b'""', b'"', b'"\\"',
             b'"\\""', b'"\\u"', b'"\\u12"', b'"\\u12G4"', b'"\\u1a2B"', b'"\\x"', b'"\t"', b'"\x1f"', b'"\x7f"', b'"\x80"',
             b'"\xc2\x80"', b'"\xc1\xbf"', b'"\xc2"', b'"\xe0\x9f\xbf"', b'"\xe0\xa0\x80"', b'"\xed\x9f\xbf"', b'"\xed\xa0\x80"',
             b'"\xee\x80\x80"', b'"\xef\xbf\xbf"', b'"\xf0\x8f\xbf\xbf"', b'"\xf0\x90\x80\x80"', b'"\xf4\x8f\xbf\xbf"',
             b'"\xf4\x90\x80\x80"', b'"\xf5\x80\x80\x80"', b'"\xe2\x82"', b'"\xff"', b'true', b'tru', b'truee', b'True', b'null',
             b'false', b'nul', b' null ', b'\tnull\r\n', b'\x0bnull', b'null\x00', b'\xef\xbb\xbf1', b'1 1', b'[[]]', b'[[[[]]]]',
             b'[{}]', b'{"":[]}', b'"a"b', b'"\\/"', b'"\\u0000"', b'"\\uD800"', b'1e01', b'-1.0e-0', b'00', b'0e0', b'0.0', b'+1',
             b'Infinity', b'NaN', b'[1,2', b'{"a":1 "b":2}', b'{"a":1,"a":2}', b"'a'", b'\x00', b'"\x00"']

HAND_URI = [b'', b'a', b'a:', b'a:b', b'1:', b':', b'//', b'///', b'////', b'a://', b'a:///', b'//a', b'//a@b', b'//a:b@c:1', b'//@',
            b'//:', b'//:80', b'//a:', b'//a:x', b'//[', b'//[]', b'//[::]', b'//[::1]', b'//[v1.a]', b'//[V1.a]', b'//[v.a]',
            b'//[v1.]', b'//[vg.a]', b'//[::1', b'//[1.2.3.4]', b'//1.2.3.4', b'//1.2.3.4:8', b'//1.2.3.4/', b'//1.2.3.4a',
            b'//1.2.3.256', b'//1.2.3.2555', b'//1.2.3.04', b'//1.2.3', b'//1.2.3.4.5', b'//1.2.3.4.', b'//1.2.3.4-', b'//1.2.3.4%41',
            b'//x@1.2.3.4a', b'//1.2.3.4a@b', b'a://1.2.3.4a', b'a://1.2.3.4', b'%', b'%4', b'%41', b'%4g', b'a%41', b'a:%41',
            b'a:%4', b'/', b'/a', b'/a/b', b'/:', b'a/b', b'a:b/c', b'./a:b', b'a/:b', b':a', b'?', b'#', b'?#', b'#?', b'##', b'a?b#c',
            b'a#b?c', b'a#b#c', b'a:?', b'a:#', b'a:?#', b'a:/', b'a://b?c#d', b'a+-.1:', b'a_:', b'A:', b'1a:', b'a b', b'a\x00',
            b'\xc3\xa9', b'a:[', b'a:]', b'[', b'a@b', b'@', b'a:@', b'//a@b@c', b'//a/b@c', b'~', b'a:~!$&\'()*+,;=', b'<', b'"', b'\\',
            b'^', b'`', b'{', b'|', b'}', b'0.0.0.0', b'255.255.255.255', b'256.0.0.0', b'1.2.3.4', b'01.2.3.4', b'1.2.3.04',
            b'1.2.3.', b'1.2.3', b'1.2.3.4.', b'1..2.3', b'9.99.199.249', b'250.255.25.2', b'260.1.1.1', b'1.2.3.4a', b'1.2.3.1000',
            b'::', b'::1', b'1::', b':::', b'1::2', b'::1:2:3:4:5:6:7', b'::1:2:3:4:5:6:7:8', b'1:2:3:4:5:6:7:8', b'1:2:3:4:5:6:7',
            b'1:2:3:4:5:6:7:8:9', b'1:2:3:4:5:6:7::', b'1:2:3:4:5:6::7', b'1:2:3:4:5:6::', b'1::2:3:4:5:6:7', b'1:2::3:4:5:6:7',
            b'::1.2.3.4', b'::ffff:1.2.3.4', b'1:2:3:4:5:6:1.2.3.4', b'1:2:3:4:5:6:7:1.2.3.4', b'1:2:3:4:5::1.2.3.4',
            b'1::1.2.3.4', b'12345::', b'::12345', b'::g', b'ABCD::abcd', b'1:2:3:4:5:6:7:', b':1:2:3:4:5:6:7:8', b'1:::2', b'::1.2.3',
            b'::1.2.3.4.5', b'::1.2.3.256', b'a::b::c', b'1:2:3:4::5:6:7', b'1:2:3::4:5:6:7', b'1:2:3:4:5::6:7', b'::2:3:4:5:6:7:8',
            b'0:0:0:0:0:0:0:0', b'::0.0.0.0', b'1:2:3:4:5:6:7::8', b'::1:2:3:4:5:1.2.3.4', b'::1:2:3:4:5:6:1.2.3.4']


def sha(b):
    return hashlib.sha256(bytes(b)).hexdigest()[:10]


def c_literals(path):
    """string literals of verify_rule< ... >( ..., "lit", ... ) lines in a PEGTL unit test"""
    out = []
    try:
        text = open(path, encoding='latin-1').read()
    except OSError:
        return out
    for m in re.finditer(r'__FILE__,\s*"((?:[^"\\]|\\.)*)"', text):
        lit = m.group(1)
        if '\\U' in lit or '\\u' in lit.replace('\\\\u', ''):
            continue
        b = bytearray()
        i = 0
        ok = True
        while i < len(lit):
            c = lit[i]
            if c != '\\':
                b.append(ord(c))
                i += 1
                continue
            e = lit[i + 1]
            if e == 'x':
                m2 = re.match(r'[0-9A-Fa-f]+', lit[i + 2:])
                b.append(int(m2.group(0), 16) & 0xFF)
                i += 2 + len(m2.group(0))
            elif e in 'ntrbf0':
                b.append({'n': 10, 't': 9, 'r': 13, 'b': 8, 'f': 12, '0': 0}[e])
                i += 2
            elif e in '"\\\'/?':
                b.append(ord(e))
                i += 2
            else:
                ok = False
                break
        if ok:
            out.append(bytes(b))
    return out


class Run:
    def __init__(self, prop, tier, seed):
        self.prop = prop
        self.cfg = PROPS[prop]
        self.tier = tier
        self.seed = seed
        self.t0 = time.time()
        self.work = tempfile.mkdtemp(prefix='peg2smt-%s-' % prop)
        self.Ntop = {t[0]: (int(os.environ['PEG2SMT_N']) if os.environ.get('PEG2SMT_N') else t[4][tier]) for t in self.cfg['tops']}
        self.N = max(self.Ntop.values())
        self.Nmin = min(self.Ntop.values())
        self.ev = {'rules': None}
        self.notes = []
        self.violations = []
        self.inconclusive = []
        self.known_lines = []
        self.results = []
        self.validation = {'peg_vs_real': 0, 'rfc_vs_recogniser': 0, 'solver_samples': 0, 'mismatches': []}
        self.samples_out = []

    # ------------------------------------------------------------------ setup
    def setup(self):
        cfg = self.cfg
        tops = [(t[0], t[1]) for t in cfg['tops']]
        self.tinfo, self.rules, self.dump_cmd, raw = extract.dump_grammar(cfg['includes'], tops, self.work, cfg['maximum_rule'])
        self.dump_sha = hashlib.sha256(raw.encode()).hexdigest()[:16]
        self.runner = extract.Runner(cfg['includes'], tops, self.work)
        self.abnf_path = os.path.join(VERIF, 'spec', cfg['abnf'])
        self.abnf_text = open(self.abnf_path).read()
        self.known = self.load_known()
        ext = '\n'.join(self.known['exclude']['rules']) if self.known else ''
        self.abnf_ext = ext
        self.grammar = abnf.Grammar(self.abnf_text + '\n' + ext, self.abnf_path)
        self.recog = recogniser.Recogniser(self.grammar)
        self.names = {}
        for l in [t[0] for t in cfg['tops']]:
            self.names[l] = extract.reachable(self.rules, self.tinfo[l]['root'])
        allnames = sorted(set(x for v in self.names.values() for x in v))
        self.allnames = allnames
        probs = pegenc.structural_problems(self.rules, allnames)
        for p in probs:
            self.inconclusive.append(p)
        kinds = {}
        for nme in allnames:
            kinds[self.rules[nme]['kind']] = kinds.get(self.rules[nme]['kind'], 0) + 1
        self.kinds = kinds
        raising = [nme for nme in allnames if self.rules[nme]['kind'] in pegenc.RAISING_KINDS]
        self.raising = raising
        # the grammar could throw: "never throws" is then not a structural fact; every main task then also asks the solver for a string
        # on which a raising rule is reached (sat -> replayed on the real parser -> violation; unsat for every n <= N -> unreachable within the bound)
        self.raise_query = bool(raising and not cfg['raise_allowed'])
        if self.raise_query:
            self.notes.append('grammar contains raising rules although the property demands it never throws (%s): reachability of a raise is decided by the solver for every length' % raising[:3])

    def load_known(self):
        path = os.environ.get('VERIF_KNOWN_FINDINGS', os.path.join(VERIF, 'known_findings.json'))
        self.known_path = path
        try:
            data = json.load(open(path))
        except (OSError, ValueError):
            return None
        for f in data.get('findings', []):
            if f.get('property') == self.prop and f.get('status') == 'known' and isinstance(f.get('exclude'), dict) \
                    and f['exclude'].get('kind') == 'abnf-language':
                return f
        return None

    # ------------------------------------------------------------------ concrete evaluation / replay
    def eval_concrete(self, top, data):
        start = [t[2] for t in self.cfg['tops'] if t[0] == top][0]
        alg = pegenc.ConcAlg(data)
        pe = pegenc.PegEnc(self.rules, alg, len(data))
        acc, rz = pe.accepts(self.tinfo[top]['root'])
        dv = abnf.Deriv(self.grammar, alg, len(data))
        rfc = dv.rule(start, 0, len(data))
        return ('accept' if acc else 'parse_error' if rz else 'reject'), bool(rfc)

    def check_exception(self, top, data, rv):
        """C14: never throws; C20: nothing but the must<>-raised parse_error"""
        ok = ('accept', 'reject', 'parse_error') if self.cfg['raise_allowed'] else ('accept', 'reject')
        if rv not in ok and not any(v['bytes'] == list(data) and v['top'] == top for v in self.violations):
            start = [t[2] for t in self.cfg['tops'] if t[0] == top][0]
            self.violations.append({'property': self.prop, 'top': top, 'bytes': list(data), 'string': repr(bytes(data))[2:-1], 'real': rv,
                                    'rfc_derives': self.recog.accepts(start, data), 'kind': 'exception not permitted by the property', 'n': len(data), 'mode': 'validation'})

    def real_and_rfc(self, items):
        """items: [(top, bytes)] -> [(real verdict, rfc bool by the independent recogniser)]"""
        real = self.runner.run(items)
        out = []
        for (top, data), rv in zip(items, real):
            start = [t[2] for t in self.cfg['tops'] if t[0] == top][0]
            self.check_exception(top, data, rv)
            out.append((rv, self.recog.accepts(start, data)))
        return out

    def corpus(self):
        repo = extract.repo_root()
        strs = []
        if self.prop == 'C14':
            strs += HAND_JSON
            strs += c_literals(os.path.join(repo, 'src/test/pegtl/contrib_json.cpp'))
            for p in sorted(glob.glob(os.path.join(repo, 'src/test/pegtl/data/*.json'))):
                try:
                    b = open(p, 'rb').read()
                except OSError:
                    continue
                for L in (len(b), len(b.rstrip()), 6, 8, 10, 12, 16, 24, 40):
                    if L <= 40:
                        strs.append(b[:L])
        else:
            strs += HAND_URI
            lits = c_literals(os.path.join(repo, 'src/test/pegtl/contrib_uri.cpp'))
            for b in lits:
                strs.append(b[:60])
                for L in (8, 10, 12, 14, 16, 20, 24, 32):
                    strs.append(b[:L])
        seen = set()
        out = []
        for b in strs:
            if b not in seen:
                seen.add(b)
                out.append(b)
        return out

    def validate_corpus(self):
        strs = self.corpus()
        items = [(t[0], b) for t in self.cfg['tops'] for b in strs]
        truth = self.real_and_rfc(items)
        for (top, b), (rv, rf) in zip(items, truth):
            try:
                pv, ef = self.eval_concrete(top, b)
            except (pegenc.EncodeError, abnf.AbnfError) as e:
                self.inconclusive.append('encoder error on concrete string: %s' % e)
                return
            self.validation['peg_vs_real'] += 1
            self.validation['rfc_vs_recogniser'] += 1
            if pv != rv:
                self.validation['mismatches'].append({'side': 'peg', 'top': top, 'bytes': list(b), 'encoder': pv, 'real': rv})
            if ef != rf:
                self.validation['mismatches'].append({'side': 'rfc', 'top': top, 'bytes': list(b), 'encoder': ef, 'recogniser': rf})
        self.validation['corpus_strings'] = len(strs)

    # ------------------------------------------------------------------ solver queries
    def tasks(self):
        cfg = self.cfg
        ts = []
        both = cfg['both_max_n'][self.tier]
        for l, _, start, weight, _ in cfg['tops']:
            rules = {k: self.rules[k] for k in self.names[l]}
            kstart = self.known['exclude']['start'].get(l) if self.known else None
            for n in range(0, self.Ntop[l] + 1):
                engines = ['z3', 'cvc5'] if n <= both else ['cvc5']
                base = dict(top=l, n=n, rules=rules, root=self.tinfo[l]['root'], abnf_text=self.abnf_text, abnf_ext=self.abnf_ext,
                            start=start, known_start=kstart, timeout_s=float(os.environ.get('PEG2SMT_TIMEOUT', cfg['timeout_s'][self.tier])), seed=self.seed,
                            k_samples=cfg['k_samples'][self.tier], engines=engines, work=self.work,
                            cost=weight * cfg['growth'] ** n)
                ts.append(dict(base, mode='main', raise_goal=self.raise_query))
                if kstart:
                    ts.append(dict(base, mode='confirm', k_samples=0, engines=['z3'] if n <= both else ['cvc5'], cost=base['cost'] / 50))
        ts.sort(key=lambda t: -t['cost'])
        return ts

    def run_queries(self):
        ts = self.tasks()
        with concurrent.futures.ProcessPoolExecutor(max_workers=MAX_WORKERS) as ex:
            for r in ex.map(run_task, ts):
                self.results.append(r)
        self.results.sort(key=lambda r: (r['top'], r['mode'], r['n']))

    def analyse(self):
        confirm_hit = {}
        for r in self.results:
            tag = '%s/%s/n=%d' % (r['top'], r['mode'], r['n'])
            st = r['status']
            if st == 'encode_error':
                self.inconclusive.append('%s: %s' % (tag, r['reason']))
                continue
            if st not in ('sat', 'unsat'):
                self.inconclusive.append('%s: no verdict: %s (%s)' % (tag, st, r.get('reason')))
                continue
            # solver-chosen strings: validate both encodings on them
            if r.get('samples'):
                items = [(r['top'], bytes(s['bytes'])) for s in r['samples']]
                truth = self.real_and_rfc(items)
                for s, (rv, rf) in zip(r['samples'], truth):
                    pv = 'accept' if s['peg_accept'] else 'parse_error' if s['peg_raise'] else 'reject'
                    self.validation['solver_samples'] += 1
                    if pv != rv:
                        self.validation['mismatches'].append({'side': 'peg(z3 model)', 'top': r['top'], 'bytes': s['bytes'], 'encoder': pv, 'real': rv})
                    if s['rfc'] != rf:
                        self.validation['mismatches'].append({'side': 'rfc(z3 model)', 'top': r['top'], 'bytes': s['bytes'], 'encoder': s['rfc'], 'recogniser': rf})
                    if len(self.samples_out) < 40 and s['class'] in ('peg_accept', 'peg_raise'):
                        self.samples_out.append({'top': r['top'], 'n': r['n'], 'class': s['class'], 'string': repr(bytes(s['bytes']))[2:-1], 'real': rv, 'rfc_derives': rf})
            if r.get('raise_status') not in (None, 'sat', 'unsat'):
                self.inconclusive.append('%s: no verdict on the reachability of a raising rule: %s' % (tag, r.get('raise_status')))
            if r.get('raise_status') == 'sat':
                w = bytes(r['raise_witness'])
                nv = len(self.violations)
                (rv, rf), = self.real_and_rfc([(r['top'], w)])      # check_exception() records the violation if the real parser throws
                if rv in ('accept', 'reject'):
                    self.inconclusive.append('%s: solver witness %r for a reachable raise not reproduced (real=%s): encoder bug' % (tag, w, rv))
                elif len(self.violations) > nv:
                    self.violations[-1]['mode'] = 'solver (raise reachable)'
            if st == 'sat':
                w = bytes(r['witness'])
                (rv, rf), = self.real_and_rfc([(r['top'], w)])
                real_acc = (rv == 'accept')
                rec = {'property': self.prop, 'top': r['top'], 'bytes': list(w), 'string': repr(w)[2:-1], 'real': rv, 'rfc_derives': rf,
                       'encoder': r['witness_vals'], 'n': r['n'], 'mode': r['mode']}
                if real_acc != rf:
                    if r['mode'] == 'confirm':
                        confirm_hit.setdefault(r['top'], rec)
                        if r.get('known_subset_of_defect') is False:
                            self.notes.append('%s: the known-finding language contains strings that are NOT of the known shape (PEG rejects, RFC derives)' % tag)
                    else:
                        self.violations.append(rec)
                else:
                    self.inconclusive.append('%s: solver witness %r not reproduced (real=%s, rfc=%s, encoder=%s): encoder bug' % (tag, w, rv, rf, r['witness_vals']))
        if self.validation['mismatches']:
            m = self.validation['mismatches'][0]
            self.inconclusive.append('encoder validation mismatch (%d), first: %s' % (len(self.validation['mismatches']), json.dumps(m)))
        self.confirm_hit = confirm_hit
        if self.known and confirm_hit:
            self.known_lines.append('KNOWN-FINDING: property=%s %s' % (self.prop, self.known['what']))

    # ------------------------------------------------------------------ output
    def write_replay(self, rec):
        os.makedirs(os.path.join(VERIF, 'replays'), exist_ok=True)
        path = os.path.join(VERIF, 'replays', '%s-%s-%s.json' % (self.prop, rec['top'], sha(rec['bytes'])))
        with open(path, 'w') as f:
            json.dump(rec, f, indent=1)
        return path

    def evidence(self, code):
        cfg = self.cfg
        res = self.results
        decided = [r for r in res if r['status'] in ('sat', 'unsat')]
        main = [r for r in res if r['mode'] == 'main']
        nontriv = [r for r in main if r['status'] in ('sat', 'unsat') and r.get('class_sat', {}).get('peg_accept') and
                   (r.get('class_sat', {}).get('peg_reject') or r.get('class_sat', {}).get('peg_raise'))]
        nq = sum(len(r.get('queries', [])) for r in res)
        solver_s = round(sum(q['s'] for r in res for q in r.get('queries', [])), 2)
        obligations = sum(max(1, len(r.get('engines', {}))) for r in res)
        discharged = 0
        for r in res:
            for e, v in r.get('engines', {}).items():
                if (r['mode'] == 'main' and v['result'] == 'unsat') or (r['mode'] == 'confirm' and v['result'] in ('sat', 'unsat')):
                    discharged += 1
        per_query = [{'top': r['top'], 'mode': r['mode'], 'n': r['n'], 'status': r['status'], 'engines': r.get('engines'),
                      'bool_nodes_built': r.get('bool_nodes'), 'formula_dag_nodes': r.get('formula_dag_nodes'),
                      'peg_table_entries': r.get('peg_table_entries'), 'rfc_table_entries': r.get('rfc_table_entries'),
                      'assertions': r.get('assertions'), 'classes_satisfiable': r.get('class_sat'),
                      **({'known_subset_of_defect': r['known_subset_of_defect']} if 'known_subset_of_defect' in r else {}),
                      **({'witness': repr(bytes(r['witness']))[2:-1]} if 'witness' in r else {})} for r in res]
        self.samples_out.sort(key=lambda s: (-s['n'], s['top']))
        samples = list(self.samples_out[:10])
        for v in self.violations[:5]:
            samples.append({'VIOLATION': v})
        for t, rec in sorted(getattr(self, 'confirm_hit', {}).items()):
            samples.append({'known_finding_witness': {'top': t, 'string': rec['string'], 'real': rec['real'], 'rfc_derives': rec['rfc_derives']}})
        if not samples:
            samples.append({'note': 'no solver samples (run stopped early)', 'inconclusive': self.inconclusive[:3]})
        cov = {
            'evaluations': nq + self.validation['peg_vs_real'] + self.validation['rfc_vs_recogniser'] + self.validation['solver_samples'],
            'distinct_nontrivial': len(nontriv),
            'rule': 'one evaluation = one SMT query (language-difference query, known-finding confirmation, or a solver sample query) or one '
                    'validation comparison of an encoder valuation with the real parser / the independent recogniser. A main query '
                    '(top rule, length n) counts as distinct and non-trivial only if it was decided AND in the same run the solver produced '
                    'both a string of that length that the PEG encoding accepts and one that it rejects/raises on (so neither side of the '
                    'equivalence is vacuous at that length).',
            'samples': samples,
            'obligations': obligations,
            'discharged': discharged,
            'checker_cmd': 'python3-vt %s %s --tier %s --seed %d  [n <= %d: z3 %s python API SolverFor(QF_BV) AND cvc5 --bitblast=eager on the SMT-LIB2 export, both must agree; n > %d: cvc5 alone]' % (
                os.path.relpath(__file__, VERIF), self.prop, self.tier, self.seed, cfg['both_max_n'][self.tier], z3_version(), cfg['both_max_n'][self.tier]),
            'trusted_base': ['z3 %s' % z3_version(), cvc5_version(), 'g++ (dumper and replay runner only)',
                             'spec/%s (hand transcription of the RFC ABNF)' % cfg['abnf'], 'lib/peg2smt/pegenc.py combinator and atom semantics',
                             'lib/peg2smt/abnf.py derivability encoder (validated per run against lib/peg2smt/recogniser.py)',
                             'PEGTL meta data rule_t/subs_t describing the rule that is actually matched'],
            'functions_encoded': self.allnames if hasattr(self, 'allnames') else [],
            'solver_time_s': solver_s,
            'bounds': {'N_bytes': self.N, 'alphabet': 'all 256 byte values, symbolic', 'lengths': 'every n in 0..N as a separate query (n concrete, bytes symbolic)',
                       'N_per_top': self.Ntop, 'per_query_timeout_s': cfg['timeout_s'][self.tier]},
            'explanation': 'Bounded language equality, decided by SMT: the rule structure of the shipped grammar is extracted from the real headers '
                           '(rule_t/subs_t walk, compiled on this run), encoded as the packrat table R_e(i) over a symbolic byte string of length n, '
                           'and compared with CYK-style derivability D_A(i,j) of the RFC ABNF start symbol; for every top rule and every n <= N the query '
                           '"exists s: PEG accepts s xor RFC derives s" must be unsat (global failure = rejection). A sat answer is replayed on the real '
                           'compiled parser and on an independent ABNF recogniser and only reported if they really disagree.',
            'rules_extracted': len(self.rules) if self.rules else 0,
            'rule_kinds': getattr(self, 'kinds', {}),
            'raising_rules': getattr(self, 'raising', []),
            'dump_sha256_16': getattr(self, 'dump_sha', None),
            'dump_cmd': getattr(self, 'dump_cmd', None),
            'abnf_rules': len(self.grammar.rules) if hasattr(self, 'grammar') else 0,
            'queries': per_query,
            'smt_queries_total': nq,
            'validation': {k: v for k, v in self.validation.items() if k != 'mismatches'},
            'validation_mismatches': self.validation['mismatches'][:10],
            'known_findings_excluded': ([{'id': self.known['id'], 'exclude': self.known['exclude'], 'confirmed_on': sorted(getattr(self, 'confirm_hit', {}))}]
                                        if self.known else []),
            'known_findings_file': getattr(self, 'known_path', None),
            'notes': self.notes,
            'inconclusive_reasons': self.inconclusive[:20],
            'exit_code': code,
        }
        ev = {
            'property_id': self.prop, 'tier': self.tier, 'seed': self.seed, 'level': 'model_checking', 'coverage': cov,
            'assumptions': [
                'the ABNF in spec/%s is an exact transcription of the RFC (trusted)%s' % (cfg['abnf'], '; %x5D-10FFFF is written as its UTF-8 encodings per RFC 3629' if self.prop == 'C14' else ''),
                'the PEGTL combinators behave as specified in lib/peg2smt/pegenc.py (the PEG semantics of doc/Rule-Reference.md; the CBMC engine proves the same specification for the real combinators in C01/C09)',
                'atom semantics (one/range/ranges/string/any/eof over peek_char, utf8::range via Unicode Table 3-7, integer maximum_rule as maximal digit run with value <= max) are as written in pegenc.py (real atoms are checked against byte-level specs by C10/C15)',
                'the end of the input ends the digit run of integer maximum_rule (the over-read of one byte past the end, defect D3 / property C03, is not modelled; the replay runner parses an exactly sized std::string whose terminator is NUL, so both variants behave alike there)',
                'Rule::rule_t / Rule::subs_t describe the match() that is actually run (checked: every rule derives from its rule_t)',
                'input length bound per top rule: %s bytes; longer inputs are outside the claim' % json.dumps(self.Ntop),
                'default action/control (no actions, normal control): raise = parse_error from must<>',
            ],
            'wall_s': round(time.time() - self.t0, 2),
            'violations': len(self.violations),
        }
        os.makedirs(os.path.join(VERIF, 'evidence'), exist_ok=True)
        with open(os.path.join(VERIF, 'evidence', self.prop + '.json'), 'w') as f:
            json.dump(ev, f, indent=1)

    def finish(self):
        if self.violations:
            code = 1
        elif self.inconclusive:
            code = 2
        else:
            code = 0
        self.evidence(code)
        for ln in self.known_lines:
            print(ln)
        if code == 1:
            seen = set()
            for v in sorted(self.violations, key=lambda v: (len(v['bytes']), v['top'])):
                if v['top'] in seen:
                    continue
                seen.add(v['top'])
                path = self.write_replay(v)
                print('VIOLATION property=%s replay=%s' % (self.prop, path))
                print('  top=%s input=%r real=%s rfc_derives=%s' % (v['top'], bytes(v['bytes']), v['real'], v['rfc_derives']))
        elif code == 2:
            print('INCONCLUSIVE property=%s reason=%s' % (self.prop, self.inconclusive[0].replace('\n', ' ')[:400]))
        else:
            nq = len(self.results)
            print('HELD property=%s N<=%d queries=%d rules=%d wall=%.0fs' % (self.prop, self.N, nq, len(getattr(self, 'allnames', [])), time.time() - self.t0))
        return code


def cvc5_version():
    try:
        return subprocess.run(['cvc5', '--version'], capture_output=True, text=True).stdout.split('\n')[0].strip()
    except Exception:
        return 'cvc5 ?'


def z3_version():
    try:
        import z3
        return z3.get_version_string()
    except Exception:
        return '?'


def run_task(task):
    r = query.solve(task)
    return r


def replay(prop, path):
    rec = json.load(open(path))
    run = Run(prop, 'quick', 1)
    try:
        run.setup()
        data = bytes(rec['bytes'])
        (rv, rf), = run.real_and_rfc([(rec['top'], data)])
        print('REPLAY property=%s top=%s input=%r' % (prop, rec['top'], data))
        print('  real parser (parse< seq< %s, eof > >): %s      [recorded: %s]' % (rec['top'], rv, rec.get('real')))
        print('  RFC grammar derives it: %s      [recorded: %s]' % (rf, rec.get('rfc_derives')))
        agree = ((rv == 'accept') == rf) and rv in ('accept', 'reject', 'parse_error')
        print('  => %s' % ('agreement (not reproduced)' if agree else 'DISAGREEMENT reproduced'))
        return 0 if agree else 1
    finally:
        shutil.rmtree(run.work, ignore_errors=True)


def main(argv=None):
    ap = argparse.ArgumentParser()
    ap.add_argument('prop', choices=sorted(PROPS))
    ap.add_argument('--tier', default='quick', choices=['quick', 'thorough'])
    ap.add_argument('--seed', type=int, default=1)
    ap.add_argument('--replay')
    a = ap.parse_args(argv)
    if a.replay:
        return replay(a.prop, a.replay)
    run = Run(a.prop, a.tier, a.seed)
    try:
        try:
            run.setup()
        except (extract.ExtractError, abnf.AbnfError, OSError) as e:
            run.inconclusive.append('setup failed: %s' % str(e)[:500])
            return run.finish()
        if not run.inconclusive:
            run.validate_corpus()
        if not run.inconclusive and not run.validation['mismatches']:
            run.run_queries()
        run.analyse()
        return run.finish()
    finally:
        shutil.rmtree(run.work, ignore_errors=True)


if __name__ == '__main__':
    sys.exit(main())
