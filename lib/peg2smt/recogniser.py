"""Independent plain-Python recogniser for an ABNF grammar (abnf.Grammar AST): a straightforward
backtracking matcher computing, for a node and a start position, the SET of all end positions.
It shares nothing with the derivability encoder in abnf.Deriv except the parsed grammar.
Used to confirm counterexamples and to validate the RFC-side encoding."""


class Recogniser:
    def __init__(self, grammar):
        self.g = grammar

    def accepts(self, start, data):
        data = bytes(data)
        self.data = data
        self.memo = {}
        self.active = set()
        return len(data) in self._m(self.g.rules[start.lower()], 0)

    def _m(self, n, i):
        key = (n.id, i)
        if key in self.memo:
            return self.memo[key]
        if key in self.active:
            raise RuntimeError('left-recursive ABNF rule: %r' % n)
        self.active.add(key)
        k = n.kind
        d = self.data
        if k == 'set':
            r = frozenset([i + 1]) if i < len(d) and d[i] in n.set else frozenset()
        elif k == 'empty':
            r = frozenset([i])
        elif k == 'ref':
            r = self._m(self.g.rules[n.name], i)
        elif k == 'alt':
            r = frozenset().union(*[self._m(x, i) for x in n.items])
        elif k == 'cat':
            cur = {i}
            for x in n.items:
                nxt = set()
                for p in cur:
                    nxt |= self._m(x, p)
                cur = nxt
                if not cur:
                    break
            r = frozenset(cur)
        elif k == 'rep':
            x = n.items[0]
            # cur = positions reachable after exactly c iterations; out = those with lo <= c <= hi;
            # for an unbounded repetition stop when an iteration adds no new end position (closure reached)
            out = set()
            cur = {i}
            c = 0
            if n.lo == 0:
                out |= cur
            while cur and (n.hi is None or c < n.hi):
                nxt = set()
                for p in cur:
                    nxt |= self._m(x, p)
                c += 1
                cur = nxt
                if c >= n.lo:
                    new = cur - out
                    out |= cur
                    if n.hi is None and not new:
                        break
            r = frozenset(out)
        else:
            raise RuntimeError(k)
        self.active.discard(key)
        self.memo[key] = r
        return r
