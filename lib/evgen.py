"""evgen — reference semantics WITH the observable protocol: control hooks, action calls, apply modes.

For a grammar over identified rules (`sym<k>`, `named< ID, ... >`) the generated C evaluates the PEG
semantics and, while doing so, appends the events the library is specified to produce to a reference
log; the harness compares it with the log the real code produced (same order, same arguments):

  START(rule, byte)  ... nested frames ...  [APPLY(rule, begin, end) | APPLY0(rule)]  SUCCESS(rule, byte) | FAILURE(rule) | UNWIND(rule)
  SYM(k, pos, apply_mode)      the symbolic sub-rule was really asked to match (with which apply mode)
  RAISE(rule, byte)            Control< rule >::raise called by must<>/raise<>

Spec functions have the signature  out_t f(u64 p, int a)  with a = actions enabled.
"""
import pegspec
from pegspec import E, parse, ival

EV = {'START': 1, 'SUCCESS': 2, 'FAILURE': 3, 'UNWIND': 4, 'RAISE': 5, 'APPLY': 6, 'APPLY0': 7, 'SYM': 11}


def rid(e):
    if e.name == 'sym':
        return ival(e.args[0])
    if e.name == 'named':
        return 100 + ival(e.args[0])
    return -1


class EvGen:
    """action: None | 'void' | 'bool' | 'void0' | 'bool0';  unwind: control has unwind();
    action_unwind: whether an exception thrown by a rule's own action is reported as unwind of that rule."""

    def __init__(s, doc, action=None, unwind=True, action_unwind=True, rof=(), statectl=False):
        s.doc = doc
        s.action = action
        s.unwind = unwind
        s.action_unwind = action_unwind
        s.statectl = statectl   # contrib/state_control: a state object sees every hook (ids 200+r), in the documented order
        s.rof = set(rof)   # rule ids whose control raises on local failure (must_if)
        s.fns = {}
        s.order = []

    def fn(s, e):
        k = repr(e)
        if k in s.fns:
            return s.fns[k]
        name = 'v%d' % len(s.fns)
        s.fns[k] = name
        body = s.body(e)
        s.order.append('/* %s */\nstatic out_t %s(u64 p, int a) {\n%s\n}\n' % (k, name, body))
        return name

    def hook(s, kind, r, a='0', first='control'):
        """one control hook; with state_control also the state's hook (start: control first; all others: state first)"""
        c = 'sv(%d, %d, %s, 0);' % (EV[kind], r, a)
        if not s.statectl:
            return c
        st = 'sv(%d, %d, %s, 0);' % (EV[kind], 200 + r, a)
        return (c + ' ' + st) if first == 'control' else (st + ' ' + c)

    def frame(s, e, body_call):
        """identified rule: hooks + action around the body"""
        r = rid(e)
        L = ['  ' + s.hook('START', r, 'p', 'control')]
        L.append('  out_t b = %s;' % body_call)
        unw = '  if (b.r >= 2) { %sreturn b; }' % ((s.hook('UNWIND', r, '0', 'state') + ' ') if s.unwind else '')
        L.append(unw)
        L.append('  int ok = (b.r == 1);')
        if s.action:
            L.append('  if (ok && a) {')
            if s.action in ('void', 'bool'):
                if s.statectl:
                    L.append('    sv(%d, %d, 0, 0);' % (EV['APPLY'], 200 + r))
                L.append('    sv(%d, %d, p, b.pos);' % (EV['APPLY'], r))
                vb, ve = 'p', 'b.pos'
            else:
                if s.statectl:
                    L.append('    sv(%d, %d, 0, 0);' % (EV['APPLY0'], 200 + r))
                L.append('    sv(%d, %d, 0, 0);' % (EV['APPLY0'], r))
                vb, ve = '0', '0'
            L.append('    int v = sp_veto(%d, %s, %s);' % (r, vb, ve))
            au = (s.hook('UNWIND', r, '0', 'state') + ' ') if (s.unwind and s.action_unwind) else ''
            L.append('    if (v == 2) { %sout_t x = { 3, p, %d, p, b.far }; return x; }   /* the action throws */' % (au, 3000 + r))
            if s.action in ('bool', 'bool0'):
                L.append('    if (v == 0) ok = 0;')
            L.append('  }')
        L.append('  if (ok) { %s return b; }' % s.hook('SUCCESS', r, 'b.pos', 'state'))
        if r in s.rof:
            L.append('  sv(%d, %d, 0, 0); { out_t x = { 2, p, %d, p, b.far }; return x; }' % (EV['RAISE'], r, r))
        else:
            L.append('  %s return sp_fail(p, b.far);' % s.hook('FAILURE', r, '0', 'state'))
        return '\n'.join(L)

    def body(s, e):
        n, a = e.name, e.args
        if n == 'sym':
            k = ival(a[0])
            inner = 'sp_sym_logged(%d, p, a)' % k
            return s.frame(e, inner)
        if n == 'named':
            inner = s.fn(E('seq', a[1:]))
            return s.frame(e, '%s(p, a)' % inner)
        if n == 'success':
            return '  return sp_succ(p, p);'
        if n == 'failure':
            return '  return sp_fail(p, p);'
        if n == 'eof':
            return '  return p == sp_n ? sp_succ(p, p) : sp_fail(p, p);'
        if n == 'raise':
            st = ('sv(%d, %d, 0, 0); ' % (EV['RAISE'], 200 + rid(a[0]))) if s.statectl and rid(a[0]) >= 0 else ''
            return '  %ssv(%d, %d, 0, 0); { out_t o = { 2, p, %d, p, p }; return o; }' % (st, EV['RAISE'], rid(a[0]), rid(a[0]))
        if n == 'seq':
            if not a:
                return '  return sp_succ(p, p);'
            L = ['  u64 q = p, far = p; out_t x;']
            for y in a:
                L.append('  x = %s(q, a); if (x.far > far) far = x.far; if (x.r != 1) { if (x.r == 0) return sp_fail(p, far); return x; } q = x.pos;' % s.fn(y))
            L.append('  return sp_succ(q, far);')
            return '\n'.join(L)
        if n == 'sor':
            if not a:
                return '  return sp_fail(p, p);'
            L = ['  u64 far = p; out_t x;']
            for y in a:
                L.append('  x = %s(p, a); if (x.far > far) far = x.far; if (x.r != 0) { if (x.r == 1 || (x.r == 2 && x.id < 1000)) x.far = far; return x; }' % s.fn(y))
            L.append('  return sp_fail(p, far);')
            return '\n'.join(L)
        if n == 'opt':
            return '  out_t x = %s(p, a); if (x.r == 0) return sp_succ(p, x.far); return x;' % s.fn(E('seq', a))
        if n == 'at':
            return '  out_t x = %s(p, 0); if (x.r == 1) return sp_succ(p, x.far); return x;' % s.fn(E('seq', a))
        if n == 'not_at':
            return '  out_t x = %s(p, 0); if (x.r == 1) return sp_fail(p, x.far); if (x.r == 0) return sp_succ(p, x.far); return x;' % s.fn(E('seq', a))
        if n == 'disable':
            return '  return %s(p, 0);' % s.fn(E('seq', a))
        if n == 'enable':
            return '  return %s(p, 1);' % s.fn(E('seq', a))
        if n in ('star', 'plus'):
            f = s.fn(E('seq', a))
            pre = ''
            if n == 'plus':
                pre = '  { out_t x = %s(p, a); if (x.r != 1) return x; q = x.pos; far = x.far; }\n' % f
            return ('  u64 q = p, far = p;\n' + pre +
                    '  for (unsigned i = 0; i <= SP_N + 1; ++i) { out_t x = %s(q, a); if (x.far > far) far = x.far;\n'
                    '    if (x.r == 0) return sp_succ(q, far); if (x.r != 1) return x; if (x.pos == q) return sp_div(q); q = x.pos; }\n'
                    '  return sp_div(q);' % f)
        if n == 'tcrf':
            what = a[0].name
            f = s.fn(a[1])
            if what in ('void', 'any_type'):
                cond = 'x.r == 2 || x.r == 3'
            elif what.endswith('verif_exc'):
                cond = 'x.r == 2'
            elif what.endswith('foreign_exc'):
                cond = 'x.r == 3'
            else:
                cond = '0'
            return '  out_t x = %s(p, a); if (%s) return sp_fail(p, x.far); return x;' % (f, cond)
        if n in ('apply', 'apply0', 'if_apply'):
            acts = a[1:] if n == 'if_apply' else a
            L = []
            if n == 'if_apply':
                L.append('  out_t x = %s(p, a); if (x.r != 1) { if (x.r == 0) return sp_fail(p, x.far); return x; }' % s.fn(a[0]))
                b, en, res = 'p', 'x.pos', 'x'
            else:
                L.append('  out_t x = sp_succ(p, p);')
                b, en, res = 'p', 'p', 'x'
            L.append('  if (a) {')
            for act in acts:
                i = ival(act.args[0])
                if n == 'apply0':
                    L.append('    sv(%d, %d, 0, 0);' % (EV['APPLY0'], 500 + i))
                    vb, ve = '0', '0'
                else:
                    L.append('    sv(%d, %d, %s, %s);' % (EV['APPLY'], 500 + i, b, en))
                    vb, ve = b, en
                if act.name == 'pab':
                    L.append('    { int v = sp_veto(%d, %s, %s); if (v == 2) { out_t y = { 3, p, %d, p, x.far }; return y; } if (v == 0) return sp_fail(p, x.far); }' % (500 + i, vb, ve, 3500 + i))
            L.append('  }')
            L.append('  return x;')
            return '\n'.join(L)
        # convenience rules: expand with the documentation, keeping identified rules intact
        x = lower1(e, s.doc)
        return '  return %s(p, a);' % s.fn(x)

    def text(s):
        return '\n'.join(s.order)


def lower1(e, doc):
    """one documentation step for a convenience rule (must, if_must, opt_must, list, ...)"""
    n, a = e.name, e.args
    if n == 'must':
        return doc.expansion(e, 1)
    if n == 'try_catch_return_false':
        return E('tcrf', [E('parse_error_base'), E('seq', a)])   # public alias catches tao::pegtl::parse_error_base only
    if n == 'try_catch_any_return_false':
        return E('tcrf', [E('any_type'), E('seq', a)])
    if n == 'try_catch_std_return_false':
        return E('tcrf', [E('std_exception'), E('seq', a)])
    if n == 'try_catch_type_return_false':
        return E('tcrf', [a[0], E('seq', a[1:])])
    if n == 'rep':
        num = ival(a[0])
        return E('seq', [E('seq', a[1:]) for _ in range(num)])
    x = doc.expansion(e)
    if x is None:
        raise ValueError('no semantics for %r' % e)
    return x


HARNESS = r'''/* generated harness: hook/action protocol of the real code vs the reference protocol */
#define SP_N %(N)d
#define SP_K %(K)d
#define SP_MAXRES %(maxres)d
#define SP_EVENTS 1
%(lazy)s
#define EV_VETO_MAX %(vetomax)d
#define EV_MAX %(evmax)d
#include "verif.h"
#include "symtab.h"
#include "events.h"
#include "symcheck.h"

%(spec)s

static void harness(void) {
  sp_setup();
  ev_setup();
  u64 o[8];
  out_t e;
%(calls)s
  ASSUME(!sp_exhausted);
%(reach)s
}
'''


def harness_text(expr_text, wrappers, N, K, doc, action=None, unwind=True, maxres=3, vetomax=2, evmax=24, action_unwind=True, reach=(), lazy=False, rof=(), statectl=False):
    """wrappers: list of (wrapper function name, actions_enabled 0/1, rewind required 0/1)"""
    g = EvGen(doc, action=action, unwind=unwind, action_unwind=action_unwind, rof=rof, statectl=statectl)
    e = parse(expr_text)
    fn = g.fn(e)
    calls = []
    for (w, a, req, m) in wrappers:
        calls.append('#if !defined(VF_SPLIT) || defined(V_%s)\n  ev_reset_spec(); e = %s(sp_start, %d); ASSUME(e.r != 4); ASSUME(ev_nspec <= EV_MAX); /* longer protocols are outside the bound */\n'
                     '  ev_reset_real(); %s(sp_buf, sp_n, sp_start, o); check_variant("", o, e, %d); ev_compare();\n#endif' % (m, fn, a, w, req))
    rl = ['  REACH(%s, "%s");' % (c, m) for (c, m) in reach]
    rl.append('  REACH(ev_nspec >= 3, "at least one complete frame in the protocol");')
    return HARNESS % {'N': N, 'K': K, 'maxres': maxres, 'vetomax': vetomax, 'evmax': evmax, 'lazy': '#define SP_LAZY 1' if lazy else '', 'spec': g.text(), 'calls': '\n'.join(calls), 'reach': '\n'.join(rl)}
