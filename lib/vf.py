"""vf — driver for solver-based checking of /repo (PEGTL) through  clang IR -> ll2c -> CBMC.

A property module (props/Cxx.py) exposes  plan(ctx) -> list[Query].  For every query the driver
  1. builds the wrapper TU from /repo's *current working tree*: clang++-14 -> LLVM IR -> ll2c -> C,
     and g++ (ASan+UBSan) -> real object,
  2. validates the translation for this very harness: the harness is compiled natively against the
     translated C and against the real object and both are run on the same pseudo-random inputs
     (VERIF_SEED); any difference makes the run inconclusive (exit 2),
  3. runs CBMC on the harness + translated C with unwinding assertions; REACH() witnesses must come
     back FAILED (non-vacuity), everything else must be SUCCESS,
  4. on a counterexample: extracts the harness inputs from the trace, replays them on the real g++
     build, and reports VIOLATION only if the real code fails the same harness check.
"""
import concurrent.futures as cf
import hashlib
import json
import os
import re
import resource
import shutil
import subprocess
import sys
import tempfile
import threading
import time

VERIF = os.path.dirname(os.path.dirname(os.path.abspath(__file__)))
LIB = os.path.join(VERIF, 'lib')
REPO = os.environ.get('VERIF_REPO', '/repo')
INC = os.path.join(REPO, 'include')

CLANG = 'clang++-14'
CLANG_FLAGS = ['-std=c++17', '-O1', '-fno-vectorize', '-fno-slp-vectorize', '-fno-unroll-loops', '-S', '-emit-llvm',
               '-fno-discard-value-names', '-DTAO_PEGTL_VERIF']
TRUSTED_BASE = [
    'clang++-14 -O1 as the semantics of the C++ source (IR regenerated from /repo on every run)',
    'll2c IR->C translator (validated per run by differential execution against the g++ build)',
    'CBMC 6.11.0 C front end, symbolic execution and SAT back end',
    'C models of external functions (lib/models.h) and harness-side stubs listed under assumptions',
    'reference specifications written for the check (lib/pegspec.py, harness/*.h)',
    'induction arguments of DESIGN.md section 4 that lift per-rule / per-operation contracts to whole runs',
]


def log(*a):
    print(*a, file=sys.stderr, flush=True)


class Inconclusive(Exception):
    pass


class Query:
    def __init__(s, name, unit, harness, defines=None, unwind=8, unwindset=None, flags=None, mem_gb=2, timeout=None,
                 solver='cadical', note='', bounds=None, validate_iters=20000, known=None, expect_fail=None, nowitness=False,
                 asan=True, cbmc_defines=None):
        s.name = name
        s.unit = unit              # Unit
        s.harness = harness        # path of harness .c
        s.defines = dict(defines or {})
        s.unwind = unwind
        s.unwindset = unwindset or []
        s.flags = flags or []
        s.mem_gb = mem_gb
        s.timeout = timeout
        s.solver = solver
        s.note = note
        s.bounds = bounds or {}
        s.validate_iters = validate_iters
        s.known = known            # known-finding id whose case is excluded (KF_EXCLUDE_<id>) in this query
        s.expect_fail = expect_fail  # known-finding confirmation query: expected to FAIL (KF_ONLY_<id>)
        s.nowitness = nowitness
        s.asan = asan
        s.cbmc_defines = dict(cbmc_defines or {})   # only for the CBMC run (e.g. selection of a slice of the harness)
        s.result = None


class Unit:
    def __init__(s, name, cpp, cxxflags=None, ll2c=None, text=None, native_cxxflags=None, real_cxxflags=None):
        s.name = name
        s.cpp = cpp                # path to wrapper TU (or None when text given)
        s.text = text              # generated wrapper text
        s.cxxflags = cxxflags or []
        s.ll2c = ll2c or []
        s.native_cxxflags = native_cxxflags   # if set: the native builds (validation/replay) compile the TU with these flags instead
        s.real_cxxflags = real_cxxflags       # if set: ONLY the g++ real build uses these flags (e.g. genuine libstdc++ containers instead of lib/stubstd)
        s.built = None
        s.lock = threading.Lock()


class Ctx:
    def __init__(s, prop, tier, seed):
        s.prop = prop
        s.tier = tier
        s.seed = seed
        base = os.environ.get('VERIF_SCRATCH') or tempfile.gettempdir()
        s.dir = tempfile.mkdtemp(prefix='verif-%s-' % prop, dir=base)
        s.units = {}
        s.t0 = time.time()
        s.assumptions = []
        s.notes = []

    def quick(s):
        return s.tier == 'quick'

    def path(s, *p):
        return os.path.join(s.dir, *p)

    def write(s, rel, text):
        p = s.path(rel)
        os.makedirs(os.path.dirname(p), exist_ok=True)
        with open(p, 'w') as f:
            f.write(text)
        return p

    def unit(s, name, cpp=None, text=None, cxxflags=None, ll2c=None, native_cxxflags=None, real_cxxflags=None):
        if name not in s.units:
            s.units[name] = Unit(name, cpp, cxxflags, ll2c, text, native_cxxflags, real_cxxflags)
        return s.units[name]

    def cleanup(s):
        if not os.environ.get('VERIF_KEEP'):
            shutil.rmtree(s.dir, ignore_errors=True)


def sh(cmd, cwd=None, timeout=None, env=None, mem_gb=None):
    def lim():
        if mem_gb:
            b = int(mem_gb * (1 << 30))
            resource.setrlimit(resource.RLIMIT_AS, (b, b))
    t = time.time()
    try:
        p = subprocess.run(cmd, cwd=cwd, stdout=subprocess.PIPE, stderr=subprocess.PIPE, timeout=timeout, env=env,
                           preexec_fn=lim if mem_gb else None)
        return p.returncode, p.stdout.decode('utf-8', 'replace'), p.stderr.decode('utf-8', 'replace'), time.time() - t
    except subprocess.TimeoutExpired as e:
        return -9, (e.stdout or b'').decode('utf-8', 'replace'), 'TIMEOUT', time.time() - t


def build_unit(ctx, u):
    """C++ wrapper TU -> IR -> C (+header, info), and real object with sanitizers"""
    with u.lock:
        if u.built:
            return u.built
        d = ctx.path('unit-' + u.name)
        os.makedirs(d, exist_ok=True)
        cpp = os.path.join(d, 'w.cpp')
        if u.text is not None:
            open(cpp, 'w').write(u.text)
        else:
            shutil.copy(u.cpp, cpp)
        incs = ['-I', os.path.join(VERIF, 'harness'), '-I', INC]
        pre = []
        for f in u.cxxflags:
            pre.append(f)
        rc, out, err, dt = sh([CLANG] + CLANG_FLAGS + pre + incs + [cpp, '-o', os.path.join(d, 'w.ll')])
        if rc != 0:
            raise Inconclusive('clang failed for unit %s:\n%s' % (u.name, err[-4000:]))
        rc, out, err, dt2 = sh([sys.executable, os.path.join(LIB, 'll2c.py'), os.path.join(d, 'w.ll'), '-o', os.path.join(d, 'w.c'),
                                '--header', os.path.join(d, 'w.h'), '--info', os.path.join(d, 'w.json'),
                                '--include', os.path.join(LIB, 'models.h')] + u.ll2c)
        if rc != 0:
            raise Inconclusive('ll2c failed for unit %s:\n%s' % (u.name, err[-4000:]))
        info = json.load(open(os.path.join(d, 'w.json')))
        c_native = os.path.join(d, 'w.c')
        npre = list(u.native_cxxflags) if u.native_cxxflags is not None else pre
        if '--cut' in u.ll2c or u.native_cxxflags is not None:
            # the native (translation validation / replay) builds use the same IR translated WITHOUT the cut, so that they
            # can be compared with the real build; only the CBMC run sees the cut recursion
            rest = list(u.ll2c)
            if '--cut' in rest:
                i = rest.index('--cut')
                rest = rest[:i] + rest[i + 2:]
            c_native = os.path.join(d, 'w_full.c')
            ll_native = os.path.join(d, 'w.ll')
            if u.native_cxxflags is not None:
                ll_native = os.path.join(d, 'w_native.ll')
                rc, out, err, _ = sh([CLANG] + CLANG_FLAGS + npre + incs + [cpp, '-o', ll_native])
                if rc != 0:
                    raise Inconclusive('clang (native flags) failed for unit %s:\n%s' % (u.name, err[-4000:]))
            rc, out, err, _ = sh([sys.executable, os.path.join(LIB, 'll2c.py'), ll_native, '-o', c_native,
                                  '--include', os.path.join(LIB, 'models.h')] + rest)
            if rc != 0:
                raise Inconclusive('ll2c (uncut) failed for unit %s:\n%s' % (u.name, err[-4000:]))
        # real build (g++, sanitizers) for translation validation and replay
        gflags = ['-std=c++17', '-O1', '-g', '-fsanitize=address,undefined', '-fno-sanitize-recover=undefined', '-fno-omit-frame-pointer', '-DTAO_PEGTL_VERIF']
        rpre = list(u.real_cxxflags) if getattr(u, 'real_cxxflags', None) is not None else npre
        rc, out, err, dt3 = sh(['g++'] + gflags + rpre + incs + ['-c', cpp, '-o', os.path.join(d, 'real.o')])
        if rc != 0:
            raise Inconclusive('g++ failed for unit %s:\n%s' % (u.name, err[-4000:]))
        dt4 = 0
        ir = open(os.path.join(d, 'w.ll')).read()
        u.built = {'dir': d, 'c': os.path.join(d, 'w.c'), 'c_native': c_native, 'h': os.path.join(d, 'w.h'), 'real': os.path.join(d, 'real.o'),
                   'externs': info['externs'], 'defined': info['defined'], 'ir_lines': ir.count('\n'),
                   'build_s': round(dt + dt2 + dt3 + dt4, 2)}
        return u.built


LIBC_EXTERNS = {'memcmp', 'bcmp', 'strlen', 'malloc', 'free', 'memchr', 'abort', '_Znwm', '_Znam', '_ZdlPv', '_ZdaPv', '__assert_fail',
                '_ZSt9terminatev', '__cxa_allocate_exception', '__cxa_throw', '__cxa_begin_catch', '__cxa_end_catch', '__cxa_rethrow',
                '__cxa_free_exception', '_Unwind_Resume', '__clang_call_terminate', '__cxa_pure_virtual', '__cxa_atexit'}


def cdefs(q):
    out = []
    for k, v in sorted(q.defines.items()):
        out.append('-D%s=%s' % (k, v) if v is not None and v != '' else '-D%s' % k)
    if q.known:
        for k in (q.known if isinstance(q.known, (list, tuple)) else [q.known]):
            out.append('-DKF_EXCLUDE_%s' % k)
    if q.expect_fail:
        out.append('-DKF_ONLY_%s' % q.expect_fail)
    return out


def native_key(q):
    return (q.unit.name, q.harness, tuple(cdefs(q)))


def build_native(ctx, q, cache, lock):
    """-> (translated binary, real binary)"""
    key = native_key(q)
    with lock:
        ent = cache.get(key)
        if ent is None:
            ent = cache[key] = {'lock': threading.Lock(), 'bins': None}
    with ent['lock']:
        if ent['bins']:
            return ent['bins']
        b = build_unit(ctx, q.unit)
        h = hashlib.sha1(repr(key).encode()).hexdigest()[:10]
        d = os.path.join(b['dir'], 'nat-' + h)
        os.makedirs(d, exist_ok=True)
        inc = ['-I', LIB, '-I', os.path.join(VERIF, 'harness'), '-I', os.path.dirname(q.harness)]
        common = ['-std=gnu11', '-O1', '-w', '-DVF_NATIVE'] + cdefs(q) + inc
        tb = os.path.join(d, 'translated')
        rc, out, err, _ = sh(['gcc'] + common + ['-DVF_UNIT_C="%s"' % b['c_native'], q.harness, '-o', tb])
        if rc != 0:
            raise Inconclusive('gcc (translated) failed for %s:\n%s' % (q.name, err[-4000:]))
        ren = ['-Dx_%s=%s' % (re.sub(r'[^A-Za-z0-9_]', '_', e), e) for e in b['externs'] if e not in LIBC_EXTERNS and re.fullmatch(r'[A-Za-z_][A-Za-z0-9_]*', e)]
        ho = os.path.join(d, 'h_real.o')
        rc, out, err, _ = sh(['gcc'] + common + ['-g', '-fsanitize=address', '-DVF_REAL', '-DVF_UNIT_H="%s"' % b['h']] + ren + ['-c', q.harness, '-o', ho])
        if rc != 0:
            raise Inconclusive('gcc (real harness) failed for %s:\n%s' % (q.name, err[-4000:]))
        rb = os.path.join(d, 'real')
        rc, out, err, _ = sh(['g++', '-fsanitize=address,undefined', ho, b['real'], '-o', rb])
        if rc != 0:
            raise Inconclusive('link (real) failed for %s:\n%s' % (q.name, err[-4000:]))
        ent['bins'] = (tb, rb)
        return ent['bins']


def validate_cached(ctx, q, bins, cache, lock):
    with lock:
        ent = cache[native_key(q)]
    with ent['lock']:
        if 'validation' not in ent:
            ent['validation'] = validate_translation(ctx, q, bins)
        return ent['validation']


ASAN_ENV = dict(os.environ, ASAN_OPTIONS='detect_leaks=0:abort_on_error=0:exitcode=23', UBSAN_OPTIONS='print_stacktrace=1')


def validate_translation(ctx, q, bins):
    tb, rb = bins
    seed = str(ctx.seed)
    iters = str(q.validate_iters)
    rc1, o1, e1, t1 = sh([tb, 'random', seed, iters], timeout=600)
    rc2, o2, e2, t2 = sh([rb, 'random', seed, iters], timeout=600, env=ASAN_ENV)
    d1 = [l for l in o1.splitlines() if l.startswith('DIGEST')]
    d2 = [l for l in o2.splitlines() if l.startswith('DIGEST')]
    fi = [l for l in o2.splitlines() if l.startswith('FAILING-INPUTS')]
    real_failing = [int(x) for x in fi[0].split()[1:]] if fi else None
    return {'iters': q.validate_iters, 'real_failing_inputs': real_failing, 'translated': d1[-1] if d1 else 'rc=%d %s' % (rc1, e1[-300:]),
            'real': d2[-1] if d2 else 'rc=%d %s' % (rc2, e2[-600:]), 'agree': bool(d1) and d1 == d2, 'rc': (rc1, rc2)}


RES_RE = re.compile(r'^\[([^\]]+)\] (?:line (\d+) )?(.*): (SUCCESS|FAILURE|UNKNOWN)$', re.M)


def cbmc_cmd(ctx, q, b, extra=None, witness=True):
    cmd = ['cbmc', q.harness, '-I', LIB, '-I', os.path.join(VERIF, 'harness'), '-I', os.path.dirname(q.harness),
           '-DVF_UNIT_C="%s"' % b['c']] + (['-DWITNESS'] if witness else []) + cdefs(q) + ['-D%s=%s' % kv for kv in sorted(q.cbmc_defines.items())]
    cmd += ['--unwind', str(q.unwind), '--unwinding-assertions', '--drop-unused-functions', '--no-malloc-may-fail', '--object-bits', '12']
    # byte loops that ll2c emits for memcpy/memmove with a symbolic length: bounded separately (unwinding assertions still apply)
    us = list(q.unwindset)
    for loop in ('vf_memcpy.0', 'vf_memmove.0', 'vf_memmove.1'):
        if not any(u.startswith(loop + ':') for u in us):
            us.append('%s:%d' % (loop, max(q.unwind, 66)))
    cmd += ['--unwindset', ','.join(us)]
    if q.solver == 'kissat':
        cmd += ['--external-sat-solver', 'kissat']
    elif q.solver in ('cadical', 'minisat2', 'glucose'):
        cmd += ['--sat-solver', q.solver]
    elif q.solver == 'z3':
        cmd += ['--z3']
    cmd += q.flags
    if extra:
        cmd += extra
    return cmd


def run_cbmc(ctx, q, b, extra=None, timeout=None, witness=True):
    cmd = cbmc_cmd(ctx, q, b, extra, witness)
    wrapped = ['/usr/bin/time', '-f', 'VF_RSS_KB=%M', '--'] + cmd
    rc, out, err, dt = sh(wrapped, timeout=timeout or q.timeout or ctx.default_timeout, mem_gb=q.mem_gb * 3 + 4)
    m = re.search(r'VF_RSS_KB=(\d+)', err)
    rss = int(m.group(1)) // 1024 if m else None
    return cmd, rc, out, err, dt, rss


def parse_results(out):
    res = []
    for m in RES_RE.finditer(out):
        res.append({'id': m.group(1), 'line': m.group(2), 'msg': m.group(3), 'status': m.group(4)})
    return res


def extract_inputs(trace_text):
    vals = {}
    for m in re.finditer(r'verif_in\[(\d+)l*\]=(\d+)', trace_text):
        vals[int(m.group(1))] = int(m.group(2))
    if not vals:
        return []
    return [vals.get(i, 0) for i in range(max(vals) + 1)]


def replay_real(ctx, q, bins, inputs, tag):
    os.makedirs(os.path.join(VERIF, 'replays'), exist_ok=True)
    h = hashlib.sha1((q.name + repr(inputs)).encode()).hexdigest()[:10]
    base = os.path.join(VERIF, 'replays', '%s-%s-%s' % (ctx.prop, re.sub(r'[^A-Za-z0-9_.-]', '_', q.name), h))
    with open(base + '.in', 'w') as f:
        f.write('\n'.join(str(v) for v in inputs) + '\n')
    rc, out, err, dt = sh([bins[1], 'replay', base + '.in'], timeout=120, env=ASAN_ENV)
    fails = [l[len('ASSERT-FAIL '):] for l in out.splitlines() if l.startswith('ASSERT-FAIL ')]
    san = ''
    if 'AddressSanitizer' in err or 'runtime error' in err:
        m = re.search(r'(ERROR: AddressSanitizer: [^\n]*|[^\n]*runtime error: [^\n]*)', err)
        san = m.group(1) if m else 'sanitizer report'
    # an assumption that fails only AFTER a check already failed (e.g. in a later slice of the harness that the CBMC
    # query did not select) does not invalidate the reproduction
    lines_ = out.splitlines()
    first_fail = next((i for i, l in enumerate(lines_) if l.startswith('ASSERT-FAIL ')), None)
    first_assume = next((i for i, l in enumerate(lines_) if l.startswith('REPLAY-ASSUME-FAILED') or l.startswith('REPLAY-RANGE')), None)
    assume_failed = first_assume is not None and (first_fail is None or first_assume < first_fail) and not san
    crashed = (rc not in (0,)) and not any(l.startswith('DIGEST') for l in lines_) and not san
    if crashed:
        # the real build died (std::terminate, abort, signal) on the counterexample input: that reproduces a trap found by CBMC
        fails = fails + ['real build terminated abnormally (rc=%s): %s' % (rc, (err.strip().splitlines() or ['?'])[-1][:200])]
        assume_failed = False
    meta = {'property': ctx.prop, 'query': q.name, 'unit': q.unit.name, 'harness': os.path.relpath(q.harness, VERIF) if q.harness.startswith(VERIF) else q.harness,
            'defines': q.defines, 'known_excluded': q.known, 'inputs': inputs, 'cbmc_failed': tag,
            'real_failed_checks': fails, 'real_sanitizer': san, 'real_stdout': out[-3000:], 'real_stderr': err[-3000:],
            'reproduced': bool(fails or san) and not assume_failed,
            'replay_cmd': './check %s --replay %s' % (ctx.prop, os.path.relpath(base + '.json', VERIF))}
    with open(base + '.json', 'w') as f:
        json.dump(meta, f, indent=1)
    return meta, base + '.json'


def run_query(ctx, q, cache, lock):
    t0 = time.time()
    r = {'query': q.name, 'unit': q.unit.name, 'bounds': dict(q.bounds, unwind=q.unwind, unwindset=q.unwindset), 'solver': q.solver,
         'defines': q.defines, 'note': q.note, 'status': None}
    try:
        b = build_unit(ctx, q.unit)
        r['ir_lines'] = b['ir_lines']
        bins = build_native(ctx, q, cache, lock)
        if q.validate_iters:
            v = validate_cached(ctx, q, bins, cache, lock)
            r['translation_validation'] = v
            if not v['agree'] and v.get('real_failing_inputs'):
                # a harness check fails on the REAL build for a pseudo-random input while the translation behaves differently
                # (e.g. code under a compiler-specific #if that clang's IR does not contain): replay it, it is evidence by itself
                meta, path = replay_real(ctx, q, bins, v['real_failing_inputs'], 'check failed on the real build during translation validation')
                if meta['reproduced']:
                    r['counterexamples'] = [{'assertion': 'found while validating the translation (sampling on the real build, not by the solver)', 'inputs': v['real_failing_inputs'],
                                             'reproduced': True, 'real_failed_checks': meta['real_failed_checks'], 'real_sanitizer': meta['real_sanitizer'], 'replay': path}]
                    r['status'] = 'violated'
                    return r
            sanitizer_abort = (not v['agree']) and ('Sanitizer' in v['real'] or 'runtime error' in v['real'] or 'ABORTING' in v['real'] or v['rc'][1] not in (0, None))   # incl. std::terminate/abort/signal
            if not v['agree'] and not sanitizer_abort:
                r['status'] = 'inconclusive'
                r['reason'] = 'translated C and real g++ build disagree on random inputs (ll2c/model bug?)'
                return r
            # the REAL build died under ASan/UBSan on a random input: a violation candidate, let CBMC find and replay it
        cmd, rc, out, err, dt, rss = run_cbmc(ctx, q, b)
        r['cbmc_s'] = round(dt, 2)
        r['rss_mb'] = rss
        r['cmd'] = ' '.join(cmd[:1] + [os.path.basename(cmd[1])] + [c for c in cmd[2:] if not c.startswith('-I') and not c.startswith('/')])
        if err == 'TIMEOUT' or rc == -9:
            r['status'] = 'inconclusive'
            r['reason'] = 'cbmc timeout after %.0f s' % dt
            v = r.get('translation_validation') or {}
            if getattr(q, 'replay_failing_samples', False) and v.get('real_failing_inputs'):
                # opt-in fallback (q.replay_failing_samples = True): no verdict from the solver, but a harness check failed on the real build
                # (and on the translation) for one of the pseudo-random validation inputs: replay it, a reproduced failure is reported
                meta, path = replay_real(ctx, q, bins, v['real_failing_inputs'], 'check failed on the real build during translation validation (solver timed out)')
                if meta['reproduced']:
                    r['counterexamples'] = [{'assertion': 'found while validating the translation (sampling on the real build; the solver timed out)', 'inputs': v['real_failing_inputs'],
                                             'reproduced': True, 'real_failed_checks': meta['real_failed_checks'], 'real_sanitizer': meta['real_sanitizer'], 'replay': path}]
                    r['status'] = 'violated'
            return r
        res = parse_results(out)
        if not res or ('VERIFICATION SUCCESSFUL' not in out and 'VERIFICATION FAILED' not in out):
            r['status'] = 'inconclusive'
            r['reason'] = 'cbmc gave no verdict (rc=%s): %s' % (rc, (out[-1500:] + err[-1500:]))
            return r
        r['properties_checked'] = len(res)
        wit = [x for x in res if x['msg'].startswith('WITNESS')]
        other = [x for x in res if not x['msg'].startswith('WITNESS')]
        unreached = [x for x in wit if x['status'] != 'FAILURE']
        r['witnesses'] = len(wit)
        r['witnesses_reached'] = len(wit) - len(unreached)
        fails = [x for x in other if x['status'] == 'FAILURE']
        unw = [x for x in fails if '.unwind.' in x['id'] or 'unwinding assertion' in x['msg']]
        r['failed'] = [x['id'] + ' ' + x['msg'] for x in fails]
        if unw:
            # either the bound is too small for the harness, or the code under test iterates more often than it can on the
            # unchanged tree (e.g. a loop that no longer makes progress): get an input that exceeds the bound and try it on
            # the real build, whose stubs report an exhausted call budget as a failed check
            r['status'] = 'inconclusive'
            r['reason'] = 'unwinding bound too small: ' + '; '.join(x['id'] for x in unw[:4])
            if not all(x['id'].startswith('harness.') or x['id'].startswith('main.') for x in unw):
                cmd2, rc2, out2, err2, dt2, rss2 = run_cbmc(ctx, q, b, extra=['--trace', '--stop-on-fail'], witness=False)
                inputs = extract_inputs(out2)
                if inputs:
                    meta, path = replay_real(ctx, q, bins, inputs, 'unwinding assertion ' + unw[0]['id'])
                    r['counterexamples'] = [{'assertion': 'unwinding assertion ' + unw[0]['id'], 'inputs': inputs, 'reproduced': meta['reproduced'],
                                             'real_failed_checks': meta['real_failed_checks'], 'real_sanitizer': meta['real_sanitizer'], 'replay': path}]
                    if meta['reproduced']:
                        r['status'] = 'violated'
                        r.pop('reason', None)
            return r
        if ((not wit and not q.nowitness) or unreached) and not fails:
            # (a failed assertion takes precedence over an unreached witness: a defect may well make a witness unreachable)
            r['status'] = 'inconclusive'
            r['reason'] = 'vacuity guard: witness not reached: ' + '; '.join(x['msg'] for x in unreached[:4]) if wit else 'harness has no REACH witness'
            return r
        if not fails:
            if q.validate_iters and not r['translation_validation']['agree']:
                r['status'] = 'inconclusive'
                r['reason'] = 'real build aborted under a sanitizer during translation validation but CBMC found no violation'
                return r
            r['status'] = 'held'
            return r
        # counterexample(s): fetch traces, replay on the real build
        r['counterexamples'] = []
        reproduced = 0
        for x in fails[:3]:
            cmd2, rc2, out2, err2, dt2, rss2 = run_cbmc(ctx, q, b, extra=['--property', x['id'], '--trace'])
            inputs = extract_inputs(out2)
            meta, path = replay_real(ctx, q, bins, inputs, x['id'] + ' ' + x['msg'])
            r['counterexamples'].append({'assertion': x['msg'], 'inputs': inputs, 'reproduced': meta['reproduced'],
                                         'real_failed_checks': meta['real_failed_checks'], 'real_sanitizer': meta['real_sanitizer'], 'replay': path})
            if meta['reproduced']:
                reproduced += 1
        if reproduced:
            r['status'] = 'violated'
        else:
            r['status'] = 'inconclusive'
            r['reason'] = 'counterexample does not reproduce on the real build (encoding or model wrong, or UB only visible to CBMC)'
        return r
    except Inconclusive as e:
        r['status'] = 'inconclusive'
        r['reason'] = str(e)
        return r
    finally:
        r['wall_s'] = round(time.time() - t0, 2)


def load_known(prop):
    p = os.path.join(VERIF, 'known_findings.json')
    if not os.path.exists(p):
        return []
    return [k for k in json.load(open(p)).get('findings', []) if k.get('property') == prop]


def schedule(ctx, queries, run1):
    """memory-aware parallel execution"""
    total_gb = int(os.environ.get('VERIF_MEM_GB', '52'))
    ncpu = int(os.environ.get('VERIF_JOBS', str(os.cpu_count() or 4)))
    pending = sorted(queries, key=lambda q: -q.mem_gb)
    running = {}
    results = {}
    used = 0
    with cf.ThreadPoolExecutor(max_workers=ncpu) as ex:
        while pending or running:
            started = False
            for q in list(pending):
                if len(running) < ncpu and (used + q.mem_gb <= total_gb or not running):
                    pending.remove(q)
                    fut = ex.submit(run1, q)
                    running[fut] = q
                    used += q.mem_gb
                    started = True
            if not running:
                continue
            done, _ = cf.wait(list(running), timeout=None if not started else 0.05, return_when=cf.FIRST_COMPLETED)
            for fut in done:
                q = running.pop(fut)
                used -= q.mem_gb
                results[q.name] = fut.result()
                r = results[q.name]
                log('  [%s] %-58s %-12s %6.1fs %s' % (ctx.prop, q.name, r['status'], r.get('wall_s', 0), r.get('reason', '')[:300].replace('\n', ' ')))
    return [results[q.name] for q in queries]


def main_check(prop, plan, tier, seed, level_text='', extra_assumptions=None, replay=None, evidence_name=None):
    ctx = Ctx(prop, tier, seed)
    ctx.default_timeout = int(os.environ.get('VERIF_QUERY_TIMEOUT', '900' if tier == 'quick' else '3000'))
    t0 = time.time()
    exit_code = 0
    try:
        queries = plan(ctx)
        # exclusions are applied only for findings that are still recorded as 'known'; a 'fixed' entry suppresses nothing,
        # and its confirmation query is not needed any more (the main query now covers the formerly excluded case)
        kf_status = {k.get('id'): k.get('status') for k in load_known(prop)}
        kept = []
        for q in queries:
            if q.known:
                ks = q.known if isinstance(q.known, (list, tuple)) else [q.known]
                q.known = [k for k in ks if kf_status.get(k) == 'known']
            if q.expect_fail and kf_status.get(q.expect_fail) == 'fixed':
                continue
            kept.append(q)
        queries = kept
        names = [q.name for q in queries]
        assert len(set(names)) == len(names), 'duplicate query names'
        cache, lock = {}, threading.Lock()
        if replay:
            meta = json.load(open(replay))
            qs = [q for q in queries if q.name == meta['query']]
            if not qs:
                print('no such query: ' + meta['query'])
                return 2
            q = qs[0]
            bins = build_native(ctx, q, cache, lock)
            m2, path = replay_real(ctx, q, bins, meta['inputs'], meta.get('cbmc_failed', ''))
            print(m2['real_stdout'])
            print(m2['real_stderr'])
            print('REPRODUCED' if m2['reproduced'] else 'NOT REPRODUCED')
            return 1 if m2['reproduced'] else 0
        only = os.environ.get('VERIF_ONLY')
        if only:
            queries = [q for q in queries if re.search(only, q.name)]
        log('[%s] %d queries, tier=%s, scratch=%s' % (prop, len(queries), tier, ctx.dir))
        results = schedule(ctx, queries, lambda q: run_query(ctx, q, cache, lock))
        known = load_known(prop)
        violations = 0
        inconclusive = 0
        lines = []
        for q, r in zip(queries, results):
            if q.expect_fail:
                # confirmation query of a recorded finding: FAIL expected while the defect exists
                kf = [k for k in known if k.get('id') == q.expect_fail]
                what = kf[0]['what'] if kf else q.expect_fail
                if r['status'] == 'violated':
                    if kf and kf[0].get('status') == 'known':
                        lines.append('KNOWN-FINDING: property=%s %s' % (prop, what))
                        r['status'] = 'known-finding'
                    else:
                        violations += 1
                        lines.append('VIOLATION property=%s replay=%s' % (prop, r['counterexamples'][0]['replay']))
                elif r['status'] == 'held':
                    r['status'] = 'held (recorded finding no longer present)'
                else:
                    inconclusive += 1
                continue
            if r['status'] == 'violated':
                violations += 1
                cx = [c for c in r['counterexamples'] if c['reproduced']][0]
                lines.append('VIOLATION property=%s replay=%s' % (prop, cx['replay']))
            elif r['status'] != 'held':
                inconclusive += 1
        seen_lines = set()
        for l in lines:
            if l.startswith('KNOWN-FINDING') and l in seen_lines:
                continue            # one line per recorded finding, however many confirmation queries reproduce it
            seen_lines.add(l)
            print(l)
        held = sum(1 for r in results if r['status'].startswith('held'))
        nontrivial = sum(1 for r in results if r.get('witnesses_reached', 0) > 0 and r['status'] != 'inconclusive')
        fns = set()
        for u in ctx.units.values():
            if u.built:
                fns.update(n for n in u.built['defined'])
        ev = {
            'property_id': prop, 'tier': tier, 'seed': seed, 'level': 'model_checking',
            'coverage': {
                'evaluations': sum(r.get('properties_checked', 0) for r in results),
                'distinct_nontrivial': nontrivial,
                'rule': 'one evaluation = one assertion (harness CHECK, CBMC pointer/bounds check or unwinding assertion) decided by the SAT solver over all '
                        'values of the symbolic inputs within the stated bounds; a query is counted non-trivial only if every REACH witness in its harness '
                        'was shown reachable (assert(!witness) FAILED) in the same run, so the assumptions are satisfiable and the checked code is reached',
                'samples': results,
                'obligations': len(results),
                'discharged': held + sum(1 for r in results if r['status'] == 'known-finding'),
                'checker_cmd': 'cbmc <harness.c> -DVF_UNIT_C=<ll2c(clang -O1 IR of wrapper TU)> --unwind K --unwinding-assertions --drop-unused-functions --no-malloc-may-fail --sat-solver cadical',
                'trusted_base': TRUSTED_BASE,
                'traces_validated_against_impl': sum(r.get('translation_validation', {}).get('iters', 0) for r in results),
                'functions_encoded': sorted(fns)[:400],
                'functions_encoded_count': len(fns),
                'solver_time_s': round(sum(r.get('cbmc_s', 0) for r in results), 1),
                'peak_rss_mb': max([r.get('rss_mb') or 0 for r in results] or [0]),
                'inconclusive': inconclusive,
                'exhaustive': False,
                'explanation': level_text,
            },
            'assumptions': (extra_assumptions or []) + ctx.assumptions + [
                'allocation never fails (--no-malloc-may-fail)', 'x86-64, clang 14 -O1 IR semantics',
                'bounds as listed per sample; inputs beyond them are outside the claim'],
            'wall_s': round(time.time() - t0, 1),
            'violations': violations,
        }
        os.makedirs(os.path.join(VERIF, 'evidence'), exist_ok=True)
        with open(os.path.join(VERIF, 'evidence', (evidence_name or prop) + '.json'), 'w') as f:
            json.dump(ev, f, indent=1)
        log('[%s] held=%d violated=%d inconclusive=%d wall=%.0fs' % (prop, held, violations, inconclusive, time.time() - t0))
        if violations:
            exit_code = 1
        elif inconclusive:
            for r in results:
                if r['status'] == 'inconclusive':
                    print('INCONCLUSIVE property=%s query=%s reason=%s' % (prop, r['query'], r.get('reason', '')[:500].replace('\n', ' ')))
            exit_code = 2
        return exit_code
    finally:
        ctx.cleanup()
