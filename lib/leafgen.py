"""leafgen — rules running directly on symbolic bytes vs a byte-level specification written as C expressions."""

WRAP = '''// generated wrapper TU — leaf rules on raw bytes, instantiating the real templates from /repo/include
#include "common.hpp"
%(includes)s
using namespace tao::pegtl;
%(preamble)s
'''

HARNESS = r'''/* generated harness: real leaf rule on symbolic bytes vs byte-level specification */
%(defs)s
#include "verif.h"
#include "leaf.h"
#define NA %(NA)d
#define B(i) (lf_buf[i])
#define HAVE(k) (lf_start + (k) <= lf_n)
#define S lf_start
%(spec)s
#ifndef VF_SPLIT
%(alldefs)s
#endif
static void harness(void) {
  lf_setup(NA);
  u64 o[8];
  u64 len = 0;
  int er = %(cond)s;
  u64 ep = lf_start + (%(len)s);
%(calls)s
  OBS(er); OBS(ep);
%(reach)s
}
'''


def wrapper_text(cases, includes=(), preamble='', input_t=None):
    L = [WRAP % {'includes': '\n'.join('#include <%s>' % i for i in includes), 'preamble': preamble}]
    for c in cases:
        if input_t:
            for v, (a, m) in {'ar': ('action', 'required'), 'ao': ('action', 'optional'), 'nr': ('nothing', 'required'), 'no': ('nothing', 'optional')}.items():
                L.append('VF_WRAP( w_%s_%s, %s, tao::pegtl::apply_mode::%s, tao::pegtl::rewind_mode::%s, tao::pegtl::nothing, vf::vcontrol, %s )' % (c['name'], v, c['cxx'], a, m, input_t))
        else:
            L.append('VF_WRAP4( w_%s, %s )' % (c['name'], c['cxx']))
    return '\n'.join(L) + '\n'


def harness_text(c, NA, variants=('ar', 'ao', 'nr', 'no'), defs=''):
    if c.get('alphabet'):
        defs += '\n#define VF_ALPHABET "%s"' % c['alphabet']
    calls = []
    for v in variants:
        calls.append('#if V_%s\n  w_%s_%s(lf_buf, lf_n, lf_start, o); lf_check(o, er, ep, %d, NA);\n#endif' % (v, c['name'], v, 1 if v[1] == 'r' else 0))
    reach = '\n'.join('  REACH(%s, "%s");' % (e, m) for e, m in c.get('reach', []))
    if c.get('can_match', True):
        reach += '\n  REACH(er == 1, "rule matches");'
    if c.get('can_fail', True):
        reach += '\n  REACH(er == 0, "rule fails");'
    return HARNESS % {'NA': NA, 'spec': c.get('spec', ''), 'cond': c['cond'], 'len': c['len'], 'calls': '\n'.join(calls), 'reach': reach, 'defs': defs,
                      'alldefs': '\n'.join('#define V_%s 1' % v for v in variants)}
