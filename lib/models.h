/* C models for external functions referenced by translated IR.  Every model used by a run is part of
 * the trusted base of that run (listed in the evidence file through the unit's extern list). */
u32 x_bcmp(u8 *a, u8 *b, u64 n) { for (u64 i = 0; i < n; i++) if (a[i] != b[i]) return 1; return 0; }
u32 x_memcmp(u8 *a, u8 *b, u64 n) { for (u64 i = 0; i < n; i++) if (a[i] != b[i]) return a[i] < b[i] ? (u32)-1 : 1; return 0; }
u32 x_strncmp(u8 *a, u8 *b, u64 n) { for (u64 i = 0; i < n; i++) { if (a[i] != b[i]) return a[i] < b[i] ? (u32)-1 : 1; if (!a[i]) return 0; } return 0; }
u64 x_strlen(u8 *a) { u64 n = 0; while (a[n]) n++; return n; }
u8 *x_memchr(u8 *a, u32 c, u64 n) { for (u64 i = 0; i < n; i++) if (a[i] == (u8)c) return a + i; return 0; }
/* allocation (failure is outside every claim) */
u8 *x__Znam(u64 n) { u8 *p = malloc(n ? n : 1); __VERIFIER_assume_nonnull(p); return p; }
u8 *x__Znwm(u64 n) { u8 *p = malloc(n ? n : 1); __VERIFIER_assume_nonnull(p); return p; }
void x__ZdaPv(u8 *p) { free(p); }
void x__ZdlPv(u8 *p) { free(p); }
void x__ZdlPvm(u8 *p, u64 n) { free(p); }
void x__ZSt9terminatev(void) { __VERIFIER_trap(); }
/* std::uncaught_exceptions(): exceptions thrown and not yet caught, as counted by the lowered exception model */
u32 x__ZSt19uncaught_exceptionsv(void) { return (u32)__exc_uncaught; }
u8 x__ZSt18uncaught_exceptionv(void) { return __exc_uncaught > 0; }
/* libstdc++ std::string helpers reached when a tao::pegtl::position (std::string source) is built from a const char* source */
void x__ZSt19__throw_logic_errorPKc(u8 *msg) { __VERIFIER_trap(); }
void x__ZSt20__throw_length_errorPKc(u8 *msg) { __VERIFIER_trap(); }
/* heap buffers of std::string.  Default: exactly the requested size.  VF_STRING_FIXED_ALLOC=<n> (opt-in, defined by the harness before verif.h):
 * every buffer is an object of the constant size n (a heap object of symbolic size is very costly for the model checker); a request for more
 * than n bytes is REPORTED (trap), accesses between the requested size and n are then not flagged by the model checker (ASan on the real build
 * used for translation validation still sees them) */
#ifdef VF_STRING_FIXED_ALLOC
static u8 *vf_str_alloc(u64 n) { u8 *p; if (n > VF_STRING_FIXED_ALLOC) __VERIFIER_trap(); p = malloc(VF_STRING_FIXED_ALLOC); __VERIFIER_assume_nonnull(p); return p; }
#else
static u8 *vf_str_alloc(u64 n) { u8 *p = malloc(n); __VERIFIER_assume_nonnull(p); return p; }
#endif
#ifndef VF_STRING_SELF_T   /* units in which std::string is a complete type declare the parameter as a struct pointer: the harness sets this */
#define VF_STRING_SELF_T void
#endif
u8 *x__ZNSt7__cxx1112basic_stringIcSt11char_traitsIcESaIcEE9_M_createERmm(VF_STRING_SELF_T *self, u64 *cap, u64 old) { return vf_str_alloc(*cap + 1); }
/* libstdc++ std::string, out-of-line members, on the real x86-64 SSO layout: +0 char* data, +8 size, +16 union { char local[16]; size_t capacity }
 * (data == self + 16 <=> short string of capacity 15).  Written from bits/basic_string.tcc; growth reallocates like _M_create (doubling policy). */
static u8 *vf_str_data(void *s) { return *(u8 **)s; }
static u64 vf_str_size(void *s) { return *(u64 *)((u8 *)s + 8); }
static u64 vf_str_cap(void *s) { return vf_str_data(s) == (u8 *)s + 16 ? (u64)15 : *(u64 *)((u8 *)s + 16); }
/* basic_string::_M_mutate( pos, len1, s, len2 ): replace [pos, pos+len1) by s[0..len2) in a NEW allocation (size field left to the caller).
 * Only reached when a string outgrows its capacity.  Default: growth is outside the claim of the including check and reaching it is REPORTED
 * (assertion failure); a harness that wants growth defines VF_STRING_GROWTH before including verif.h and gets the reallocating model. */
#ifdef VF_STRING_GROWTH
void x__ZNSt7__cxx1112basic_stringIcSt11char_traitsIcESaIcEE9_M_mutateEmmPKcm(void *self, u64 pos, u64 len1, u8 *s, u64 len2) {
  u64 len = vf_str_size(self), how_much = len - pos - len1, ncap = len + len2 - len1, ocap = vf_str_cap(self);
  u8 *old = vf_str_data(self), *r;
  if (ncap > 0x3fffffffffffffffULL) { x__ZSt20__throw_length_errorPKc((u8 *)"basic_string::_M_create"); return; }
  if (ncap > ocap && ncap < 2 * ocap) { ncap = 2 * ocap; if (ncap > 0x3fffffffffffffffULL) ncap = 0x3fffffffffffffffULL; }
  r = vf_str_alloc(ncap + 1);
  for (u64 i = 0; i < pos; ++i) r[i] = old[i];
  if (s) for (u64 i = 0; i < len2; ++i) r[pos + i] = s[i];
  for (u64 i = 0; i < how_much; ++i) r[pos + len2 + i] = old[pos + len1 + i];
  if (old != (u8 *)self + 16) free(old);
  *(u8 **)self = r; *(u64 *)((u8 *)self + 16) = ncap;
}
#else
void x__ZNSt7__cxx1112basic_stringIcSt11char_traitsIcESaIcEE9_M_mutateEmmPKcm(void *self, u64 pos, u64 len1, u8 *s, u64 len2) { __VERIFIER_unreachable(); }
#endif
/* basic_string::_M_append( s, n ) */
#ifdef VF_STRING_SPLIT_STORES
/* VF_STRING_SPLIT_STORES=<n> (opt-in, with VF_STRING_FIXED_ALLOC >= n): the same function written so that every store goes to a CONSTANT offset of the
 * destination buffer (guarded; the source is read at a variable index instead): a store at a symbolic offset into the in-object buffer makes the
 * model checker treat the whole std::string as bytes and lose its data pointer.  A result of n or more characters is reported (trap). */
void *x__ZNSt7__cxx1112basic_stringIcSt11char_traitsIcESaIcEE9_M_appendEPKcm(void *self, u8 *s, u64 n) {
  u64 sz = vf_str_size(self), len = sz + n, cap = vf_str_cap(self);
  u8 *old = vf_str_data(self), app[VF_STRING_SPLIT_STORES];
  if (len >= VF_STRING_SPLIT_STORES) { __VERIFIER_trap(); return self; }
  for (u64 i = 0; i < VF_STRING_SPLIT_STORES; ++i) app[i] = i < n ? s[i] : 0;       /* the appended characters followed by the terminator */
  if (len <= cap) {
    if (old == (u8 *)self + 16) { for (u64 j = 0; j < 16; ++j) if (j >= sz && j <= len) old[j] = app[j - sz]; }
#ifdef VF_STRING_NO_INPLACE_HEAP_APPEND     /* opt-in: appending within the capacity of a heap buffer does not occur in the including check: reaching it is REPORTED */
    else __VERIFIER_trap();
#else
    else { for (u64 j = 0; j < VF_STRING_SPLIT_STORES; ++j) if (j >= sz && j <= len) old[j] = app[j - sz]; }
#endif
  } else {
    /* _M_mutate( sz, 0, s, n ): new buffer (doubling policy), old content, appended characters, terminator */
    u64 ncap = len;
    u8 *r;
    if (ncap < 2 * cap) ncap = 2 * cap;
    r = vf_str_alloc(ncap + 1);
    for (u64 j = 0; j < VF_STRING_SPLIT_STORES; ++j) { if (j < sz) r[j] = old[j]; else if (j <= len) r[j] = app[j - sz]; }
    if (old != (u8 *)self + 16) free(old);
    *(u8 **)self = r; *(u64 *)((u8 *)self + 16) = ncap;
  }
  *(u64 *)((u8 *)self + 8) = len;
  return self;
}
#else
void *x__ZNSt7__cxx1112basic_stringIcSt11char_traitsIcESaIcEE9_M_appendEPKcm(void *self, u8 *s, u64 n) {
  u64 sz = vf_str_size(self), len = sz + n;
  if (len <= vf_str_cap(self)) { u8 *d = vf_str_data(self) + sz; for (u64 i = 0; i < n; ++i) d[i] = s[i]; }
  else x__ZNSt7__cxx1112basic_stringIcSt11char_traitsIcESaIcEE9_M_mutateEmmPKcm(self, sz, 0, s, n);
  *(u64 *)((u8 *)self + 8) = len; vf_str_data(self)[len] = 0;
  return self;
}
#endif
/* basic_string::reserve( res )  (libstdc++ 11+: never shrinks) */
void x__ZNSt7__cxx1112basic_stringIcSt11char_traitsIcESaIcEE7reserveEm(void *self, u64 res) {
  u64 cap = vf_str_cap(self), len = vf_str_size(self);
  u8 *old = vf_str_data(self), *r;
  if (res <= cap) return;
  if (res > 0x3fffffffffffffffULL) { x__ZSt20__throw_length_errorPKc((u8 *)"basic_string::_M_create"); return; }
  if (res < 2 * cap) { res = 2 * cap; if (res > 0x3fffffffffffffffULL) res = 0x3fffffffffffffffULL; }
  r = vf_str_alloc(res + 1);
  for (u64 i = 0; i <= len; ++i) r[i] = old[i];
  if (old != (u8 *)self + 16) free(old);
  *(u8 **)self = r; *(u64 *)((u8 *)self + 16) = res;
}
