/* C models for external functions referenced by translated IR.  Every model used by a run is part of
 * the trusted base of that run (listed in the evidence file through the unit's extern list). */
u32 x_bcmp(u8 *a, u8 *b, u64 n) { for (u64 i = 0; i < n; i++) if (a[i] != b[i]) return 1; return 0; }
u32 x_memcmp(u8 *a, u8 *b, u64 n) { for (u64 i = 0; i < n; i++) if (a[i] != b[i]) return a[i] < b[i] ? (u32)-1 : 1; return 0; }
u64 x_strlen(u8 *a) { u64 n = 0; while (a[n]) n++; return n; }
u8 *x_memchr(u8 *a, u32 c, u64 n) { for (u64 i = 0; i < n; i++) if (a[i] == (u8)c) return a + i; return 0; }
/* allocation (failure is outside every claim) */
u8 *x__Znam(u64 n) { u8 *p = malloc(n ? n : 1); __VERIFIER_assume_nonnull(p); return p; }
u8 *x__Znwm(u64 n) { u8 *p = malloc(n ? n : 1); __VERIFIER_assume_nonnull(p); return p; }
void x__ZdaPv(u8 *p) { free(p); }
void x__ZdlPv(u8 *p) { free(p); }
void x__ZdlPvm(u8 *p, u64 n) { free(p); }
void x__ZSt9terminatev(void) { __VERIFIER_trap(); }
/* libstdc++ std::string helpers reached when a tao::pegtl::position (std::string source) is built from a const char* source */
void x__ZSt19__throw_logic_errorPKc(u8 *msg) { __VERIFIER_trap(); }
void x__ZSt20__throw_length_errorPKc(u8 *msg) { __VERIFIER_trap(); }
#ifndef VF_STRING_SELF_T   /* units in which std::string is a complete type declare the parameter as a struct pointer: the harness sets this */
#define VF_STRING_SELF_T void
#endif
u8 *x__ZNSt7__cxx1112basic_stringIcSt11char_traitsIcESaIcEE9_M_createERmm(VF_STRING_SELF_T *self, u64 *cap, u64 old) { u8 *p = malloc(*cap + 1); __VERIFIER_assume_nonnull(p); return p; }
