#pragma once
#include <cstddef>
#include <new>
#include <utility>
#include <initializer_list>
#ifndef VSTUB_CAP
#define VSTUB_CAP 8
#endif
extern "C" void verif_capacity_exceeded();
