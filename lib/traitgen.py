"""traitgen — the analyze_traits of real rules (dumped from the compiler on every run) vs the real rules' behaviour.

C11 relies on every rule being mapped conservatively to an any/opt/seq/sor shape over its sub-rules.  For a rule R over
symbolic sub-rules sym<k> the dumper prints the trait tree the library really uses; from it this module derives, as C
expressions over flags c[k] ("sym<k> always consumes when it succeeds"),
   consumes(R)   — the analysis' verdict "R always consumes when it succeeds"
   start_k(R)    — "sym<k> may be entered at R's start position" (an edge the analysis explores with accum = false)
   selfloop(R)   — "a repetition may re-enter its body at the same position" (reported as a problem by the analysis)
and the harness checks the real rule against them.
"""
import json
import os
import subprocess
import tempfile

DUMPER = r'''
#include "common.hpp"
#include <tao/pegtl/contrib/analyze_traits.hpp>
%(includes)s
#include <cstdio>
using namespace tao::pegtl;
using vf::sym;
using vf::sym2;
using vf::named;
using vf::verif_exc;
using vf::foreign_exc;
namespace tao::pegtl {
   template< typename Name, int K > struct analyze_traits< Name, vf::sym< K > > : analyze_any_traits<> {};
   template< typename Name, int K > struct analyze_traits< Name, vf::sym2< K > > : analyze_any_traits<> {};
}
extern "C" int verif_sym( int, unsigned long, int, int, unsigned long* ) { return 0; }
extern "C" int verif_sym2( int, unsigned long, unsigned long, int, int, unsigned long* ) { return 0; }
extern "C" void verif_event( int, int, unsigned long, unsigned long ) {}
extern "C" int verif_veto( int, unsigned long, unsigned long ) { return 1; }
template< typename T > struct is_sym { static constexpr int k = -1; };
template< int K > struct is_sym< sym< K > > { static constexpr int k = K; };
template< int K > struct is_sym< sym2< K > > { static constexpr int k = 10 + K; };
template< typename Rule, typename... Path > struct dumper;
template< typename T, typename... Ts > inline constexpr bool among = ( std::is_same_v< T, Ts > || ... );
template< typename T, typename = void > struct is_complete : std::false_type {};
template< typename T > struct is_complete< T, std::void_t< decltype( sizeof( T ) ) > > : std::true_type {};
template< typename T > constexpr int index_of() { return 0; }
template< typename T, typename P, typename... Ps > constexpr int index_of() { if constexpr( std::is_same_v< T, P > ) { return 0; } else { return 1 + index_of< T, Ps... >(); } }
template< typename Rule, typename... Path >
struct dumper
{
   template< typename... Subs >
   static void subs( type_list< Subs... > )
   {
      int i = 0;
      ( ( std::printf( "%%s", i++ ? "," : "" ), one< Subs >() ), ... );
   }
   template< typename Sub >
   static void one()
   {
      if constexpr( is_sym< Sub >::k >= 0 ) {
         std::printf( "{\"sym\":%%d}", is_sym< Sub >::k );
      }
      else if constexpr( std::is_same_v< Sub, Rule > ) {
         std::printf( "{\"self\":0}" );
      }
      else if constexpr( among< Sub, Path... > ) {
         std::printf( "{\"self\":%%d}", 1 + index_of< Sub, Path... >() );
      }
      else if constexpr( sizeof...( Path ) > 8 ) {
         std::printf( "{\"deep\":1}" );
      }
      else {
         dumper< Sub, Rule, Path... >::go();
      }
   }
   static void go()
   {
      using T = analyze_traits< Rule, typename Rule::rule_t >;
      if constexpr( is_complete< T >::value ) {
         std::printf( "{\"t\":%%d,\"s\":[", int( T::type_v ) );
         subs( typename T::subs_t() );
         std::printf( "]}" );
      }
      else {
         std::printf( "{\"none\":1}" );   // no analyze_traits specialisation: a grammar using this rule cannot be analysed at all
      }
   }
};
int main()
{
   std::printf( "{" );
%(dumps)s
   std::printf( "}\n" );
}
'''


def dump_traits(cases, repo_inc, harness_dir, includes=()):
    """cases: [(name, cxx type text)] -> {name: trait tree}"""
    d = tempfile.mkdtemp(prefix='verif-traits-')
    try:
        dumps = []
        for i, (n, t) in enumerate(cases):
            dumps.append('   std::printf( "%s\\"%s\\":" ); dumper< %s >::go();' % (',' if i else '', n, t))
        src = os.path.join(d, 'dump.cpp')
        open(src, 'w').write(DUMPER % {'includes': '\n'.join('#include <%s>' % i for i in includes), 'dumps': '\n'.join(dumps)})
        exe = os.path.join(d, 'dump')
        p = subprocess.run(['g++', '-std=c++17', '-O0', '-w', '-I', harness_dir, '-I', repo_inc, src, '-o', exe], stdout=subprocess.PIPE, stderr=subprocess.PIPE)
        if p.returncode != 0:
            raise RuntimeError('trait dumper does not compile:\n' + p.stderr.decode()[-3000:])
        out = subprocess.run([exe], stdout=subprocess.PIPE).stdout.decode()
        return json.loads(out)
    finally:
        import shutil
        shutil.rmtree(d, ignore_errors=True)


# ---- abstract interpretation of a trait tree (mirrors what analyze's work() computes; proved for the real work() in C11 part a)

def consumes(n):
    if 'sym' in n:
        return 'c[%d]' % n['sym']
    if 'self' in n or 'deep' in n:
        return '0'
    t, s = n['t'], n['s']
    if t == 0:
        return '1'
    if t == 1:
        return '0'
    parts = [consumes(x) for x in s]
    if t == 2:
        return '(' + ' || '.join(parts or ['0']) + ')'
    return '(' + ' && '.join(parts or ['1']) + ')'


def start_edges(n, conds=None, out=None, selfs=None):
    """conditions (C expressions over c[]) under which each sym is entered at the ROOT's start position with nothing consumed since
    (-> out[k]), and under which a repetition re-enters itself with nothing consumed since ITS OWN start (-> selfs)."""
    if out is None:
        out, selfs = {}, []
    if conds is None:
        conds = []
    if 'sym' in n:
        out.setdefault(n['sym'], []).append(conds[0] if conds else '1')
        return out, selfs
    if 'self' in n:
        d = n['self']
        if d < len(conds):
            selfs.append(conds[len(conds) - 1 - d])
        return out, selfs
    if 'deep' in n:
        return out, selfs
    t, s = n['t'], n['s']
    mine = conds + ['1']           # conds[i] = "nothing consumed since the start of ancestor i"; last = this node
    if t == 3:
        for x in s:
            start_edges(x, mine, out, selfs)
    else:
        acc = '1'
        for x in s:
            start_edges(x, ['(%s && %s)' % (c, acc) for c in mine], out, selfs)
            acc = '(%s && !%s)' % (acc, consumes(x))
    return out, selfs
