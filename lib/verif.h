/* verif.h — harness-side API shared by three builds of the same harness file.
 *
 *   (1) CBMC            : cbmc harness.c -DVF_UNIT_C='"w.c"'           (translated IR, everything symbolic)
 *   (2) native/TRANSLATED: gcc -DVF_NATIVE -DVF_UNIT_C='"w.c"'         (translated IR, concrete inputs)
 *   (3) native/REAL      : gcc -DVF_NATIVE -DVF_REAL -DVF_UNIT_H='"w.h"' + g++ build of the wrapper TU
 *
 * (2) vs (3) on pseudo-random inputs = translation validation of ll2c for this very harness;
 * (3) on the inputs of a CBMC counterexample = replay against the real code.
 *
 * A harness defines   static void harness(void)   and draws every symbolic value with IN(lo,hi).
 */
#ifndef VERIF_H
#define VERIF_H

#ifdef VF_REAL
#include VF_UNIT_H
#else
#include VF_UNIT_C
#endif

#ifndef VF_MAXIN
#define VF_MAXIN 512
#endif

#ifdef __CPROVER__
/* ------------------------------------------------------------------ CBMC */
unsigned long long nondet_ull(void);
static unsigned long long verif_in[VF_MAXIN];
static unsigned verif_nin;
static unsigned long long IN(unsigned long long lo, unsigned long long hi) {
  unsigned long long v = nondet_ull();
  __CPROVER_assume(v >= lo && v <= hi);
  __CPROVER_assert(verif_nin < VF_MAXIN, "VF_MAXIN large enough");
  verif_in[verif_nin++] = v;
  return v;
}
#define IN_BYTE() ((unsigned char)IN(0, 255))
#define ASSUME(c) __CPROVER_assume(c)
#define CHECK(c, msg) __CPROVER_assert((c), msg)
#define OBS(v) ((void)(v))
#ifdef WITNESS
#define REACH(c, msg) __CPROVER_assert(!(c), "WITNESS " msg)
#else
#define REACH(c, msg) ((void)0)
#endif
void __VERIFIER_unreachable(void) { __CPROVER_assert(0, "IR unreachable reached"); __CPROVER_assume(0); }
void __VERIFIER_trap(void) { __CPROVER_assert(0, "IR trap reached"); __CPROVER_assume(0); }
void __VERIFIER_indirect_call(void) { __CPROVER_assert(0, "indirect call reached"); __CPROVER_assume(0); }
#define VF_FUEL(n) ((void)0)
#define exact_alloc(n) vf_exact_alloc(n)
static void *vf_exact_alloc(unsigned long long n) {
  /* exact-size heap object: any access at or past n is a CBMC bounds violation */
  void *p = malloc(n ? n : 1);
  __CPROVER_assume(p != 0);
  return p;
}
/* exact-size buffer of symbolic length n <= maxn: one object of *constant* size per possible length (the length is
 * case-split), so the buffer is a fixed-size array for the solver instead of an array of symbolic size (measured: formula
 * size linear instead of quadratic in the number of accesses) */
static void *exact_alloc_n(unsigned long long n, unsigned long long maxn) {
  void *p = 0;
  for (unsigned long long k = 0; k <= maxn; ++k) if (n == k) p = malloc(k ? k : 1);
  __CPROVER_assume(p != 0);
  return p;
}
static void harness(void);
int main(void) { harness(); return 0; }
#else
/* ---------------------------------------------------------------- native */
#include <stdio.h>
#include <setjmp.h>
static unsigned long long vf_replay[VF_MAXIN], vf_drawn[VF_MAXIN];
static unsigned vf_nreplay, verif_nin;
static int vf_dumped;
static int vf_mode; /* 0 random, 1 replay */
static unsigned long long vf_seed, vf_digest;
static int vf_fail;
static const char *vf_fail_msg;
static jmp_buf vf_jmp;
static unsigned long long vf_rnd(void) {
  vf_seed = vf_seed * 6364136223846793005ULL + 1442695040888963407ULL;
  unsigned long long x = vf_seed;
  x ^= x >> 33; x *= 0xff51afd7ed558ccdULL; x ^= x >> 33;
  return x;
}
static void vf_mix(unsigned long long v) { vf_digest = (vf_digest ^ v) * 0x100000001b3ULL + 0x9e3779b97f4a7c15ULL; }
static unsigned long long IN(unsigned long long lo, unsigned long long hi) {
  unsigned long long v;
  if (vf_mode == 1) {
    v = verif_nin < vf_nreplay ? vf_replay[verif_nin] : lo;
    if (v < lo || v > hi) { printf("REPLAY-RANGE in[%u]=%llu not in [%llu,%llu]\n", verif_nin, v, lo, hi); v = lo; }
  } else {
    unsigned long long span = hi - lo + 1;
    unsigned long long r = vf_rnd();
    /* bias towards the ends of the range: rare values matter */
    unsigned sel = (unsigned)(vf_rnd() & 7);
    if (span == 0) v = r;
    else if (sel == 0) v = lo;
    else if (sel == 1) v = hi;
    else v = lo + r % span;
  }
  if (verif_nin < VF_MAXIN) vf_drawn[verif_nin] = v;
  verif_nin++;
  return v;
}
/* a symbolic byte; the random (translation validation) mode draws mostly from the harness' alphabet so that
 * the interesting paths of byte-level rules are actually exercised */
#ifndef VF_ALPHABET
#define VF_ALPHABET "ab\n\r01 "
#endif
static unsigned char IN_BYTE(void) {
  if (vf_mode == 1) return (unsigned char)IN(0, 255);
  static const char al[] = VF_ALPHABET;
  unsigned long long r = vf_rnd();
  unsigned char b = ((r & 7) == 0) ? (unsigned char)(r >> 8) : (unsigned char)al[(r >> 8) % (sizeof(al) - 1)];
  if (verif_nin < VF_MAXIN) vf_drawn[verif_nin] = b;
  verif_nin++;
  return b;
}
#define ASSUME(c) do { if (!(c)) longjmp(vf_jmp, 1); } while (0)
#define CHECK(c, msg) do { int vf_c = !!(c); vf_mix(vf_c); if (!vf_c) { vf_fail++; if (!vf_fail_msg) vf_fail_msg = msg; if (vf_mode == 1) printf("ASSERT-FAIL %s\n", msg); } } while (0)
#define OBS(v) do { unsigned long long vf_v = (unsigned long long)(v); vf_mix(vf_v); if (vf_mode == 1) printf("OBS %s = %llu\n", #v, vf_v); } while (0)
#define REACH(c, msg) ((void)0)
void __VERIFIER_unreachable(void) { printf("ASSERT-FAIL IR unreachable reached\n"); vf_fail++; longjmp(vf_jmp, 2); }
void __VERIFIER_trap(void) { printf("ASSERT-FAIL IR trap reached\n"); vf_fail++; longjmp(vf_jmp, 2); }
void __VERIFIER_indirect_call(void) { printf("ASSERT-FAIL indirect call reached\n"); vf_fail++; longjmp(vf_jmp, 2); }
/* fuel: lets a harness cut non-terminating concrete runs identically in both native builds */
static unsigned long vf_fuel;
#define VF_FUEL(n) do { if (++vf_fuel > (n)) longjmp(vf_jmp, 1); } while (0)
static void *vf_allocs[64]; static unsigned vf_nallocs;
static void *exact_alloc(unsigned long long n) {
  void *p = malloc(n ? n : 1);
  if (vf_nallocs < 64) vf_allocs[vf_nallocs++] = p;
  return p;
}
#define exact_alloc_n(n, maxn) exact_alloc(n)
static void harness(void);
int main(int argc, char **argv) {
  unsigned long iters = 1; unsigned long done = 0, skipped = 0;
  if (argc >= 3 && !strcmp(argv[1], "replay")) {
    FILE *f = fopen(argv[2], "r"); if (!f) { perror("replay"); return 3; }
    unsigned long long v; while (vf_nreplay < VF_MAXIN && fscanf(f, "%llu", &v) == 1) vf_replay[vf_nreplay++] = v;
    fclose(f); vf_mode = 1;
  } else if (argc >= 4 && !strcmp(argv[1], "random")) {
    vf_seed = strtoull(argv[2], 0, 10); iters = strtoul(argv[3], 0, 10);
  } else { fprintf(stderr, "usage: %s replay <file> | random <seed> <iters>\n", argv[0]); return 3; }
  for (unsigned long it = 0; it < iters; ++it) {
    verif_nin = 0; vf_fuel = 0; vf_nallocs = 0;
    int fails_before = vf_fail;
    int j = setjmp(vf_jmp);
    if (j == 0) { harness(); done++; } else { skipped++; vf_mix(0xdead); }
    if (vf_mode == 0 && vf_fail > fails_before && !vf_dumped && j != 1) {
      /* a check failed on a pseudo-random input: print the input vector so that the driver can replay it on the real build */
      vf_dumped = 1;
      printf("FAILING-INPUTS");
      for (unsigned i = 0; i < verif_nin && i < VF_MAXIN; ++i) printf(" %llu", vf_drawn[i]);
      printf("\n");
    }
    for (unsigned i = 0; i < vf_nallocs; ++i) free(vf_allocs[i]);
    vf_nallocs = 0;
    if (vf_mode == 1 && j == 1) printf("REPLAY-ASSUME-FAILED\n");
  }
  printf("DIGEST %016llx done=%lu skipped=%lu fails=%d first=%s\n", vf_digest, done, skipped, vf_fail, vf_fail_msg ? vf_fail_msg : "-");
  return 0;
}
#endif

/* known findings: KF_EXCLUDE_<id> removes the listed failing case from the main query,
 * KF_ONLY_<id> restricts a confirmation query to it (expected to FAIL while the defect exists). */
#define KNOWN_EXCLUDE(pred) ASSUME(!(pred))
#define KNOWN_ONLY(pred) ASSUME(pred)

#endif
