"""symgen — generate wrapper TUs and C harnesses for "real rule over symbolic sub-rules == PEG semantics"."""
import os
import random

import pegspec
from pegspec import E, parse, lower, ival


# ------------------------------------------------------------------ python evaluator of the core semantics
# (used to pick reachable witnesses, and as an independent cross-check of the C generator)

class Tab:
    def __init__(s, n, K, rnd, maxres=3):
        s.n = n
        s.res = [[rnd.choice([0, 0, 1, 1, 1, 2, 3][:5 + max(0, maxres - 1)]) if maxres > 1 else rnd.choice([0, 1]) for p in range(n + 1)] for k in range(K)]
        s.np = [[rnd.randint(p, n) for p in range(n + 1)] for k in range(K)]
        s.garb = [[rnd.randint(p, n) for p in range(n + 1)] for k in range(K)]
        s.res2 = [[[rnd.choice([0, 1, 1, 2, 3][:2 + max(0, maxres)]) for e in range(n + 1)] for p in range(n + 1)] for k in range(2)]
        s.np2 = [[[rnd.randint(p, max(p, e)) for e in range(n + 1)] for p in range(n + 1)] for k in range(2)]


def ev(e, p, T):
    """-> (r, pos, id, lo, far)"""
    n, a = e.name, e.args
    if n == 'sym':
        k = ival(a[0])
        r = T.res[k][p]
        if r == 1:
            return (1, T.np[k][p], 0, 0, T.np[k][p])
        g = T.garb[k][p]
        if r == 0:
            return (0, p, 0, 0, g)
        return (r, p, (1000 if r == 2 else 2000) + k, g, g)
    if n == 'success':
        return (1, p, 0, 0, p)
    if n == 'failure':
        return (0, p, 0, 0, p)
    if n == 'eof':
        return (1, p, 0, 0, p) if p == T.n else (0, p, 0, 0, p)
    if n == 'bof':
        return (1, p, 0, 0, p) if p == 0 else (0, p, 0, 0, p)
    if n == 'any':
        return (1, p + 1, 0, 0, p + 1) if p < T.n else (0, p, 0, 0, p)
    if n == 'raise':
        return (2, p, pegspec.default_rid(a[0]), p, p)
    if n == 'seq':
        q, far = p, p
        for x in a:
            r = ev(x, q, T)
            far = max(far, r[4])
            if r[0] != 1:
                return (0, p, 0, 0, far) if r[0] == 0 else r
            q = r[1]
        return (1, q, 0, 0, far)
    if n == 'sor':
        far = p
        for x in a:
            r = ev(x, p, T)
            far = max(far, r[4])
            if r[0] != 0:
                if r[0] == 2 and r[2] < 1000:
                    return (2, r[1], r[2], r[3], far)
                return (1, r[1], 0, 0, far) if r[0] == 1 else r
        return (0, p, 0, 0, far)
    if n == 'opt':
        r = ev(a[0], p, T)
        return (1, p, 0, 0, r[4]) if r[0] == 0 else r
    if n == 'at':
        r = ev(a[0], p, T)
        return (1, p, 0, 0, r[4]) if r[0] == 1 else r
    if n == 'not_at':
        r = ev(a[0], p, T)
        if r[0] == 1:
            return (0, p, 0, 0, r[4])
        if r[0] == 0:
            return (1, p, 0, 0, r[4])
        return r
    if n in ('star', 'plus'):
        q, far = p, p
        if n == 'plus':
            r = ev(a[0], p, T)
            if r[0] != 1:
                return r
            q, far = r[1], r[4]
        while True:
            r = ev(a[0], q, T)
            far = max(far, r[4])
            if r[0] == 0:
                return (1, q, 0, 0, far)
            if r[0] != 1:
                return r
            if r[1] == q:
                return (4, q, 0, 0, q)
            q = r[1]
    if n == 'partial':
        q, far = p, p
        for x in a:
            r = ev(x, q, T)
            far = max(far, r[4])
            if r[0] == 0:
                return (1, q, 0, 0, far)
            if r[0] != 1:
                return r
            q = r[1]
        return (1, q, 0, 0, far)
    if n == 'star_partial':
        q, far = p, p
        while True:
            q0 = q
            for x in a:
                r = ev(x, q, T)
                far = max(far, r[4])
                if r[0] == 0:
                    return (1, q, 0, 0, far)
                if r[0] != 1:
                    return r
                q = r[1]
            if q == q0:
                return (4, q, 0, 0, q)
    if n == 'star_strict':
        q, far = p, p
        while True:
            q0 = q
            r = ev(a[0], q, T)
            far = max(far, r[4])
            if r[0] == 0:
                return (1, q, 0, 0, far)
            if r[0] != 1:
                return r
            q = r[1]
            for x in a[1:]:
                r = ev(x, q, T)
                far = max(far, r[4])
                if r[0] == 0:
                    return (0, p, 0, 0, far)
                if r[0] != 1:
                    return r
                q = r[1]
            if q == q0:
                return (4, q, 0, 0, q)
    if n == 'rematch':
        h = ev(a[0], p, T)
        if h[0] != 1:
            return h
        for x in a[1:]:
            r = ev2(x, p, h[1], T)
            if r[0] != 1:
                return (0, p, 0, 0, h[4]) if r[0] == 0 else r
        return h
    if n == 'named':
        return ev(a[1], p, T)
    if n == 'tcrn':
        r = ev(a[1], p, T)
        w = a[0].name
        caught = (r[0] in (2, 3)) if w in ('void', 'any_type') else (r[0] == 2) if w.endswith('verif_exc') else (r[0] == 3) if w.endswith('foreign_exc') else False
        rr = ival(a[2])
        if rr >= 0x80000000:
            rr -= 0x100000000
        return (2, p, 5000 + rr, p, p) if caught else r
    if n == 'tcrf':
        r = ev(a[1], p, T)
        w = a[0].name
        caught = (r[0] in (2, 3)) if w in ('void', 'any_type') else (r[0] == 2) if w.endswith('verif_exc') else (r[0] == 3) if w.endswith('foreign_exc') else False
        return (0, p, 0, 0, r[4]) if caught else r
    raise ValueError(n)


def ev2(e, p, end, T):
    n, a = e.name, e.args
    if n == 'sym2':
        k = ival(a[0])
        r = T.res2[k][p][end]
        q = T.np2[k][p][end]
        if r == 1:
            return (1, q, 0, 0, q)
        if r == 0:
            return (0, p, 0, 0, q)
        return (r, p, (1100 if r == 2 else 2100) + k, q, q)
    if n == 'success':
        return (1, p, 0, 0, p)
    if n == 'failure':
        return (0, p, 0, 0, p)
    if n == 'raise':
        return (2, p, pegspec.default_rid(a[0]), p, p)
    if n == 'eof':
        return (1, p, 0, 0, p) if p == end else (0, p, 0, 0, p)
    if n == 'any':
        return (1, p + 1, 0, 0, p + 1) if p < end else (0, p, 0, 0, p)
    if n == 'seq':
        q = p
        for x in a:
            r = ev2(x, q, end, T)
            if r[0] != 1:
                return (0, p, 0, 0, p) if r[0] == 0 else r
            q = r[1]
        return (1, q, 0, 0, q)
    if n == 'sor':
        for x in a:
            r = ev2(x, p, end, T)
            if r[0] != 0:
                return r
        return (0, p, 0, 0, p)
    if n == 'opt':
        r = ev2(a[0], p, end, T)
        return (1, p, 0, 0, p) if r[0] == 0 else r
    if n == 'at':
        r = ev2(a[0], p, end, T)
        return (1, p, 0, 0, p) if r[0] == 1 else r
    if n == 'not_at':
        r = ev2(a[0], p, end, T)
        return (0, p, 0, 0, p) if r[0] == 1 else (1, p, 0, 0, p) if r[0] == 0 else r
    raise ValueError(n)


def outcomes(e, K, N=3, samples=3000, seed=7, maxres=3):
    rnd = random.Random(seed)
    seen = set()
    for _ in range(samples):
        n = rnd.randint(0, N)
        T = Tab(n, K, rnd, maxres)
        st = rnd.randint(0, n)
        r = ev(e, st, T)
        if r[0] == 1:
            seen.add('succ+' if r[1] > st else 'succ')
        elif r[0] == 0:
            seen.add('fail')
        elif r[0] == 2:
            seen.add('raise' if r[2] < 1000 else 'nested' if r[2] >= 4000 else 'symraise')
        elif r[0] == 3:
            seen.add('foreign')
    return seen


# ------------------------------------------------------------------ generators

WRAP_HEAD = '''// generated wrapper TU — instantiates the real PEGTL templates from /repo/include
#include "common.hpp"
%(includes)s
using namespace tao::pegtl;
using vf::sym;
using vf::sym2;
using vf::named;
using vf::verif_exc;
using vf::foreign_exc;
%(preamble)s
'''


def wrapper_text(cases, includes=(), preamble='', variants='4'):
    L = [WRAP_HEAD % {'includes': '\n'.join('#include <%s>' % i for i in includes), 'preamble': preamble}]
    for c in cases:
        L.append('VF_WRAP%s( w_%s, %s )' % (variants, c['name'], c['cxx']))
    return '\n'.join(L) + '\n'


HARNESS = r'''/* generated harness: real rule over symbolic sub-rules vs PEG reference semantics */
#define SP_N %(N)d
#define SP_K %(K)d
#define SP_MAXRES %(maxres)d
#define SP_BYTES %(bytes)d
%(k2)s
%(lazy)s
#include "verif.h"
#include "symtab.h"

%(spec)s

#include "symcheck.h"

#ifndef VF_SPLIT   /* CBMC queries select a slice of the variants; the native builds run all of them */
%(alldefs)s
#endif

static void harness(void) {
  sp_setup();
  out_t e = %(specfn)s(sp_start);
  ASSUME(e.r != 4); /* repetition over a body that succeeds without progress: C11's subject */
  u64 o[8];
%(calls)s
  ASSUME(!sp_exhausted);
  OBS(e.r); OBS(e.pos);
%(reach)s
}
'''


def harness_text(case, N, K, doc, maxres=3, variants=('ar', 'ao', 'nr', 'no'), bytes_=False, k2=0, lazy=False):
    g = pegspec.Gen()
    e = lower(parse(case['spec']), doc)
    fn = g.fn(e)
    calls = []
    # apply-mode forwarding: unless the rule itself switches actions (predicates, disable/enable, rules documented through not_at<>), every
    # sub-rule call has to receive the apply mode the rule was called with
    import re as _re
    switches = _re.search(r'\b(at|not_at|disable|enable|minus|rep_max|rep_min_max|apply0?|if_apply|state|control|action)\s*<', case.get('cxx', case['spec'])) is not None
    for v in variants:
        exp = -1 if (switches or v[0] not in 'an') else (1 if v[0] == 'a' else 0)
        calls.append('#if V_%s\n  sp_expect_reset(%d); w_%s_%s(sp_buf, sp_n, sp_start, o); sp_expect_check(o[0]); check_variant("%s", o, e, %d);\n#endif' % (v, exp, case['name'], v, v, 1 if v[1] == 'r' else 0))
    seen = outcomes(e, K, maxres=maxres)
    allv = ('ar', 'ao', 'nr', 'no', 'pr', 'po', 'qr')
    reach = []
    if 'succ+' in seen:
        reach.append('  REACH(e.r == 1 && e.pos > sp_start, "success that consumes");')
    elif 'succ' in seen:
        reach.append('  REACH(e.r == 1, "success");')
    if 'fail' in seen:
        reach.append('  REACH(e.r == 0, "local failure");')
    if 'raise' in seen:
        reach.append('  REACH(e.r == 2 && e.id < 1000, "global failure raised by a must-rule");')
    if 'symraise' in seen:
        reach.append('  REACH(e.r == 2 && e.id >= 1000 && e.id < 4000, "exception from a sub-rule propagates");')
    if 'nested' in seen:
        reach.append('  REACH(e.r == 2 && e.id >= 4000, "exception converted by raise_nested");')
    if 'foreign' in seen:
        reach.append('  REACH(e.r == 3, "foreign exception propagates");')
    return HARNESS % {'N': N, 'K': K, 'maxres': maxres, 'bytes': 1 if bytes_ else 0, 'k2': ('#define SP_K2 %d' % k2) if k2 else '', 'lazy': '#define SP_LAZY 1' if lazy else '', 'spec': g.text(), 'specfn': fn, 'calls': '\n'.join(calls), 'reach': '\n'.join(reach),
                      'alldefs': '\n'.join('#define V_%s 1' % v for v in variants)}, repr(e), sorted(seen)
