"""pegspec — PEG reference semantics as generated C, for rules over symbolic sub-rules.

An expression is written exactly as the C++ type is spelled in a wrapper TU
(`seq< sym<0>, must< sym<1> > >`).  Convenience rules are expanded with the
`[Equivalent] to` clauses read from /repo/doc/Rule-Reference.md at run time, so the
oracle for C09 is the documentation, not the header that implements the rule.

The generated C evaluates an expression at a position over the harness' behaviour tables
(see harness/symtab.h) and returns

    out_t { r, pos, id, lo, far }
      r   0 local failure | 1 success | 2 verif_exc (global failure) | 3 foreign exception | 4 diverges
      pos cursor after a success
      id  identity of the exception (rule id of the blamed rule / 1000+k / 2000+k)
      lo  start of the blamed attempt,  far  furthest position the attempt reached
"""
import re

# ------------------------------------------------------------------ AST

class E:
    def __init__(s, name, args=()):
        s.name = name
        s.args = list(args)

    def __repr__(s):
        if not s.args:
            return s.name
        return s.name + '< ' + ', '.join(map(repr, s.args)) + ' >'

    def key(s):
        return repr(s)


class Pack:
    """pattern... inside an argument list (documentation clauses only)"""
    def __init__(s, pat):
        s.pat = pat

    def __repr__(s):
        return repr(s.pat) + '...'


TOK = re.compile(r"\s*(\.\.\.|'(?:\\.|[^'])+'|0x[0-9a-fA-F]+|[A-Za-z_][A-Za-z_0-9:]*|\d+|[<>,()+\-*])")


def tokenize(t):
    out, i = [], 0
    t = t.strip()
    while i < len(t):
        m = TOK.match(t, i)
        if not m:
            raise ValueError('cannot tokenize %r at %d' % (t, i))
        out.append(m.group(1))
        i = m.end()
    return out


def parse(text):
    toks = tokenize(text)
    pos = [0]

    def peek():
        return toks[pos[0]] if pos[0] < len(toks) else None

    def take():
        t = toks[pos[0]]
        pos[0] += 1
        return t

    def atom():
        t = take()
        if t == '(':
            e = expr()
            assert take() == ')'
            return e
        node = E(t)
        if peek() == '<':
            take()
            if peek() == '>':
                take()
                return node
            while True:
                a = expr()
                if peek() == '...':
                    take()
                    a = Pack(a)
                node.args.append(a)
                t2 = take()
                if t2 == '>':
                    break
                assert t2 == ',', (text, t2)
        return node

    def expr():
        e = atom()
        while peek() in ('+', '-', '*'):
            op = take()
            r = atom()
            e = E(op, [e, r])
        return e

    e = expr()
    assert pos[0] == len(toks), (text, toks[pos[0]:])
    return e


def is_int(e):
    return isinstance(e, E) and not e.args and re.fullmatch(r'\d+|0x[0-9a-fA-F]+', e.name)


def ival(e):
    if e.name in ('+', '-', '*') and len(e.args) == 2:
        a, b = ival(e.args[0]), ival(e.args[1])
        return a + b if e.name == '+' else a - b if e.name == '-' else a * b
    return int(e.name, 0)


def I(n):
    return E(str(n))


# ------------------------------------------------------------------ documentation clauses

def doc_clauses(path):
    """heading text -> list of [Equivalent] clause expressions (strings)"""
    out = {}
    cur = None
    for line in open(path, encoding='utf-8'):
        m = re.match(r"###### `(.*)`\s*$", line)
        if m:
            cur = m.group(1)
            out.setdefault(cur, [])
            continue
        m = re.match(r"\* \[Equivalent\] to `([^`]*)`(.*)$", line)
        if m and cur is not None:
            out[cur].append((m.group(1), m.group(2).strip()))
    return out


def subst(e, env):
    """substitute documentation parameters; env: name -> E | list[E] (pack) | int"""
    if isinstance(e, Pack):
        raise ValueError('pack outside argument list')
    if not e.args and e.name in env:
        v = env[e.name]
        if isinstance(v, list):
            raise ValueError('pack %s used without ...' % e.name)
        return v
    args = []
    for a in e.args:
        if isinstance(a, Pack):
            names = [n for n in pack_names(a.pat) if isinstance(env.get(n), list)]
            if not names:
                raise ValueError('no pack in %r' % a)
            ln = len(env[names[0]])
            for i in range(ln):
                env2 = dict(env)
                for n in names:
                    env2[n] = env[n][i]
                args.append(subst(a.pat, env2))
        else:
            args.append(subst(a, env))
    r = E(e.name, args)
    if r.name in ('+', '-', '*') and all(is_int(x) or x.name in '+-*' for x in r.args):
        return I(ival(r))
    return r


def pack_names(e):
    if isinstance(e, Pack):
        return pack_names(e.pat)
    out = [e.name] if not e.args else []
    for a in e.args:
        out += pack_names(a)
    return out


def bind(heading, inst):
    """match an instantiation against a documentation heading like `if_must< R, S... >`"""
    defaults = dict((m.group(1), m.group(2)) for m in re.finditer(r"([A-Za-z_]+)\s*=\s*([A-Za-z_]+)", heading))
    h = parse(re.sub(r"\s*=\s*[A-Za-z_]+", "", heading))
    if h.name != inst.name:
        return None
    env = {}
    ha, ia = h.args, list(inst.args)
    if len(ia) < len(ha) and defaults and not any(isinstance(p, Pack) for p in ha):
        # trailing defaulted parameters (`pad< R, S, T = S >`)
        names = [p.name for p in ha]
        for p in ha[len(ia):]:
            if p.name not in defaults:
                return None
            ia.append(ia[names.index(defaults[p.name])])
    for k, p in enumerate(ha):
        if isinstance(p, Pack):
            rest = len(ha) - k - 1
            take = len(ia) - rest
            if take < 0:
                return None
            env[p.pat.name] = ia[:take]
            ia = ia[take:]
        else:
            if not ia:
                return None
            env[p.name] = ia.pop(0)
    if ia:
        return None
    return env


class Doc:
    def __init__(s, path):
        s.path = path
        s.clauses = doc_clauses(path)
        s.used = []

    def expansion(s, inst, which=0):
        """first applicable [Equivalent] clause of the documentation for this instantiation"""
        cands = []
        for heading, cl in s.clauses.items():
            if not cl or not heading.startswith(inst.name + '<'):
                continue
            try:
                env = bind(heading, inst)
            except Exception:
                env = None
            if env is None:
                continue
            # `until< R >` must not be matched by `until< R, S... >` with an empty pack
            npack_empty = sum(1 for v in env.values() if isinstance(v, list) and not v)
            cands.append((npack_empty, heading, env, cl))
        if not cands:
            return None
        cands.sort(key=lambda c: c[0])
        _, heading, env, cl = cands[0]
        text, tail = cl[which]
        s.used.append((repr(inst), heading, text, tail))
        return subst(parse(text), env)


# ------------------------------------------------------------------ lowering to core semantics

CORE = {'sym', 'seq', 'sor', 'star', 'plus', 'opt', 'at', 'not_at', 'success', 'failure', 'eof', 'any',
        'raise', 'must1', 'tcrf', 'partial', 'star_partial', 'repn', 'strict_prose', 'star_strict', 'bof'}


def seqof(args):
    return args[0] if len(args) == 1 else E('seq', args)


def lower(e, doc, via_doc=True):
    """expand convenience rules (documentation clauses) down to CORE"""
    n, a = e.name, e.args
    L = lambda x: lower(x, doc, via_doc)
    if n == 'sym':
        return e
    if n in ('success', 'failure', 'eof', 'any', 'bof'):
        return E(n)
    if n in ('seq', 'sor'):
        if not a:
            return E('success' if n == 'seq' else 'failure')
        return E(n, [L(x) for x in a])
    if n in ('star', 'plus', 'opt', 'at', 'not_at'):
        if not a:
            # doc: opt<>/at<>: success; not_at<>: failure; star<> is ill-formed
            return E('failure' if n == 'not_at' else 'success')
        return E(n, [L(seqof(a))])
    if n == 'raise':
        return E('raise', [a[0]])          # operand is an identity, not evaluated
    if n == 'must':
        # doc: seq< sor< R, raise< R > >... >
        x = doc.expansion(e, 1)
        return L(x)
    if n == 'rep':
        # doc clause is prose with an ellipsis: seq<R...> repeated Num times
        num = ival(a[0])
        doc.used.append((repr(e), 'rep< Num, R... >', 'seq< seq< R... >, ..., seq< R... > > (Num times)', 'prose'))
        if num == 0 or len(a) == 1:
            return E('success')
        return E('seq', [L(seqof(a[1:])) for _ in range(num)])
    if n == 'partial':
        doc.used.append((repr(e), 'partial< R... >', 'prose: stop at the first failing rule, keep what was consumed', 'prose'))
        return E('partial', [L(x) for x in a])
    if n == 'star_partial':
        doc.used.append((repr(e), 'star_partial< R... >', 'prose: star, final iteration keeps a partial match', 'prose'))
        return E('star_partial', [L(x) for x in a])
    if n == 'star_strict':
        doc.used.append((repr(e), 'star_strict< R... >', 'prose: star, a partial match fails locally', 'prose'))
        return E('star_strict', [L(x) for x in a])
    if n == 'strict':
        # doc: sor< not_at< R1 >, seq< R... > >
        return L(E('sor', [E('not_at', [a[0]]), E('seq', a)]))
    if n == 'sym2':
        return e
    if n == 'rematch':
        doc.used.append((repr(e), 'rematch< R, S... >', 'prose: R matches, and each S matches the input that R matched (need not match all of it)', 'prose'))
        return E('rematch', [L(a[0])] + [L(x) for x in a[1:]])
    if n == 'named':
        return E('named', [a[0], L(seqof(a[1:]))])
    if n in ('try_catch_raise_nested', 'try_catch_any_raise_nested', 'try_catch_std_raise_nested', 'try_catch_type_raise_nested'):
        what = {'try_catch_raise_nested': E('parse_error_base'), 'try_catch_any_raise_nested': E('any_type'), 'try_catch_std_raise_nested': E('std_exception')}.get(n)
        rules = a
        if what is None:
            what, rules = a[0], a[1:]
        if not rules:
            return E('success')
        blamed = rules[0] if len(rules) == 1 else E('seq', rules)
        return E('tcrn', [what, L(seqof(rules)), I(default_rid(blamed) & 0xffffffff)])
    if n == 'try_catch_return_false':
        return E('tcrf', [E('parse_error_base'), L(seqof(a))])   # public alias catches tao::pegtl::parse_error_base only
    if n == 'try_catch_any_return_false':
        return E('tcrf', [E('any_type'), L(seqof(a))])
    if n == 'try_catch_std_return_false':
        return E('tcrf', [E('std_exception'), L(seqof(a))])
    if n == 'try_catch_type_return_false':
        return E('tcrf', [a[0], L(seqof(a[1:]))])
    x = doc.expansion(e)
    if x is None:
        raise ValueError('no semantics for %r' % e)
    return L(x)


# ------------------------------------------------------------------ C code generation

class Gen:
    def __init__(s, rid=None):
        s.fns = {}
        s.order = []
        s.rid = rid or (lambda e: default_rid(e))

    def fn(s, e):
        k = e.key()
        if k in s.fns:
            return s.fns[k]
        name = 'e%d' % len(s.fns)
        s.fns[k] = name
        body = s.body(e)
        s.order.append('/* %s */\nstatic out_t %s(u64 p) {\n%s\n}\n' % (k, name, body))
        return name

    def body(s, e):
        n, a = e.name, e.args
        if n == 'sym':
            return '  return sp_sym(%d, p);' % ival(a[0])
        if n == 'success':
            return '  return sp_succ(p, p);'
        if n == 'failure':
            return '  return sp_fail(p, p);'
        if n == 'eof':
            return '  return p == sp_n ? sp_succ(p, p) : sp_fail(p, p);'
        if n == 'bof':
            return '  return p == 0 ? sp_succ(p, p) : sp_fail(p, p);'
        if n == 'any':
            return '  return p < sp_n ? sp_succ(p + 1, p + 1) : sp_fail(p, p);'
        if n == 'raise':
            return '  out_t o = { 2, p, %d, p, p }; return o;' % s.rid(a[0])
        if n == 'seq':
            L = ['  u64 q = p, far = p; out_t a;']
            for x in a:
                L.append('  a = %s(q); if (a.far > far) far = a.far; if (a.r != 1) { if (a.r == 0) return sp_fail(p, far); return a; } q = a.pos;' % s.fn(x))
            L.append('  return sp_succ(q, far);')
            return '\n'.join(L)
        if n == 'sor':
            L = ['  u64 far = p; out_t a;']
            for x in a:
                # a raise<> reached after earlier alternatives failed: the blamed attempt reached as far as those alternatives did
                L.append('  a = %s(p); if (a.far > far) far = a.far; if (a.r != 0) { if (a.r == 1 || (a.r == 2 && a.id < 1000)) a.far = far; return a; }' % s.fn(x))
            L.append('  return sp_fail(p, far);')
            return '\n'.join(L)
        if n == 'opt':
            return ('  out_t a = %s(p); if (a.r == 0) return sp_succ(p, a.far); return a;' % s.fn(a[0]))
        if n == 'at':
            return ('  out_t a = %s(p); if (a.r == 1) return sp_succ(p, a.far); return a;' % s.fn(a[0]))
        if n == 'not_at':
            return ('  out_t a = %s(p); if (a.r == 1) return sp_fail(p, a.far); if (a.r == 0) return sp_succ(p, a.far); return a;' % s.fn(a[0]))
        if n == 'star':
            f = s.fn(a[0])
            return ('  u64 q = p, far = p;\n'
                    '  for (unsigned i = 0; i <= SP_N + 1; ++i) { out_t a = %s(q); if (a.far > far) far = a.far;\n'
                    '    if (a.r == 0) return sp_succ(q, far); if (a.r != 1) return a; if (a.pos == q) return sp_div(q); q = a.pos; }\n'
                    '  return sp_div(q);' % f)
        if n == 'plus':
            f = s.fn(a[0])
            return ('  out_t a = %s(p); if (a.r != 1) return a; u64 q = a.pos, far = a.far;\n'
                    '  for (unsigned i = 0; i <= SP_N + 1; ++i) { a = %s(q); if (a.far > far) far = a.far;\n'
                    '    if (a.r == 0) return sp_succ(q, far); if (a.r != 1) return a; if (a.pos == q) return sp_div(q); q = a.pos; }\n'
                    '  return sp_div(q);' % (f, f))
        if n == 'partial':
            L = ['  u64 q = p, far = p; out_t a;']
            for x in a:
                L.append('  a = %s(q); if (a.far > far) far = a.far; if (a.r == 0) return sp_succ(q, far); if (a.r != 1) return a; q = a.pos;' % s.fn(x))
            L.append('  return sp_succ(q, far);')
            return '\n'.join(L)
        if n == 'star_partial':
            L = ['  u64 q = p, far = p; out_t a;', '  for (unsigned i = 0; i <= SP_N + 1; ++i) { u64 q0 = q;']
            for x in a:
                L.append('    a = %s(q); if (a.far > far) far = a.far; if (a.r == 0) return sp_succ(q, far); if (a.r != 1) return a; q = a.pos;' % s.fn(x))
            L.append('    if (q == q0) return sp_div(q); }')
            L.append('  return sp_div(q);')
            return '\n'.join(L)
        if n == 'star_strict':
            first = s.fn(a[0])
            rest = s.fn(E('seq', a[1:])) if len(a) > 1 else None
            L = ['  u64 q = p, far = p; out_t a;', '  for (unsigned i = 0; i <= SP_N + 1; ++i) { u64 q0 = q;',
                 '    a = %s(q); if (a.far > far) far = a.far; if (a.r == 0) return sp_succ(q, far); if (a.r != 1) return a; q = a.pos;' % first]
            if rest:
                L.append('    a = %s(q); if (a.far > far) far = a.far; if (a.r == 0) return sp_fail(p, far); if (a.r != 1) return a; q = a.pos;' % rest)
            L.append('    if (q == q0) return sp_div(q); }')
            L.append('  return sp_div(q);')
            return '\n'.join(L)
        if n == 'rematch':
            L = ['  out_t h = %s(p); if (h.r != 1) return h;' % s.fn(a[0]), '  out_t x;']
            for x in a[1:]:
                L.append('  x = %s(p, h.pos); if (x.r != 1) { if (x.r == 0) return sp_fail(p, h.far); return x; }' % s.fn2(x))
            L.append('  return h;')
            return '\n'.join(L)
        if n == 'named':
            return '  return %s(p);' % s.fn(a[1])
        if n == 'tcrn':
            what = a[0].name
            f = s.fn(a[1])
            r = ival(a[2])
            if r >= 0x80000000:
                r -= 0x100000000
            if what in ('void', 'any_type'):
                cond = 'a.r == 2 || a.r == 3'
            elif what.endswith('verif_exc'):
                cond = 'a.r == 2'
            elif what.endswith('foreign_exc'):
                cond = 'a.r == 3'
            else:
                cond = '0'
            # converted into a new global failure raised through Control< Rule >::raise_nested with the START position
            return ('  out_t a = %s(p); if (%s) { out_t x = { 2, p, %d, p, p }; return x; } return a;' % (f, cond, 5000 + r))
        if n == 'tcrf':
            what = a[0].name
            f = s.fn(a[1])
            if what in ('void', 'any_type'):
                cond = 'a.r == 2 || a.r == 3'
            elif what in ('verif_exc', 'vf::verif_exc'):
                cond = 'a.r == 2'
            elif what in ('foreign_exc', 'vf::foreign_exc'):
                cond = 'a.r == 3'
            else:
                cond = '0'      # std::exception and unrelated types: neither harness exception derives from them
            return ('  out_t a = %s(p); if (%s) return sp_fail(p, a.far); return a;' % (f, cond))
        raise ValueError('no C semantics for %r' % e)

    # ---- rules evaluated on a sub-input [.., end) (rematch): functions f(p, end)
    def fn2(s, e):
        k = '2:' + e.key()
        if k in s.fns:
            return s.fns[k]
        name = 'r%d' % len(s.fns)
        s.fns[k] = name
        body = s.body2(e)
        s.order.append('/* on sub-input: %s */\nstatic out_t %s(u64 p, u64 end) {\n%s\n}\n' % (e.key(), name, body))
        return name

    def body2(s, e):
        n, a = e.name, e.args
        if n == 'sym2':
            return '  return sp_sym2(%d, p, end);' % ival(a[0])
        if n == 'success':
            return '  return sp_succ(p, p);'
        if n == 'failure':
            return '  return sp_fail(p, p);'
        if n == 'raise':
            return '  out_t o = { 2, p, %d, p, p }; return o;' % s.rid(a[0])
        if n == 'eof':
            return '  return p == end ? sp_succ(p, p) : sp_fail(p, p);'
        if n == 'any':
            return '  return p < end ? sp_succ(p + 1, p + 1) : sp_fail(p, p);'
        if n == 'seq':
            L = ['  u64 q = p, far = p; out_t a;']
            for x in a:
                L.append('  a = %s(q, end); if (a.far > far) far = a.far; if (a.r != 1) { if (a.r == 0) return sp_fail(p, far); return a; } q = a.pos;' % s.fn2(x))
            L.append('  return sp_succ(q, far);')
            return '\n'.join(L)
        if n == 'sor':
            L = ['  u64 far = p; out_t a;']
            for x in a:
                L.append('  a = %s(p, end); if (a.far > far) far = a.far; if (a.r != 0) { if (a.r == 1 || (a.r == 2 && a.id < 1000)) a.far = far; return a; }' % s.fn2(x))
            L.append('  return sp_fail(p, far);')
            return '\n'.join(L)
        if n == 'opt':
            return '  out_t a = %s(p, end); if (a.r == 0) return sp_succ(p, a.far); return a;' % s.fn2(a[0])
        if n == 'at':
            return '  out_t a = %s(p, end); if (a.r == 1) return sp_succ(p, a.far); return a;' % s.fn2(a[0])
        if n == 'not_at':
            return '  out_t a = %s(p, end); if (a.r == 1) return sp_fail(p, a.far); if (a.r == 0) return sp_succ(p, a.far); return a;' % s.fn2(a[0])
        raise ValueError('no sub-input semantics for %r' % e)

    def text(s):
        return '\n'.join(s.order)


def default_rid(e):
    if e.name == 'sym':
        return ival(e.args[0])
    if e.name == 'sym2':
        return 10 + ival(e.args[0])
    if e.name == 'named':
        return 100 + ival(e.args[0])
    return -1


def spec_c(exprs, doc, rid=None):
    """exprs: {cname: expression text}; returns (C text, {cname: fn name}, lowered reprs)"""
    g = Gen(rid)
    names = {}
    low = {}
    for cn, text in exprs.items():
        e = lower(parse(text), doc)
        low[cn] = repr(e)
        names[cn] = g.fn(e)
    return g.text(), names, low


if __name__ == '__main__':
    import sys
    d = Doc('/repo/doc/Rule-Reference.md')
    for t in sys.argv[1:]:
        print(t, '=>', lower(parse(t), d))
    for u in d.used:
        print('  doc:', u)
