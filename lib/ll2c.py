#!/usr/bin/env python3
"""ll2c prototype: translate a subset of LLVM-14 textual IR (clang -O1 output) to C for CBMC.

Prototype written during the design phase to measure feasibility.  Typed pointers only.
"""
import re, sys, collections

# ----------------------------------------------------------------------------- types

class Ty:
    pass

class IntTy(Ty):
    def __init__(s, bits): s.bits = bits
    def __repr__(s): return f"i{s.bits}"

class VoidTy(Ty):
    def __repr__(s): return "void"

class FloatTy(Ty):
    def __init__(s, name): s.name = name
    def __repr__(s): return s.name

class PtrTy(Ty):
    def __init__(s, to): s.to = to
    def __repr__(s): return f"{s.to!r}*"

class ArrTy(Ty):
    def __init__(s, n, el): s.n = n; s.el = el
    def __repr__(s): return f"[{s.n} x {s.el!r}]"

class StructTy(Ty):
    def __init__(s, fields, packed=False): s.fields = fields; s.packed = packed
    def __repr__(s): return ("<{" if s.packed else "{") + ", ".join(map(repr, s.fields)) + ("}>" if s.packed else "}")

class NamedTy(Ty):
    def __init__(s, name): s.name = name
    def __repr__(s): return "%" + s.name

class FuncTy(Ty):
    def __init__(s, ret, args, vararg): s.ret = ret; s.args = args; s.vararg = vararg
    def __repr__(s): return f"{s.ret!r} ({', '.join(map(repr, s.args))}{', ...' if s.vararg else ''})"

class OpaqueTy(Ty):
    def __repr__(s): return "opaque"

class Lexer:
    """Tokenizer for a type/value fragment."""
    TOK = re.compile(r'''\s*(
        %"(?:[^"\\]|\\.)*" | %[-a-zA-Z$._0-9]+ |
        @"(?:[^"\\]|\\.)*" | @[-a-zA-Z$._0-9]+ |
        c"(?:[^"\\]|\\.)*" |
        "(?:[^"\\]|\\.)*" |
        ![-a-zA-Z$._0-9]* |
        \#[0-9]+ |
        -?[0-9]+\.[0-9]+(?:e[-+]?[0-9]+)? | 0x[0-9A-Fa-f]+ | -?[0-9]+ |
        \.\.\. | <\{ | \}> |
        [-a-zA-Z_.][-a-zA-Z_.0-9]* |
        [{}()\[\]<>,=*:]
    )''', re.X)

    def __init__(s, text):
        s.toks = []
        pos = 0
        while pos < len(text):
            m = s.TOK.match(text, pos)
            if not m:
                if text[pos:].strip() == "":
                    break
                raise SyntaxError(f"lex error at {text[pos:pos+40]!r} in {text[:200]!r}")
            s.toks.append(m.group(1))
            pos = m.end()
        s.i = 0

    def peek(s, k=0):
        return s.toks[s.i + k] if s.i + k < len(s.toks) else None

    def next(s):
        t = s.peek(); s.i += 1; return t

    def expect(s, t):
        n = s.next()
        if n != t:
            raise SyntaxError(f"expected {t!r} got {n!r} in {' '.join(s.toks)[:300]}")

    def accept(s, t):
        if s.peek() == t:
            s.i += 1; return True
        return False

    def eof(s): return s.i >= len(s.toks)


def unq(name):
    """strip sigil and quotes from %"x" / @"x"."""
    n = name[1:]
    if n.startswith('"'):
        n = n[1:-1]
    return n


def parse_type(lx):
    t = lx.next()
    if t == 'void':
        ty = VoidTy()
    elif re.fullmatch(r'i[0-9]+', t):
        ty = IntTy(int(t[1:]))
    elif t in ('float', 'double', 'x86_fp80', 'half'):
        ty = FloatTy(t)
    elif t == 'opaque':
        ty = OpaqueTy()
    elif t == 'ptr':
        ty = PtrTy(IntTy(8))
    elif t.startswith('%'):
        ty = NamedTy(unq(t))
    elif t == '{' or t == '<{':
        packed = (t == '<{')
        fields = []
        close = '}>' if packed else '}'
        if not lx.accept(close):
            while True:
                fields.append(parse_type(lx))
                if lx.accept(close):
                    break
                lx.expect(',')
        ty = StructTy(fields, packed)
    elif t == '[':
        n = int(lx.next()); lx.expect('x'); el = parse_type(lx); lx.expect(']')
        ty = ArrTy(n, el)
    elif t == '<':
        raise SyntaxError("vector types unsupported")
    else:
        raise SyntaxError(f"bad type token {t!r} in {' '.join(lx.toks)[:300]}")
    while True:
        if lx.accept('*'):
            ty = PtrTy(ty)
        elif lx.peek() == '(' and not isinstance(ty, (type(None),)) and is_functype_ahead(lx):
            lx.next()
            args = []; vararg = False
            if not lx.accept(')'):
                while True:
                    if lx.accept('...'):
                        vararg = True
                    else:
                        args.append(parse_type(lx))
                    if lx.accept(')'):
                        break
                    lx.expect(',')
            ty = FuncTy(ty, args, vararg)
        else:
            break
    return ty


def is_functype_ahead(lx):
    # a '(' directly after a type begins a function type only if followed by a type or ')' or '...'
    # and the matching ')' is followed by '*'.  We only meet this in pointer-to-function types.
    depth = 0
    j = lx.i
    while j < len(lx.toks):
        t = lx.toks[j]
        if t == '(':
            depth += 1
        elif t == ')':
            depth -= 1
            if depth == 0:
                return j + 1 < len(lx.toks) and lx.toks[j + 1] == '*'
        j += 1
    return False

# ----------------------------------------------------------------------------- values

class Val:
    pass

class Local(Val):
    def __init__(s, name): s.name = name
    def __repr__(s): return "%" + s.name

class Global(Val):
    def __init__(s, name): s.name = name
    def __repr__(s): return "@" + s.name

class ConstInt(Val):
    def __init__(s, v): s.v = v
    def __repr__(s): return str(s.v)

class ConstNull(Val):
    pass

class ConstUndef(Val):
    pass

class ConstZero(Val):
    pass

class ConstStr(Val):
    def __init__(s, b): s.b = b

class ConstAgg(Val):
    def __init__(s, kind, elems): s.kind = kind; s.elems = elems  # elems: list of (type, val)

class ConstExpr(Val):
    def __init__(s, op, args, extra=None): s.op = op; s.args = args; s.extra = extra  # args: list of (type,val)


def parse_cstring(tok):
    body = tok[2:-1]
    out = bytearray()
    i = 0
    while i < len(body):
        if body[i] == '\\':
            if body[i + 1] == '\\':
                out.append(92); i += 2
            else:
                out.append(int(body[i + 1:i + 3], 16)); i += 3
        else:
            out.append(ord(body[i])); i += 1
    return bytes(out)


def parse_value(lx, ty):
    t = lx.next()
    if t.startswith('%'):
        return Local(unq(t))
    if t.startswith('@'):
        return Global(unq(t))
    if re.fullmatch(r'-?[0-9]+', t):
        return ConstInt(int(t))
    if t == 'true':
        return ConstInt(1)
    if t == 'false':
        return ConstInt(0)
    if t == 'null':
        return ConstNull()
    if t in ('undef', 'poison'):
        return ConstUndef()
    if t == 'zeroinitializer':
        return ConstZero()
    if t.startswith('c"'):
        return ConstStr(parse_cstring(t))
    if t in ('{', '<{', '['):
        close = {'{': '}', '<{': '}>', '[': ']'}[t]
        elems = []
        if not lx.accept(close):
            while True:
                et = parse_type(lx)
                ev = parse_value(lx, et)
                elems.append((et, ev))
                if lx.accept(close):
                    break
                lx.expect(',')
        return ConstAgg(t, elems)
    if t in ('getelementptr', 'bitcast', 'ptrtoint', 'inttoptr', 'trunc', 'zext', 'sext', 'add', 'sub', 'mul', 'and', 'or', 'xor', 'icmp', 'select', 'shl', 'lshr'):
        op = t
        extra = None
        while lx.peek() in ('inbounds', 'nuw', 'nsw', 'exact'):
            lx.next()
        if op == 'icmp':
            extra = lx.next()
        lx.expect('(')
        args = []
        if op == 'getelementptr':
            base = parse_type(lx); lx.expect(',')
            extra = base
        while True:
            if op == 'getelementptr':
                lx.accept('inrange')   # vtable address points: the marker carries no value semantics
            at = parse_type(lx)
            av = parse_value(lx, at)
            args.append((at, av))
            if lx.accept(')'):
                break
            if lx.accept('to'):
                extra = parse_type(lx)
                lx.expect(')')
                break
            lx.expect(',')
        return ConstExpr(op, args, extra)
    raise SyntaxError(f"bad value token {t!r} in {' '.join(lx.toks)[:300]}")

# ----------------------------------------------------------------------------- module

PARAM_ATTRS = {'noundef', 'nonnull', 'nocapture', 'readonly', 'writeonly', 'readnone', 'zeroext', 'signext', 'noalias',
               'returned', 'immarg', 'nofree', 'inreg', 'nest', 'swiftself', 'noalias'}


def skip_param_attrs(lx):
    while True:
        t = lx.peek()
        if t in PARAM_ATTRS:
            lx.next()
        elif t in ('align', 'dereferenceable', 'dereferenceable_or_null'):
            lx.next()
            if lx.accept('('):
                lx.next(); lx.expect(')')
            else:
                lx.next()
        elif t in ('sret', 'byval', 'byref', 'inalloca', 'preallocated', 'elementtype'):
            lx.next()
            if lx.accept('('):
                parse_type(lx); lx.expect(')')
        else:
            break


class Instr:
    def __init__(s, res, op, **kw):
        s.res = res; s.op = op; s.__dict__.update(kw)


class Block:
    def __init__(s, name): s.name = name; s.instrs = []


class Function:
    def __init__(s, name, ret, params, attrs):
        s.name = name; s.ret = ret; s.params = params; s.attrs = attrs; s.blocks = []; s.vararg = False


class Module:
    def __init__(s):
        s.named_types = collections.OrderedDict()
        s.globals = collections.OrderedDict()   # name -> (type, init or None, is_const)
        s.declares = collections.OrderedDict()  # name -> (ret, params, vararg, attrs)
        s.functions = collections.OrderedDict()
        s.attr_groups = {}


FN_PREFIX_WORDS = {'dso_local', 'dso_preemptable', 'linkonce_odr', 'linkonce', 'weak_odr', 'weak', 'internal', 'private', 'external',
                   'available_externally', 'hidden', 'protected', 'default', 'fastcc', 'ccc', 'coldcc', 'unnamed_addr', 'local_unnamed_addr',
                   'noundef', 'nonnull', 'zeroext', 'signext', 'noalias', 'common', 'thread_local', 'extern_weak', 'appending'}


def join_lines(lines):
    """join multi-line switch / landingpad / invoke instructions."""
    out = []
    i = 0
    while i < len(lines):
        ln = lines[i].rstrip('\n')
        s = ln.strip()
        if s.startswith('switch ') or ' = switch ' in s:
            while not ln.rstrip().endswith(']'):
                i += 1
                ln += ' ' + lines[i].strip()
        elif ' landingpad ' in s:
            while i + 1 < len(lines) and re.match(r'\s+(cleanup|catch |filter )', lines[i + 1]):
                i += 1
                ln += ' ' + lines[i].strip()
        elif (s.startswith('invoke ') or ' = invoke ' in s) and ' unwind label ' not in s:
            i += 1
            ln += ' ' + lines[i].strip()
        out.append(ln)
        i += 1
    return out


def strip_meta(s):
    # remove trailing metadata ", !tbaa !5" etc and comments
    s = re.sub(r',\s*![a-zA-Z_.]+\s+![0-9]+', '', s)
    s = re.sub(r'\s*;[^"]*$', '', s) if ';' in s and '"' not in s else s
    return s


def parse_module(text):
    m = Module()
    lines = join_lines(text.split('\n'))
    i = 0
    cur = None
    blk = None
    for raw in lines:
        s = raw.strip()
        if not s or s.startswith(';') or s.startswith('source_filename') or s.startswith('target ') or s.startswith('!') or s.startswith('$'):
            continue
        if cur is None:
            if s.startswith('%') and ' = type ' in s:
                name, rest = s.split(' = type ', 1)
                m.named_types[unq(name.strip())] = parse_type(Lexer(rest))
            elif s.startswith('@'):
                parse_global(m, s)
            elif s.startswith('declare '):
                if not ('@llvm.' in s and 'metadata' in s):  # metadata-only intrinsics (noalias.scope.decl, dbg.*) are dropped at their call sites
                    parse_declare(m, s)
            elif s.startswith('define '):
                cur = parse_define(m, s)
                blk = None
            elif s.startswith('attributes #'):
                mm = re.match(r'attributes #([0-9]+) = \{(.*)\}', s)
                m.attr_groups[mm.group(1)] = mm.group(2)
            continue
        # inside function
        if s == '}':
            m.functions[cur.name] = cur
            cur = None
            continue
        mm = re.match(r'^([-a-zA-Z$._0-9]+|"[^"]*"):', s)
        if mm and not raw.startswith('  '):
            lab = mm.group(1).strip('"')
            blk = Block(lab); cur.blocks.append(blk)
            continue
        if blk is None:
            # entry block is implicit: its label is the next unnamed number = number of params
            blk = Block(cur.entry_label); cur.blocks.append(blk)
        blk.instrs.append(parse_instr(strip_meta(s)))
    return m


def parse_global(m, s):
    mm = re.match(r'^(@"(?:[^"\\]|\\.)*"|@[-a-zA-Z$._0-9]+) = (.*)$', s)
    name = unq(mm.group(1)); rest = mm.group(2)
    rest = re.sub(r',\s*(comdat(\([^)]*\))?|align [0-9]+|section "[^"]*"|![a-z]+ ![0-9]+)', '', rest)
    lx = Lexer(rest)
    is_const = False; external = False
    while lx.peek() in FN_PREFIX_WORDS:
        if lx.next() in ('external', 'extern_weak'):
            external = True
    t = lx.next()
    if t == 'constant':
        is_const = True
    elif t != 'global':
        raise SyntaxError("global kind " + t + " in " + s[:200])
    ty = parse_type(lx)
    init = None
    if not lx.eof() and not external:
        init = parse_value(lx, ty)
    m.globals[name] = (ty, init, is_const)


def parse_fn_header(lx):
    global LAST_LINKAGE
    LAST_LINKAGE = set()
    while lx.peek() in FN_PREFIX_WORDS or lx.peek() in ('align', 'dereferenceable', 'dereferenceable_or_null'):
        t = lx.next()
        LAST_LINKAGE.add(t)
        if t in ('align',):
            lx.next()
        elif t in ('dereferenceable', 'dereferenceable_or_null'):
            lx.expect('('); lx.next(); lx.expect(')')
    ret = parse_type(lx)
    name = unq(lx.next())
    lx.expect('(')
    params = []; vararg = False
    if not lx.accept(')'):
        while True:
            if lx.accept('...'):
                vararg = True
            else:
                pt = parse_type(lx)
                skip_param_attrs(lx)
                pn = None
                if lx.peek() and lx.peek().startswith('%'):
                    pn = unq(lx.next())
                params.append((pt, pn))
            if lx.accept(')'):
                break
            lx.expect(',')
    attrs = []
    while not lx.eof():
        attrs.append(lx.next())
    return name, ret, params, vararg, attrs


def parse_declare(m, s):
    lx = Lexer(s[len('declare '):])
    name, ret, params, vararg, attrs = parse_fn_header(lx)
    m.declares[name] = (ret, params, vararg, attrs)


def parse_define(m, s):
    body = s[len('define '):]
    body = body[:body.rindex('{')]
    lx = Lexer(body)
    name, ret, params, vararg, attrs = parse_fn_header(lx)
    f = Function(name, ret, params, attrs)
    f.vararg = vararg
    f.static = bool(LAST_LINKAGE & {'linkonce_odr', 'linkonce', 'internal', 'private', 'weak_odr', 'weak'})
    # unnamed params are %0..%n-1; entry block label is %n
    n = 0
    np = []
    for (pt, pn) in params:
        if pn is None:
            pn = str(n)
        if pn.isdigit():
            n = int(pn) + 1
        np.append((pt, pn))
    f.params = np
    f.entry_label = str(n)
    return f


BINOPS = {'add', 'sub', 'mul', 'udiv', 'sdiv', 'urem', 'srem', 'and', 'or', 'xor', 'shl', 'lshr', 'ashr'}
CASTS = {'trunc', 'zext', 'sext', 'bitcast', 'ptrtoint', 'inttoptr', 'addrspacecast'}


def parse_typed_value(lx):
    t = parse_type(lx)
    skip_param_attrs(lx)
    v = parse_value(lx, t)
    return t, v


def parse_call_like(lx, res, op):
    # [tail|musttail|notail] call [fast-math] [cconv] [ret attrs] <ty> <fnptrval>(<args>) [attrs]
    while lx.peek() in FN_PREFIX_WORDS or lx.peek() in ('align', 'dereferenceable', 'dereferenceable_or_null', 'noundef'):
        t = lx.next()
        if t == 'align':
            lx.next()
        elif t.startswith('dereferenceable'):
            lx.expect('('); lx.next(); lx.expect(')')
    ret = parse_type(lx)
    if isinstance(ret, FuncTy):
        fty = ret; ret = fty.ret
    callee = parse_value(lx, None)
    lx.expect('(')
    args = []
    if not lx.accept(')'):
        while True:
            if lx.peek() == 'metadata':
                # skip metadata args
                lx.next(); lx.next()
                args.append((None, None))
            else:
                args.append(parse_typed_value(lx))
            if lx.accept(')'):
                break
            lx.expect(',')
    ins = Instr(res, op, ret=ret, callee=callee, args=[a for a in args if a[0] is not None])
    rest = []
    while not lx.eof() and lx.peek() not in ('to',):
        rest.append(lx.next())
    ins.attrs = rest
    if op == 'invoke':
        lx.expect('to'); lx.expect('label'); ins.normal = unq(lx.next())
        lx.expect('unwind'); lx.expect('label'); ins.unwind = unq(lx.next())
    return ins


def parse_instr(s):
    lx = Lexer(s)
    res = None
    if lx.peek(1) == '=':
        res = unq(lx.next()); lx.next()
    op = lx.next()
    if op in ('tail', 'musttail', 'notail'):
        op = lx.next()
    if op in BINOPS:
        flags = []
        while lx.peek() in ('nuw', 'nsw', 'exact'):
            flags.append(lx.next())
        ty = parse_type(lx); a = parse_value(lx, ty); lx.expect(','); b = parse_value(lx, ty)
        return Instr(res, 'bin', bop=op, ty=ty, a=a, b=b, flags=flags)
    if op == 'icmp':
        pred = lx.next(); ty = parse_type(lx); a = parse_value(lx, ty); lx.expect(','); b = parse_value(lx, ty)
        return Instr(res, 'icmp', pred=pred, ty=ty, a=a, b=b)
    if op in CASTS:
        ty = parse_type(lx); a = parse_value(lx, ty); lx.expect('to'); to = parse_type(lx)
        return Instr(res, 'cast', cop=op, ty=ty, a=a, to=to)
    if op == 'select':
        ct, c = parse_typed_value(lx); lx.expect(','); ty, a = parse_typed_value(lx); lx.expect(','); _, b = parse_typed_value(lx)
        return Instr(res, 'select', c=c, ty=ty, a=a, b=b)
    if op == 'freeze':
        ty, a = parse_typed_value(lx)
        return Instr(res, 'freeze', ty=ty, a=a)
    if op == 'load':
        lx.accept('volatile')
        ty = parse_type(lx); lx.expect(','); pty, p = parse_typed_value(lx)
        return Instr(res, 'load', ty=ty, pty=pty, p=p)
    if op == 'store':
        lx.accept('volatile')
        ty, v = parse_typed_value(lx); lx.expect(','); pty, p = parse_typed_value(lx)
        return Instr(res, 'store', ty=ty, v=v, pty=pty, p=p)
    if op == 'alloca':
        ty = parse_type(lx)
        cnt = None
        if lx.accept(','):
            if lx.peek() != 'align':
                cnt = parse_typed_value(lx)
        return Instr(res, 'alloca', ty=ty, cnt=cnt)
    if op == 'getelementptr':
        lx.accept('inbounds')
        base = parse_type(lx); lx.expect(',')
        pty, p = parse_typed_value(lx)
        idx = []
        while lx.accept(','):
            idx.append(parse_typed_value(lx))
        return Instr(res, 'gep', base=base, pty=pty, p=p, idx=idx)
    if op == 'phi':
        ty = parse_type(lx)
        inc = []
        while True:
            lx.expect('['); v = parse_value(lx, ty); lx.expect(','); lab = unq(lx.next()); lx.expect(']')
            inc.append((v, lab))
            if not lx.accept(','):
                break
        return Instr(res, 'phi', ty=ty, inc=inc)
    if op == 'br':
        if lx.peek() == 'label':
            lx.next(); return Instr(None, 'br', dest=unq(lx.next()))
        ty, c = parse_typed_value(lx); lx.expect(','); lx.expect('label'); t = unq(lx.next()); lx.expect(','); lx.expect('label'); f = unq(lx.next())
        return Instr(None, 'condbr', c=c, t=t, f=f)
    if op == 'switch':
        ty, v = parse_typed_value(lx); lx.expect(','); lx.expect('label'); d = unq(lx.next()); lx.expect('[')
        cases = []
        while not lx.accept(']'):
            ct, cv = parse_typed_value(lx); lx.expect(','); lx.expect('label'); cases.append((cv, unq(lx.next())))
        return Instr(None, 'switch', ty=ty, v=v, default=d, cases=cases)
    if op == 'ret':
        ty = parse_type(lx)
        if isinstance(ty, VoidTy):
            return Instr(None, 'ret', ty=ty, v=None)
        return Instr(None, 'ret', ty=ty, v=parse_value(lx, ty))
    if op == 'unreachable':
        return Instr(None, 'unreachable')
    if op in ('call', 'invoke'):
        return parse_call_like(lx, res, op)
    if op == 'extractvalue':
        ty, a = parse_typed_value(lx)
        idx = []
        while lx.accept(','):
            idx.append(int(lx.next()))
        return Instr(res, 'extractvalue', ty=ty, a=a, idx=idx)
    if op == 'insertvalue':
        ty, a = parse_typed_value(lx); lx.expect(','); ety, e = parse_typed_value(lx)
        idx = []
        while lx.accept(','):
            idx.append(int(lx.next()))
        return Instr(res, 'insertvalue', ty=ty, a=a, ety=ety, e=e, idx=idx)
    if op == 'landingpad':
        ty = parse_type(lx)
        cleanup = False; clauses = []
        while not lx.eof():
            t = lx.next()
            if t == 'cleanup':
                cleanup = True
            elif t == 'catch':
                ct, cv = parse_typed_value(lx); clauses.append(('catch', cv))
            elif t == 'filter':
                ct, cv = parse_typed_value(lx); clauses.append(('filter', cv))
        return Instr(res, 'landingpad', ty=ty, cleanup=cleanup, clauses=clauses)
    if op == 'resume':
        ty, v = parse_typed_value(lx)
        return Instr(None, 'resume', ty=ty, v=v)
    raise SyntaxError("unsupported instruction: " + s[:200])

# ----------------------------------------------------------------------------- C emission

def cname(n):
    return re.sub(r'[^A-Za-z0-9_]', '_', n)


class Emitter:
    def __init__(s, m, opts):
        s.m = m
        s.opts = opts
        s.tydefs = []          # emitted typedef lines in order
        s.tynames = {}         # repr(type) -> C typedef name
        s.struct_done = set()
        s.out = []
        s.typeinfos = {}       # global name -> id
        s.external_models = opts.get('models', set())
        s.gnames = {}
        s.short = {}

    # ---- names
    def fname(s, n):
        # long mangled names are legal C identifiers already (after sanitising); keep them
        c = cname(n)
        if n in s.m.declares and n not in s.m.functions:
            return 'x_' + c
        if not re.match(r'[A-Za-z_]', c):
            c = '_' + c
        return c

    def gname(s, n):
        return 'g_' + cname(n)

    # ---- types
    def resolve(s, t):
        while isinstance(t, NamedTy):
            t = s.m.named_types[t.name]
        return t

    def cty(s, t):
        key = repr(t)
        if key in s.tynames:
            return s.tynames[key]
        if isinstance(t, IntTy):
            b = t.bits
            if b == 1:
                n = 'u1'
            elif b <= 8:
                n = 'u8'
            elif b <= 16:
                n = 'u16'
            elif b <= 32:
                n = 'u32'
            elif b <= 64:
                n = 'u64'
            elif b <= 128:
                n = 'u128'
            else:
                raise NotImplementedError(key)
            s.tynames[key] = n
            return n
        if isinstance(t, VoidTy):
            return 'void'
        if isinstance(t, FloatTy):
            return {'float': 'float', 'double': 'double'}.get(t.name, 'long double')
        if isinstance(t, PtrTy):
            to = t.to
            if isinstance(to, FuncTy) or isinstance(s.resolve(to), (FuncTy, OpaqueTy)) or isinstance(to, VoidTy):
                n = 'vptr'
                s.tynames[key] = n
                return n
            if isinstance(to, NamedTy) and repr(to) not in s.tynames and getattr(s, '_struct_depth', 0) > 0:
                # pointer to a not yet emitted struct inside a struct body (recursive types such as parse_tree::node):
                # forward-declare only; the definition follows once the enclosing struct is complete
                sn = 'S_' + cname(to.name)
                s.tynames[repr(to)] = sn
                s.tydefs.append(f"typedef struct {sn} {sn};")
                s._struct_deferred.append((sn, s.m.named_types[to.name]))
            inner = s.cty(to)
            n = 'P' + inner
            if n not in s.tynames.values():
                s.tydefs.append(f"typedef {inner} *{n};")
            s.tynames[key] = n
            return n
        if isinstance(t, NamedTy):
            n = 'S_' + cname(t.name)
            s.tynames[key] = n
            s.tydefs.append(f"typedef struct {n} {n};")
            body = s.m.named_types[t.name]
            if isinstance(body, OpaqueTy):
                return n
            s.emit_struct(n, body)
            return n
        if isinstance(t, StructTy):
            n = f'L{len(s.tynames)}_s'
            s.tynames[key] = n
            s.tydefs.append(f"typedef struct {n} {n};")
            s.emit_struct(n, t)
            return n
        if isinstance(t, ArrTy):
            inner = s.cty(t.el)
            n = f'A{t.n}_{inner}'
            if n not in s.tynames.values():
                # wrap arrays in a struct so that they are first-class C values
                s.tydefs.append(f"typedef struct {n} {{ {inner} a[{max(t.n,1)}]; }} {n};")
            s.tynames[key] = n
            return n
        if isinstance(t, FuncTy):
            return 'void'
        raise NotImplementedError(key)

    def alignof(s, t):
        t = s.resolve(t)
        if isinstance(t, IntTy):
            return max(1, min(16, 1 << (max(t.bits, 8) - 1).bit_length() >> 3))
        if isinstance(t, PtrTy):
            return 8
        if isinstance(t, FloatTy):
            return {'float': 4, 'double': 8}.get(t.name, 16)
        if isinstance(t, ArrTy):
            return s.alignof(t.el)
        if isinstance(t, StructTy):
            if t.packed:
                return 1
            return max([s.alignof(f) for f in t.fields] or [1])
        raise NotImplementedError(repr(t))

    def sizeof(s, t):
        t = s.resolve(t)
        if isinstance(t, IntTy):
            return max(1, (1 << (max(t.bits, 8) - 1).bit_length()) >> 3)
        if isinstance(t, PtrTy):
            return 8
        if isinstance(t, FloatTy):
            return {'float': 4, 'double': 8}.get(t.name, 16)
        if isinstance(t, ArrTy):
            return s.sizeof(t.el) * t.n
        if isinstance(t, StructTy):
            off = 0
            for f in t.fields:
                a = 1 if t.packed else s.alignof(f)
                off = (off + a - 1) // a * a
                off += s.sizeof(f)
            a = s.alignof(t)
            return (off + a - 1) // a * a
        raise NotImplementedError(repr(t))

    def cast_origin(s, v):
        """pointee type a (bitcast) pointer value originally had, or None"""
        seen = 0
        while isinstance(v, Local) and v.name in s.castmap and seen < 8:
            ty, a = s.castmap[v.name]
            if isinstance(s.resolve(ty), PtrTy) and not (isinstance(s.resolve(ty).to, IntTy) and s.resolve(ty).to.bits == 8):
                return s.resolve(ty).to, a, ty
            v = a
            seen += 1
        return None

    def emit_struct(s, n, body):
        if n in s.struct_done:
            return
        s.struct_done.add(n)
        # make sure field types are defined first (by-value fields need complete types)
        fields = []
        if not hasattr(s, '_struct_deferred'):
            s._struct_deferred = []
        s._struct_depth = getattr(s, '_struct_depth', 0) + 1
        for i, ft in enumerate(body.fields):
            bt = ft
            while isinstance(bt, ArrTy):
                bt = bt.el
            if isinstance(bt, NamedTy):
                # a by-value field needs the complete type even if a pointer to it was only forward-declared so far
                for k, (dn, db) in enumerate(s._struct_deferred):
                    if dn == 'S_' + cname(bt.name):
                        del s._struct_deferred[k]
                        s.emit_struct(dn, db)
                        break
            fields.append(f"{s.cty(ft)} f{i};")
        s._struct_depth -= 1
        if not fields:
            fields = ["char _empty;"]
        attr = ' __attribute__((packed))' if body.packed else ''
        s.tydefs.append(f"struct{attr} {n} {{ {' '.join(fields)} }};")
        if s._struct_depth == 0:
            while s._struct_deferred:
                dn, db = s._struct_deferred.pop(0)
                s.emit_struct(dn, db)

    # ---- constant / value expressions
    def val(s, v, ty, fn=None):
        rt = s.resolve(ty) if ty is not None else None
        if isinstance(v, Local):
            inl = getattr(s, 'inl', None)
            if inl and v.name in inl:
                # --inline-gep: address computations are written out again at every use (operands are SSA values, so the
                # value is the same) - the model checker then sees  base.field[index]  at the access itself instead of a
                # pointer variable with a symbolic offset
                di = inl[v.name]
                if di.op == 'gep':
                    return s.gep_expr(di.base, di.pty, s.val(di.p, di.pty), di.idx, pval=di.p)[0]
                return s.cast_expr(di.cop, di.ty, s.val(di.a, di.ty), di.to)
            return 'v_' + cname(v.name)
        if isinstance(v, Global):
            if v.name in s.m.functions or v.name in s.m.declares:
                return f"((vptr)&{s.fname(v.name)})"
            return f"(&{s.gname(v.name)})"
        if isinstance(v, ConstInt):
            if isinstance(rt, IntTy):
                b = rt.bits
                x = v.v & ((1 << b) - 1)
                if b > 32:
                    return f"((u64){x}ULL)"
                return f"(({s.cty(rt)}){x}U)"
            return str(v.v)
        if isinstance(v, ConstNull):
            return f"(({s.cty(ty)})0)"
        if isinstance(v, (ConstUndef, ConstZero)):
            if isinstance(rt, (IntTy,)):
                return f"(({s.cty(rt)})0)"
            if isinstance(rt, PtrTy):
                return f"(({s.cty(ty)})0)"
            return f"(({s.cty(ty)}){{0}})"
        if isinstance(v, ConstExpr):
            return s.constexpr(v, ty)
        if isinstance(v, ConstAgg):
            return f"(({s.cty(ty)}){s.agg_init(v, ty)})"
        raise NotImplementedError(type(v))

    def agg_init(s, v, ty):
        rt = s.resolve(ty)
        if isinstance(v, ConstStr):
            return '{{' + ','.join(str(b) for b in v.b) + '}}'
        if isinstance(v, ConstZero) or isinstance(v, ConstUndef):
            return '{0}'
        if isinstance(v, ConstAgg):
            parts = []
            for (et, ev) in v.elems:
                parts.append(s.init(ev, et))
            if isinstance(rt, ArrTy):
                return '{{' + ','.join(parts) + '}}'
            return '{' + ','.join(parts) + '}'
        raise NotImplementedError

    def init(s, v, ty):
        rt = s.resolve(ty)
        if isinstance(rt, (ArrTy, StructTy)):
            return s.agg_init(v, ty)
        return s.val(v, ty)

    def constexpr(s, e, ty):
        if e.op == 'getelementptr':
            (pty, p) = e.args[0]
            return s.gep_expr(e.extra, pty, s.val(p, pty), e.args[1:])[0]
        if e.op in ('bitcast', 'inttoptr', 'ptrtoint', 'trunc', 'zext'):
            (at, a) = e.args[0]
            return s.cast_expr(e.op, at, s.val(a, at), e.extra)
        if e.op in ('add', 'sub', 'mul', 'and', 'or', 'xor', 'shl', 'lshr'):
            (at, a), (bt, b) = e.args
            return s.bin_expr(e.op, at, s.val(a, at), s.val(b, bt))
        if e.op == 'icmp':
            (at, a), (bt, b) = e.args
            return s.icmp_expr(e.extra, at, s.val(a, at), s.val(b, bt))
        raise NotImplementedError(e.op)

    def lval_of(s, v):
        """--inline-gep: the object designated by an inlined getelementptr result, as an lvalue  base.f1.a[i]  (or None)"""
        inl = getattr(s, 'inl', None)
        if not inl or not isinstance(v, Local) or v.name not in inl:
            return None
        di = inl[v.name]
        if di.op != 'gep':
            return s.lval_of(di.a)      # pointer bitcast: the same object, the access type is reconciled at the load/store
        return s.gep_expr(di.base, di.pty, s.val(di.p, di.pty), di.idx, pval=di.p, want_acc=True)

    def gep_expr(s, base, pty, pexpr, idx, pval=None, want_acc=False):
        # returns (expr, result type)
        cur = base
        (it0, i0) = idx[0]
        expr = f"(({s.cty(PtrTy(base))}){pexpr})"
        i0e = s.idx_expr(i0, it0)
        acc = f"{expr}[{i0e}]" if i0e != '0' else f"(*{expr})"
        if i0e == '0' and pval is not None:
            inner = s.lval_of(pval)      # getelementptr of a getelementptr: continue the member path instead of  *&
            if inner is not None and inner[0] is not None and repr(s.resolve(inner[1].to)) == repr(s.resolve(base)):
                acc = inner[0]
        split = None           # --split-index N: (placeholder, index expression, array length) of the one variable index into a small array
        for (it, iv) in idx[1:]:
            rt = s.resolve(cur)
            if isinstance(rt, StructTy):
                k = iv.v
                acc = f"{acc}.f{k}"
                cur = rt.fields[k]
            elif isinstance(rt, ArrTy):
                ie = s.idx_expr(iv, it)
                lim = s.opts.get('split_index') or 0
                if lim and not isinstance(iv, ConstInt) and 0 < rt.n <= lim and split is None:
                    split = ('@IDX@', ie, rt.n)
                    ie = '@IDX@'
                elif lim and not isinstance(iv, ConstInt) and split is not None:
                    acc = acc.replace('@IDX@', split[1])   # two variable indices: leave the expression as it is
                    split = False
                acc = f"{acc}.a[{ie}]"
                cur = rt.el
            else:
                raise NotImplementedError("gep into " + repr(rt))
        if split:
            # the address as a case split over the index (0 .. n: the elements and one past the end), every alternative with a
            # constant offset: the model checker then keeps the object field-wise instead of as bytes; any other index traps
            ct = s.cty(PtrTy(cur))
            alts = ''.join(f"({split[1]}) == {k} ? (&{acc.replace('@IDX@', str(k))}) : " for k in range(split[2] + 1))
            if want_acc:
                return None, PtrTy(cur)
            return f"({alts}(({ct})__ll2c_oob_index()))", PtrTy(cur)
        if want_acc:
            return acc, PtrTy(cur)
        return f"(&{acc})", PtrTy(cur)

    def idx_expr(s, v, ty):
        if isinstance(v, ConstInt):
            return str(v.v)
        # indices are signed
        rt = s.resolve(ty)
        return f"((s{rt.bits if rt.bits in (8,16,32,64) else 64}){s.val(v, ty)})"

    def cast_expr(s, op, fty, a, tty):
        ct = s.cty(tty)
        rf = s.resolve(fty); rt = s.resolve(tty)
        if op == 'bitcast':
            return f"(({ct}){a})"
        if op == 'ptrtoint':
            return f"(({ct})(u64){a})"
        if op == 'inttoptr':
            return f"(({ct})(u64){a})"
        if op == 'zext':
            return f"(({ct}){a})"
        if op == 'trunc':
            if rt.bits == 1:
                return f"((u1)(({a}) & 1))"
            if rt.bits not in (8, 16, 32, 64, 128):
                return f"(({ct})(({a}) & {(1 << rt.bits) - 1}ULL))"
            return f"(({ct}){a})"
        if op == 'sext':
            if rf.bits == 1:
                return f"(({ct})(({a}) ? ~({ct})0 : 0))"
            return f"(({ct})(s{rt.bits})(s{rf.bits}){a})"
        raise NotImplementedError(op)

    def bin_expr(s, op, ty, a, b, flags=()):
        rt = s.resolve(ty)
        bits = rt.bits
        ct = s.cty(rt)
        wide = 'u64' if bits > 32 else 'u32'
        swide = 's64' if bits > 32 else 's32'
        if bits > 64:
            wide = 'u128'; swide = 's128'
        sx = lambda x: f"(({swide})(s{bits}){x})" if bits in (8, 16, 32, 64) else None
        mask = '' if bits in (8, 16, 32, 64, 128) else f" & {(1 << bits) - 1}ULL"
        if bits == 1:
            mask = ' & 1'
        sym = {'add': '+', 'sub': '-', 'mul': '*', 'and': '&', 'or': '|', 'xor': '^', 'udiv': '/', 'urem': '%', 'shl': '<<', 'lshr': '>>'}
        if op in sym:
            return f"(({ct})((({wide}){a} {sym[op]} ({wide}){b}){mask}))"
        if op == 'sdiv':
            return f"(({ct})({sx(a)} / {sx(b)}))"
        if op == 'srem':
            return f"(({ct})({sx(a)} % {sx(b)}))"
        if op == 'ashr':
            return f"(({ct})({sx(a)} >> ({wide}){b}))"
        raise NotImplementedError(op)

    def icmp_expr(s, pred, ty, a, b):
        rt = s.resolve(ty)
        sym = {'eq': '==', 'ne': '!=', 'ugt': '>', 'uge': '>=', 'ult': '<', 'ule': '<=', 'sgt': '>', 'sge': '>=', 'slt': '<', 'sle': '<='}[pred]
        if isinstance(rt, PtrTy):
            if pred in ('eq', 'ne'):
                return f"((u1)((const void*){a} {sym} (const void*){b}))"
            return f"((u1)((const char*){a} {sym} (const char*){b}))"
        if pred.startswith('s'):
            bits = rt.bits
            if bits in (8, 16, 32, 64):
                return f"((u1)((s{bits}){a} {sym} (s{bits}){b}))"
            sh = 64 - bits
            return f"((u1)((s64)((u64){a} << {sh}) {sym} (s64)((u64){b} << {sh})))"
        return f"((u1)({a} {sym} {b}))"

    # ---- typeinfo handling (for EH lowering)
    KNOWN_STD_BASES = {
        '_ZTISt13runtime_error': '_ZTISt9exception',
        '_ZTISt11logic_error': '_ZTISt9exception',
        '_ZTISt14overflow_error': '_ZTISt13runtime_error',
        '_ZTISt12system_error': '_ZTISt13runtime_error',
        '_ZTISt9bad_alloc': '_ZTISt9exception',
        '_ZTISt12length_error': '_ZTISt11logic_error',
        '_ZTISt12out_of_range': '_ZTISt11logic_error',
    }

    def collect_typeinfos(s):
        s.ti_base = {}
        s.ti_bases = {}
        names = [g for g in s.m.globals if g.startswith('_ZTI')]
        for g in names:
            ty, init, _ = s.m.globals[g]
            base = None
            if isinstance(init, ConstAgg) and len(init.elems) >= 3:
                # __si_class_type_info: third element is the base typeinfo (possibly wrapped in bitcast)
                bv = init.elems[2][1]
                while isinstance(bv, ConstExpr):
                    bv = bv.args[0][1]
                if isinstance(bv, Global) and bv.name.startswith('_ZTI'):
                    base = bv.name
            if base is None:
                base = s.KNOWN_STD_BASES.get(g)
            s.ti_base[g] = base
            if s.opts.get('eh_nested'):
                # --eh-nested: every base with its offset.  __si_class_type_info { vtable, name, base };
                # __vmi_class_type_info { vtable, name, i32 flags, i32 count, ( base, i64 offset << 8 | flags )* } (Itanium C++ ABI 2.9.5)
                bl = []
                if isinstance(init, ConstAgg) and len(init.elems) >= 6 and isinstance(init.elems[2][1], ConstInt) and isinstance(init.elems[3][1], ConstInt):
                    for k in range(init.elems[3][1].v):
                        bv = init.elems[4 + 2 * k][1]
                        while isinstance(bv, ConstExpr):
                            bv = bv.args[0][1]
                        of = init.elems[5 + 2 * k][1].v
                        if isinstance(bv, Global) and not (of & 1):      # virtual bases are not supported (ignored)
                            bl.append((bv.name, of >> 8))
                elif base is not None:
                    bl.append((base, 0))
                s.ti_bases[g] = bl
        for k, v in s.KNOWN_STD_BASES.items():
            s.ti_base.setdefault(k, v)
        s.ti_base.setdefault('_ZTISt9exception', None)
        allti = set(s.ti_base) | {b for b in s.ti_base.values() if b}
        s.typeinfos = {n: i + 1 for i, n in enumerate(sorted(allti))}
        for n in allti:
            s.ti_base.setdefault(n, None)

    def ti_of(s, v):
        while isinstance(v, ConstExpr):
            v = v.args[0][1]
        if isinstance(v, ConstNull):
            return None
        assert isinstance(v, Global), v
        if v.name not in s.typeinfos:
            s.typeinfos[v.name] = len(s.typeinfos) + 1
            s.ti_base[v.name] = s.KNOWN_STD_BASES.get(v.name)
        return v.name

    # ---- functions
    def uses_uncaught(s):
        return '_ZSt19uncaught_exceptionsv' in s.m.declares or '_ZSt18uncaught_exceptionv' in s.m.declares

    def may_throw(s, callee_name):
        if callee_name in s.m.functions:
            return 'nounwind' not in s.fn_attrs(s.m.functions[callee_name].attrs)
        if callee_name in s.m.declares:
            return 'nounwind' not in s.fn_attrs(s.m.declares[callee_name][3])
        return True

    def fn_attrs(s, attrs):
        out = set()
        for a in attrs:
            if a.startswith('#'):
                out |= set(s.m.attr_groups.get(a[1:], '').split())
            else:
                out.add(a)
        return out

    def proto(s, name, ret, params, vararg):
        ps = ', '.join(f"{s.cty(pt)} v_{cname(pn)}" if pn is not None else s.cty(pt) for (pt, pn) in params)
        if vararg:
            ps = (ps + ', ...') if ps else ''
        if not ps:
            ps = 'void' if not vararg else ''
        return f"{s.cty(ret)} {s.fname(name)}({ps})"

    def zero_of(s, ty):
        rt = s.resolve(ty)
        if isinstance(rt, VoidTy):
            return ''
        if isinstance(rt, (IntTy, PtrTy)):
            return f"({s.cty(ty)})0"
        return f"({s.cty(ty)}){{0}}"

    def emit_function(s, f):
        L = []
        w = L.append
        s.cur = f
        # collect value types
        vt = {}
        for (pt, pn) in f.params:
            vt[pn] = pt
        for b in f.blocks:
            for ins in b.instrs:
                if ins.res is not None:
                    vt[ins.res] = s.result_type(ins)
        s.vt = vt
        s.castmap = {}
        for b in f.blocks:
            for ins in b.instrs:
                if ins.op == 'cast' and ins.cop == 'bitcast' and ins.res is not None:
                    s.castmap[ins.res] = (ins.ty, ins.a)
        s.defs = {ins.res: ins for b in f.blocks for ins in b.instrs if ins.res is not None}
        s.inl = {}
        if s.opts.get('inline_gep'):
            for b in f.blocks:
                for ins in b.instrs:
                    if ins.res is None:
                        continue
                    if ins.op == 'gep' or (ins.op == 'cast' and ins.cop == 'bitcast' and isinstance(s.resolve(ins.ty), PtrTy) and isinstance(s.resolve(ins.to), PtrTy)):
                        s.inl[ins.res] = ins
        # integer loads whose value is turned back into a pointer (clang reads pointer slots as i64 when it copies small
        # structs): the pointer is also read with pointer type at the same place, and inttoptr uses that copy, so that the
        # model checker keeps the points-to information (the integer value stays in use for everything else)
        s.ptrshadow = set()
        loads = {ins.res for b in f.blocks for ins in b.instrs if ins.op == 'load' and ins.res is not None and isinstance(s.resolve(ins.ty), IntTy) and s.resolve(ins.ty).bits == 64}
        for b in f.blocks:
            for ins in b.instrs:
                if ins.op == 'cast' and ins.cop == 'inttoptr' and isinstance(ins.a, Local) and ins.a.name in loads:
                    s.ptrshadow.add(ins.a.name)
        w(('static ' if f.static else '') + s.proto(f.name, f.ret, f.params, f.vararg) + " {")
        params = {pn for (_, pn) in f.params}
        for n, t in vt.items():
            if n in params:
                continue
            if isinstance(s.resolve(t), VoidTy):
                continue
            w(f"  {s.cty(t)} v_{cname(n)};")
        for n in sorted(s.ptrshadow):
            w(f"  void *vp_{cname(n)};")
        # phi temporaries
        phis = {}
        for b in f.blocks:
            for ins in b.instrs:
                if ins.op == 'phi':
                    w(f"  {s.cty(ins.ty)} t_{cname(ins.res)};")
        # allocas become locals
        for b in f.blocks:
            for ins in b.instrs:
                if ins.op == 'alloca':
                    if ins.cnt is not None and not isinstance(ins.cnt[1], ConstInt):
                        raise NotImplementedError("dynamic alloca")
                    n = ins.cnt[1].v if ins.cnt else 1
                    w(f"  {s.cty(ins.ty)} m_{cname(ins.res)}[{n}];")
        blockmap = {b.name: b for b in f.blocks}
        s.blockmap = blockmap
        w(f"  goto L_{cname(f.blocks[0].name)};")
        for b in f.blocks:
            w(f" L_{cname(b.name)}: ;")
            for ins in b.instrs:
                if ins.op == 'phi':
                    continue
                for line in s.emit_instr(f, b, ins):
                    w("  " + line)
        w("}")
        if s.opts.get('single_exit'):
            # --single-exit: every `return x;` becomes `{ vf_ret = x; goto L__vf_exit; }` and the function returns in one place.  CBMC
            # marks every local dead at every return statement: with thousands of locals (all declared at function level) and many
            # returns (one per call that may throw) the goto program grows with their product
            void = isinstance(s.resolve(f.ret), VoidTy)
            n_ret = sum(len(re.findall(r'\breturn\b', x)) for x in L[1:-1])
            if n_ret > 1:
                body = []
                for x in L[1:-1]:
                    if void:
                        x = re.sub(r'\breturn\s*;', 'goto L__vf_exit;', x)
                    else:
                        x = re.sub(r'\breturn\b\s*([^;]*);', lambda m: '{ vf_ret = (%s); goto L__vf_exit; }' % m.group(1), x)
                    body.append(x)
                L = [L[0]] + ([] if void else [f"  {s.cty(f.ret)} vf_ret;"]) + body + [" L__vf_exit: ;", "  return;" if void else "  return vf_ret;", "}"]
        return L

    def result_type(s, ins):
        op = ins.op
        if op == 'bin': return ins.ty
        if op == 'icmp': return IntTy(1)
        if op == 'cast': return ins.to
        if op in ('select', 'freeze', 'phi'): return ins.ty
        if op == 'load': return ins.ty
        if op == 'alloca': return PtrTy(ins.ty)
        if op == 'gep':
            cur = ins.base
            for (it, iv) in ins.idx[1:]:
                rt = s.resolve(cur)
                cur = rt.fields[iv.v] if isinstance(rt, StructTy) else rt.el
            return PtrTy(cur)
        if op in ('call', 'invoke'): return ins.ret
        if op == 'extractvalue':
            cur = ins.ty
            for k in ins.idx:
                rt = s.resolve(cur)
                cur = rt.fields[k] if isinstance(rt, StructTy) else rt.el
            return cur
        if op == 'insertvalue': return ins.ty
        if op == 'landingpad': return ins.ty
        raise NotImplementedError(op)

    def edge(s, f, frm, to):
        """code for jumping from block frm to block to, performing phi copies."""
        tb = s.blockmap[to]
        # jump threading through trampoline blocks (a lone unconditional br): CBMC mis-counts unwindings when a backward
        # goto targets a label that directly precedes another backward goto (false unwinding-assertion failures)
        hops = 0
        while hops < 8 and len(tb.instrs) == 1 and tb.instrs[0].op == 'br' and getattr(tb.instrs[0], 'dest', None) is not None \
                and getattr(tb.instrs[0], 'c', None) is None and tb.instrs[0].dest != tb.name:
            frm = tb
            to = tb.instrs[0].dest
            tb = s.blockmap[to]
            hops += 1
        copies = []
        for ins in tb.instrs:
            if ins.op != 'phi':
                break
            for (v, lab) in ins.inc:
                if lab == frm.name:
                    copies.append((ins.res, s.val(v, ins.ty)))
                    break
        lines = []
        if len(copies) == 1:
            lines.append(f"v_{cname(copies[0][0])} = {copies[0][1]};")
        elif copies:
            for (r, e) in copies:
                lines.append(f"t_{cname(r)} = {e};")
            for (r, e) in copies:
                lines.append(f"v_{cname(r)} = t_{cname(r)};")
        lines.append(f"goto L_{cname(to)};")
        return '{ ' + ' '.join(lines) + ' }'

    def new_type(s, f, call):
        """the struct type T if the result of this operator-new call is bitcast to T* and sizeof( T ) is the requested size"""
        for b in f.blocks:
            for ins in b.instrs:
                if ins.op == 'cast' and ins.cop == 'bitcast' and isinstance(ins.a, Local) and ins.a.name == call.res:
                    rt = s.resolve(ins.to)
                    if isinstance(rt, PtrTy) and isinstance(s.resolve(rt.to), StructTy):
                        try:
                            if s.sizeof(rt.to) == call.args[0][1].v:
                                return rt.to
                        except NotImplementedError:
                            pass
        return None

    INTRINSIC_DROP = ('llvm.lifetime.', 'llvm.experimental.noalias.scope.decl', 'llvm.dbg.', 'llvm.assume', 'llvm.invariant.')

    def emit_call(s, f, b, ins):
        callee = ins.callee
        lines = []
        if not isinstance(callee, Global) and s.opts.get('vcall'):
            # --vcall: an indirect call is a case split over the functions whose address is stored in a virtual table of the module
            # and whose IR signature is the one of the call; any other target is reported like before
            sig = (repr(ins.ret), [repr(at) for (at, _) in ins.args])
            cands = []
            for n in sorted(s.vfuncs):
                if n in s.m.functions:
                    fs = (repr(s.m.functions[n].ret), [repr(pt) for (pt, _) in s.m.functions[n].params])
                else:
                    fs = (repr(s.m.declares[n][0]), [repr(pt) for (pt, _) in s.m.declares[n][1]])
                if fs == sig:
                    cands.append(n)
            args = [s.val(av, at) for (at, av) in ins.args]
            has_res = ins.res is not None and not isinstance(s.resolve(ins.ret), VoidTy)
            res = f"v_{cname(ins.res)} = " if has_res else ''
            fp = s.val(callee, None)
            chain = ''
            for n in cands:
                chain += f"if ((vptr){fp} == (vptr)&{s.fname(n)}) {res}{s.fname(n)}({', '.join(args)}); else "
            chain += "{ __VERIFIER_indirect_call(); " + (f"v_{cname(ins.res)} = {s.zero_of(ins.ret)}; " if has_res else '') + "}"
            lines = [chain]
            throws = any(s.may_throw(n) for n in cands) and 'nounwind' not in s.fn_attrs(getattr(ins, 'attrs', []))
            if ins.op == 'invoke':
                if throws:
                    lines.append(f"if (__exc_pending) {s.edge(f, b, ins.unwind)} else {s.edge(f, b, ins.normal)}")
                else:
                    lines.append(s.edge(f, b, ins.normal))
            elif throws:
                lines.append(f"if (__exc_pending) return {s.zero_of(f.ret)};")
            return lines
        if not isinstance(callee, Global):
            # indirect calls are not modelled: reaching one is reported by the harness
            lines = ["__VERIFIER_indirect_call();"]
            if ins.res is not None and not isinstance(s.resolve(ins.ret), VoidTy):
                lines.append(f"v_{cname(ins.res)} = {s.zero_of(ins.ret)};")
            if ins.op == 'invoke':
                lines.append(s.edge(f, b, ins.normal))
            return lines
        name = callee.name
        if name.startswith(s.INTRINSIC_DROP):
            return []
        args = [s.val(av, at) for (at, av) in ins.args]
        res = f"v_{cname(ins.res)} = " if ins.res is not None and not isinstance(s.resolve(ins.ret), VoidTy) else ''
        throws = True
        if name.startswith('llvm.memcpy') or name.startswith('llvm.memmove'):
            fn = 'memcpy' if 'memcpy' in name else 'memmove'
            done = False
            nv = ins.args[2][1]
            if isinstance(nv, ConstInt):
                for side in (0, 1):
                    try:
                        org = s.cast_origin(ins.args[side][1])
                        if org and s.sizeof(org[0]) == nv.v and isinstance(s.resolve(org[0]), (StructTy, ArrTy)):
                            ct = s.cty(org[0])
                            # constant-size copy of one whole aggregate: emit a typed assignment (CBMC's byte-wise memcpy model is very costly)
                            lines.append(f"*({ct}*){args[0]} = *({ct}*){args[1]};")
                            done = True
                            break
                    except NotImplementedError:
                        pass
            if not done:
                if isinstance(nv, ConstInt):
                    lines.append(f"{fn}((void*){args[0]}, (const void*){args[1]}, {args[2]});")
                else:
                    # symbolic length: CBMC's built-in model was observed to lose bytes when the destination lies inside a struct
                    # (std::string's local buffer); an explicit byte loop (with unwinding assertion) is precise
                    lines.append(f"vf_{fn}((void*){args[0]}, (const void*){args[1]}, {args[2]});")
            throws = False
        elif name.startswith('llvm.memset'):
            done = False
            if s.opts.get('typed_memset') and isinstance(ins.args[2][1], ConstInt) and isinstance(ins.args[1][1], ConstInt) and ins.args[1][1].v == 0:
                # --typed-memset: zeroing one whole aggregate of constant size becomes a typed assignment of a zero object (keeps the fields
                # of the object visible to the solver; the byte-wise memset model turns the whole object into an array of bytes)
                try:
                    org = s.cast_origin(ins.args[0][1])
                    if org and s.sizeof(org[0]) == ins.args[2][1].v and isinstance(s.resolve(org[0]), (StructTy, ArrTy)):
                        ct = s.cty(org[0])
                        lines.append(f"*({ct}*){args[0]} = ({ct}){{0}};")
                        done = True
                except NotImplementedError:
                    pass
            if not done:
                lines.append(f"memset((void*){args[0]}, {args[1]}, {args[2]});")
            throws = False
        elif name == 'llvm.eh.typeid.for':
            ti = s.ti_of(ins.args[0][1])
            lines.append(f"{res}{s.typeinfos[ti]};"); throws = False
        elif re.match(r'llvm\.(umin|umax|smin|smax)\.', name):
            k = name.split('.')[1]
            bits = s.resolve(ins.ret).bits
            if k[0] == 's':
                a0, a1 = f"(s{bits}){args[0]}", f"(s{bits}){args[1]}"
            else:
                a0, a1 = args[0], args[1]
            cmpop = '<' if k.endswith('min') else '>'
            lines.append(f"{res}(({a0}) {cmpop} ({a1})) ? {args[0]} : {args[1]};"); throws = False
        elif name.startswith('llvm.usub.sat.'):
            lines.append(f"{res}(({args[0]}) > ({args[1]})) ? ({args[0]}) - ({args[1]}) : 0;"); throws = False
        elif name.startswith('llvm.bswap.'):
            bits = s.resolve(ins.ret).bits
            lines.append(f"{res}__builtin_bswap{bits}({args[0]});"); throws = False
        elif name.startswith('llvm.expect'):
            lines.append(f"{res}{args[0]};"); throws = False
        elif name == 'llvm.trap' or name == 'llvm.ubsantrap':
            lines.append("__VERIFIER_trap();"); throws = False
        elif re.match(r'llvm\.[su](add|sub|mul)\.with\.overflow\.i(8|16|32|64)$', name):
            # -ftrapv / -fsanitize-trap: { iN result, i1 overflowed }
            mo = re.match(r'llvm\.([su])(add|sub|mul)\.with\.overflow\.i(\d+)$', name)
            ot = f"{mo.group(1)}{mo.group(3)}"
            rv = f"v_{cname(ins.res)}"
            lines.append(f"{{ {ot} __t; {rv}.f1 = (u1)__builtin_{mo.group(2)}_overflow(({ot}){args[0]}, ({ot}){args[1]}, &__t); {rv}.f0 = (u{mo.group(3)})__t; }}")
            throws = False
        elif name.startswith('llvm.'):
            raise NotImplementedError("intrinsic " + name)
        elif name == '__cxa_throw':
            ti = s.ti_of(ins.args[1][1])
            lines.append(f"__exc_obj = (void*){args[0]}; __exc_type = {s.typeinfos[ti]}; __exc_pending = 1;")
            if s.uses_uncaught():
                lines.append("__exc_uncaught++;")
            if s.opts.get('eh_nested'):
                lines.append("__exc_register(__exc_obj, __exc_type);")
        elif name == '__cxa_allocate_exception' and s.opts.get('typed_exc') and ins.res is not None and isinstance(ins.args[0][1], ConstInt) and s.new_type(f, ins) is not None:
            # --typed-exc: like --typed-new for the exception object (an object of struct type instead of an array of bytes)
            ct = s.cty(s.new_type(f, ins))
            lines.append(f"_Static_assert(sizeof({ct}) == {ins.args[0][1].v}, \"typed exception object\");")
            lines.append(f"{res}(u8*)__exc_alloc(sizeof({ct}));"); throws = False
        elif name == '__cxa_allocate_exception':
            lines.append(f"{res}(u8*)__exc_alloc({args[0]});"); throws = False
        elif name == '__cxa_begin_catch' and s.opts.get('eh_nested'):
            if s.uses_uncaught():
                lines.append("if (__exc_uncaught > 0) __exc_uncaught--;")
            lines.append(f"{res}(u8*)__exc_begin_catch((void*){args[0]});"); throws = False
        elif name == '__cxa_end_catch' and s.opts.get('eh_nested'):
            lines.append("__exc_end_catch();"); throws = False
        elif name == '__cxa_rethrow' and s.opts.get('eh_nested'):
            if s.uses_uncaught():
                lines.append("__exc_uncaught++;")
            lines.append("__exc_rethrow();")
        elif name == '__cxa_begin_catch':
            if s.uses_uncaught():
                lines.append("if (__exc_uncaught > 0) __exc_uncaught--;")
            lines.append(f"{res}(u8*){args[0]};"); throws = False
        elif name in ('__cxa_end_catch', '__cxa_free_exception'):
            throws = False
        elif name == '__cxa_rethrow':
            if s.uses_uncaught():
                lines.append("__exc_uncaught++;")
            lines.append("__exc_pending = 1;")
        elif s.opts.get('typed_new') and name == '_Znwm' and ins.res is not None and isinstance(ins.args[0][1], ConstInt) and s.new_type(f, ins) is not None:
            # --typed-new: operator new( <constant> ) whose result is used as T* with sizeof( T ) == <constant>: the size is written as
            # sizeof( T ), so that the model checker allocates an object of type T (field-wise) instead of an array of bytes
            ct = s.cty(s.new_type(f, ins))
            lines.append(f"_Static_assert(sizeof({ct}) == {ins.args[0][1].v}, \"typed new\");")
            lines.append(f"{res}{s.fname(name)}(sizeof({ct}));")
            throws = s.may_throw(name)
        elif s.opts.get('cut') and name == f.name and s.opts['cut'] in name:
            s.cut_protos.add(f"extern {s.cty(ins.ret)} x_cut_recursion({', '.join('void*' if isinstance(s.resolve(at), PtrTy) else s.cty(at) for (at, _) in ins.args)});")
            lines.append(f"{res}x_cut_recursion({', '.join(args)});")
            throws = False
        else:
            lines.append(f"{res}{s.fname(name)}({', '.join(args)});")
            throws = s.may_throw(name)
        if ins.op == 'invoke':
            if throws:
                lines.append(f"if (__exc_pending) {s.edge(f, b, ins.unwind)} else {s.edge(f, b, ins.normal)}")
            else:
                lines.append(s.edge(f, b, ins.normal))
        elif throws:
            z = s.zero_of(f.ret)
            lines.append(f"if (__exc_pending) return {z};")
        return lines

    def emit_instr(s, f, b, ins):
        op = ins.op
        r = f"v_{cname(ins.res)}" if ins.res is not None else None
        if op == 'bin':
            lines = []
            if s.opts.get('ubcheck') and 'nsw' in ins.flags and ins.bop in ('add', 'sub', 'mul'):
                bits = s.resolve(ins.ty).bits
                if bits in (8, 16, 32, 64):
                    bi = {'add': '__builtin_add_overflow', 'sub': '__builtin_sub_overflow', 'mul': '__builtin_mul_overflow'}[ins.bop]
                    lines.append(f"{{ s{bits} __t; UBCHECK(!{bi}((s{bits}){s.val(ins.a, ins.ty)}, (s{bits}){s.val(ins.b, ins.ty)}, &__t), \"nsw {ins.bop}\"); }}")
            lines.append(f"{r} = {s.bin_expr(ins.bop, ins.ty, s.val(ins.a, ins.ty), s.val(ins.b, ins.ty), ins.flags)};")
            return lines
        if op == 'icmp':
            return [f"{r} = {s.icmp_expr(ins.pred, ins.ty, s.val(ins.a, ins.ty), s.val(ins.b, ins.ty))};"]
        if op == 'cast':
            if ins.cop == 'inttoptr' and isinstance(ins.a, Local) and ins.a.name in getattr(s, 'ptrshadow', ()):
                return [f"{r} = (({s.cty(ins.to)})vp_{cname(ins.a.name)});"]
            return [f"{r} = {s.cast_expr(ins.cop, ins.ty, s.val(ins.a, ins.ty), ins.to)};"]
        if op == 'select':
            return [f"{r} = {s.val(ins.c, IntTy(1))} ? {s.val(ins.a, ins.ty)} : {s.val(ins.b, ins.ty)};"]
        if op == 'freeze':
            return [f"{r} = {s.val(ins.a, ins.ty)};"]
        if op == 'store' and s.opts.get('split_store') and isinstance(ins.p, Local) and isinstance(s.resolve(ins.ty), IntTy) and s.resolve(ins.ty).bits == 8:
            # --split-store N: a byte store to  base[ variable index ]  becomes a case split over the index (0 .. N-1, anything else is reported: trap),
            # every alternative with a constant offset from base: a store at a symbolic offset into an object that also holds pointers (std::string's
            # in-object buffer: _M_set_length) makes the model checker treat the whole object as bytes and lose those pointers - measured: a plain
            # store as the default alternative is enough to bring the blow-up back (15 GB instead of 3 GB)
            d = s.defs.get(ins.p.name)
            if d is not None and d.op == 'gep' and len(d.idx) == 1 and not isinstance(d.idx[0][1], ConstInt) \
                    and isinstance(s.resolve(d.base), IntTy) and s.resolve(d.base).bits == 8:
                n = s.opts['split_store']
                return ([f"{{ u8 *__b = (u8*){s.val(d.p, d.pty)}; u64 __i = (u64){s.val(d.idx[0][1], d.idx[0][0])}; u8 __v = {s.val(ins.v, ins.ty)};", "  switch (__i) {"]
                        + [f"    case {k}: __b[{k}] = __v; break;" for k in range(n)] + ["    default: __ll2c_oob_index(); }", "}"])
        if op in ('load', 'store') and getattr(s, 'inl', None):
            lv = s.lval_of(ins.p)
            if lv is not None and lv[0] is not None:
                et, at = s.resolve(lv[1].to), s.resolve(ins.ty)     # element type of the designated object, type of the access
                same = repr(et) == repr(at)
                p2p = isinstance(et, PtrTy) and isinstance(at, PtrTy)
                i2p = isinstance(et, PtrTy) and isinstance(at, IntTy) and at.bits == 64
                if op == 'load' and (same or p2p or i2p):
                    lines = [f"{r} = {lv[0]};" if same else f"{r} = (({s.cty(ins.ty)}){'(u64)' if i2p else ''}{lv[0]});"]
                    if ins.res in getattr(s, 'ptrshadow', ()):
                        lines.append(f"vp_{cname(ins.res)} = (void *){lv[0]};")
                    return lines
                if op == 'store' and (same or p2p or i2p):
                    return [f"{lv[0]} = {s.val(ins.v, ins.ty)};" if same else f"{lv[0]} = (({s.cty(lv[1].to)}){'(u64)' if i2p else ''}{s.val(ins.v, ins.ty)});"]
        if op == 'load':
            if ins.res in getattr(s, 'ptrshadow', ()):
                return [f"{r} = *(({s.cty(PtrTy(ins.ty))}){s.val(ins.p, ins.pty)});", f"vp_{cname(ins.res)} = *((void **){s.val(ins.p, ins.pty)});"]
            return [f"{r} = *(({s.cty(PtrTy(ins.ty))}){s.val(ins.p, ins.pty)});"]
        if op == 'store':
            return [f"*(({s.cty(PtrTy(ins.ty))}){s.val(ins.p, ins.pty)}) = {s.val(ins.v, ins.ty)};"]
        if op == 'alloca':
            return [f"{r} = &m_{cname(ins.res)}[0];"]
        if op == 'gep':
            e, _ = s.gep_expr(ins.base, ins.pty, s.val(ins.p, ins.pty), ins.idx)
            return [f"{r} = {e};"]
        if op == 'br':
            return [s.edge(f, b, ins.dest)]
        if op == 'condbr':
            return [f"if ({s.val(ins.c, IntTy(1))}) {s.edge(f, b, ins.t)} else {s.edge(f, b, ins.f)}"]
        if op == 'switch':
            lines = [f"switch ({s.val(ins.v, ins.ty)}) {{"]
            for (cv, lab) in ins.cases:
                lines.append(f"  case {s.val(cv, ins.ty)}: {s.edge(f, b, lab)}")
            lines.append(f"  default: {s.edge(f, b, ins.default)}")
            lines.append("}")
            return lines
        if op == 'ret':
            if ins.v is None:
                return ["return;"]
            return [f"return {s.val(ins.v, ins.ty)};"]
        if op == 'unreachable':
            return ["__VERIFIER_unreachable();", f"return {s.zero_of(f.ret)};"]
        if op in ('call', 'invoke'):
            return s.emit_call(f, b, ins)
        if op == 'extractvalue':
            acc = s.val(ins.a, ins.ty)
            cur = ins.ty
            for k in ins.idx:
                rt = s.resolve(cur)
                if isinstance(rt, StructTy):
                    acc += f".f{k}"; cur = rt.fields[k]
                else:
                    acc += f".a[{k}]"; cur = rt.el
            return [f"{r} = {acc};"]
        if op == 'insertvalue':
            acc = r
            cur = ins.ty
            for k in ins.idx:
                rt = s.resolve(cur)
                if isinstance(rt, StructTy):
                    acc += f".f{k}"; cur = rt.fields[k]
                else:
                    acc += f".a[{k}]"; cur = rt.el
            return [f"{r} = {s.val(ins.a, ins.ty)};", f"{acc} = {s.val(ins.e, ins.ety)};"]
        if op == 'landingpad':
            lines = [f"{r}.f0 = (u8*)__exc_obj; {r}.f1 = 0; __exc_pending = 0;"]
            nested = s.opts.get('eh_nested')
            if nested:
                lines.append("__exc_caught_adj = 0;")
            conds = []
            for (k, cv) in ins.clauses:
                if k != 'catch':
                    raise NotImplementedError("filter clause")
                ti = s.ti_of(cv)
                if ti is None:
                    conds.append(("1", "__EXC_CATCHALL", None))
                else:
                    conds.append((f"__exc_isa(__exc_type, {s.typeinfos[ti]})", str(s.typeinfos[ti]), s.typeinfos[ti]))
            first = True
            for (c, sel, tid) in conds:
                if nested and tid is not None:
                    # the handler receives the address of the base-class subobject it names (adjusted pointer of __cxa_begin_catch)
                    lines.append(f"{'if' if first else 'else if'} ({c}) {{ {r}.f1 = {sel}; __exc_caught_adj = __exc_adj(__exc_type, {tid}); }}")
                else:
                    lines.append(f"{'if' if first else 'else if'} ({c}) {r}.f1 = {sel};")
                first = False
            return lines
        if op == 'resume':
            if s.opts.get('eh_nested'):
                return [f"__exc_obj = (void*){s.val(ins.v, ins.ty)}.f0; __exc_type = __exc_type_of(__exc_obj); __exc_pending = 1; return {s.zero_of(f.ret)};"]
            return [f"__exc_obj = (void*){s.val(ins.v, ins.ty)}.f0; __exc_pending = 1; return {s.zero_of(f.ret)};"]
        raise NotImplementedError(op)

    # ---- whole module
    def emit(s):
        s.collect_typeinfos()
        s.cut_protos = set()
        # --vcall: functions whose address is stored in a virtual table defined in this module
        s.vfuncs = set()
        if s.opts.get('vcall'):
            def walk(v):
                if isinstance(v, ConstAgg):
                    for (_, ev) in v.elems:
                        walk(ev)
                elif isinstance(v, ConstExpr):
                    for (_, ev) in v.args:
                        walk(ev)
                elif isinstance(v, Global) and (v.name in s.m.functions or v.name in s.m.declares):
                    s.vfuncs.add(v.name)
            for name, (ty, init, is_const) in s.m.globals.items():
                if name.startswith('_ZTV') and init is not None:
                    walk(init)
        body = []
        protos = []
        # function prototypes for defined and declared functions
        skip_decl = lambda n: n.startswith('llvm.') or n == '__gxx_personality_v0'
        for name, f in s.m.functions.items():
            protos.append(('static ' if f.static else '') + s.proto(f.name, f.ret, [(pt, None) for (pt, _) in f.params], f.vararg) + ";")
        # externals that an included model file defines keep the model's own (void*-typed) prototype
        modeled = set()
        for h in s.opts.get('include', []):
            try:
                for mm in re.finditer(r'^[A-Za-z_][\w \*]*?\b(x_\w+)\s*\(', open(h).read(), re.M):
                    modeled.add(mm.group(1))
            except OSError:
                pass
        for name, (ret, params, vararg, attrs) in s.m.declares.items():
            if skip_decl(name):
                continue
            if s.fname(name) in modeled:
                continue
            protos.append("extern " + s.proto(name, ret, [(pt, None) for (pt, _) in params], vararg) + ";")
        # globals
        gl = []
        gdecl = []
        for name, (ty, init, is_const) in s.m.globals.items():
            ct = s.cty(ty)
            if init is None and s.opts.get('vcall') and (name.startswith('_ZTV') or name.startswith('_ZTI')):
                # --vcall: virtual tables / type infos of the C++ run-time library exist as (empty) objects: only their addresses are used
                # (a base-class constructor stores its vptr before the derived class stores its own); a call through one is reported
                gdecl.append(f"static {ct} {s.gname(name)};")
            elif init is None:
                gdecl.append(f"extern {ct} {s.gname(name)};")
            else:
                gdecl.append(f"static {ct} {s.gname(name)};")
        for name, (ty, init, is_const) in s.m.globals.items():
            if init is None:
                continue
            ct = s.cty(ty)
            if name.startswith('_ZTV') and s.opts.get('vcall'):
                gl.append(f"static {ct} {s.gname(name)} = {s.init(init, ty)};")   # --vcall: indirect calls compare against the entries
            elif name.startswith('_ZTI') or name.startswith('_ZTV') or name.startswith('_ZTS'):
                # RTTI / vtables: contents irrelevant for the lowered EH model
                gl.append(f"static {ct} {s.gname(name)};")
            else:
                gl.append(f"static {ct} {s.gname(name)} = {s.init(init, ty)};")
        for name, f in s.m.functions.items():
            body.extend(s.emit_function(f))
            body.append("")
        # __exc_isa table
        isa = ["static int __exc_isa(int t, int want) {", "  while (t != 0) { if (t == want) return 1;", "    switch (t) {"]
        for n, i in sorted(s.typeinfos.items(), key=lambda kv: kv[1]):
            b = s.ti_base.get(n)
            isa.append(f"      case {i}: t = {s.typeinfos[b] if b else 0}; break; /* {n} */")
        isa += ["      default: t = 0; }", "  }", "  return 0;", "}"]
        if s.opts.get('eh_nested'):
            # --eh-nested: __exc_adj( t, want ) = offset of the (first, non-virtual) base-class subobject of type `want` in an object of
            # dynamic type t, or -1 if t is not derived from it; __exc_isa is defined through it (multiple inheritance included)
            def closure(n, off, acc, depth=0):
                acc.setdefault(n, off)
                if depth < 16:
                    for (bn, bo) in s.ti_bases.get(n, []) or ([(s.ti_base[n], 0)] if s.ti_base.get(n) else []):
                        closure(bn, off + bo, acc, depth + 1)
                return acc
            isa = ["static long __exc_adj(int t, int want) {", "  switch (t) {"]
            for n, i in sorted(s.typeinfos.items(), key=lambda kv: kv[1]):
                acc = closure(n, 0, {})
                isa.append(f"    case {i}: switch (want) {{ " + ' '.join(f"case {s.typeinfos[bn]}: return {bo};" for bn, bo in sorted(acc.items(), key=lambda kv: s.typeinfos[kv[0]])) + f" default: return -1; }} /* {n} */")
            isa += ["    default: return -1; }", "}", "static int __exc_isa(int t, int want) { return __exc_adj(t, want) >= 0; }"]
        tinfo_defs = [f"#define TI_{cname(n)} {i}" for n, i in sorted(s.typeinfos.items(), key=lambda kv: kv[1])]
        out = [PRELUDE]
        if s.opts.get('eh_nested'):
            out.append(PRELUDE_EH_NESTED)
        out += tinfo_defs
        out += isa
        out += s.tydefs
        out += gdecl
        out += [f"#include \"{h}\"" for h in s.opts.get('include', [])]
        out += protos
        out += sorted(s.cut_protos)
        out += gl
        out += body
        # header for the native build that links the real (g++) wrapper object
        hdr = [PRELUDE_TYPES] + s.tydefs
        for name, f in s.m.functions.items():
            if not f.static:
                hdr.append("extern " + s.proto(f.name, f.ret, [(pt, None) for (pt, _) in f.params], f.vararg) + ";")
        s.header = '\n'.join(hdr) + '\n'
        s.externs = [n for n in s.m.declares if not skip_decl(n) and n not in s.m.functions]
        s.defined = [n for n, f in s.m.functions.items()]
        return '\n'.join(out) + '\n'

    def ti_id_for_throw(s, v):
        return s.typeinfos[s.ti_of(v)]


PRELUDE_TYPES = r'''
/* generated by ll2c from LLVM IR of the real headers; regenerated on every run */
#include <stdint.h>
#include <stddef.h>
#include <string.h>
#include <stdlib.h>
typedef uint8_t u1; typedef uint8_t u8; typedef uint16_t u16; typedef uint32_t u32; typedef uint64_t u64;
typedef int8_t s8; typedef int16_t s16; typedef int32_t s32; typedef int64_t s64;
typedef unsigned __int128 u128; typedef __int128 s128;
typedef void *vptr;
'''

PRELUDE = PRELUDE_TYPES + r'''
#ifndef UBCHECK
#define UBCHECK(c, msg) ((void)0)
#endif
#define __EXC_CATCHALL 0x7fffffff
static void *__exc_obj; static int __exc_type; static int __exc_pending;
static int __exc_uncaught;   /* exceptions thrown and not yet caught: maintained only in units that call std::uncaught_exceptions() */
#ifdef __CPROVER__
#define __VERIFIER_assume_nonnull(p) __CPROVER_assume((p) != 0)
#else
#define __VERIFIER_assume_nonnull(p) ((void)0)
#endif
void __VERIFIER_unreachable(void);
#ifdef __CPROVER__
static void vf_memcpy(void *d, const void *s, u64 n) { u8 *dd = (u8 *)d; const u8 *ss = (const u8 *)s; for (u64 i = 0; i < n; ++i) dd[i] = ss[i]; }
static void vf_memmove(void *d, const void *s, u64 n) {
  u8 *dd = (u8 *)d; const u8 *ss = (const u8 *)s;
  if (__CPROVER_POINTER_OBJECT(dd) == __CPROVER_POINTER_OBJECT(ss) && __CPROVER_POINTER_OFFSET(dd) > __CPROVER_POINTER_OFFSET(ss)) { for (u64 i = n; i > 0; --i) dd[i - 1] = ss[i - 1]; }
  else { for (u64 i = 0; i < n; ++i) dd[i] = ss[i]; }
}
#else
#define vf_memcpy memcpy
#define vf_memmove memmove
#endif
static void *__exc_alloc(u64 n) { void *p = malloc(n); __VERIFIER_assume_nonnull(p); return p; }
void __VERIFIER_trap(void);
void __VERIFIER_indirect_call(void);
static void *__ll2c_oob_index(void) { __VERIFIER_trap(); return 0; }   /* --split-index: index outside 0 .. length */
'''


# --eh-nested: what is needed to run std::current_exception / std::nested_exception / std::rethrow_exception and handlers that
# name a non-primary base class.  Exceptions being handled form a stack (pushed by __cxa_begin_catch, popped by __cxa_end_catch);
# the dynamic type of every thrown object is remembered (the last 8 throws), so that a C model of std::rethrow_exception can
# throw it again; `throw;` rethrows the innermost handled exception; __cxa_begin_catch returns the adjusted pointer.
PRELUDE_EH_NESTED = r'''
#define __EXC_NESTED 1
static long __exc_caught_adj;
static void *__exc_hobj[8]; static int __exc_htype[8]; static unsigned __exc_hsp;
static void *__exc_robj[8]; static int __exc_rtype[8]; static unsigned __exc_rn;
static void __exc_register(void *o, int t) { __exc_robj[__exc_rn % 8] = o; __exc_rtype[__exc_rn % 8] = t; __exc_rn++; }
static int __exc_type_of(void *o) { for (unsigned k = 0; k < 8; ++k) { unsigned i = (__exc_rn + 7 - k) % 8; if (k < __exc_rn && __exc_robj[i] == o) return __exc_rtype[i]; } return 0; }
static void *__exc_begin_catch(void *o) {
  if (__exc_hsp >= 8) { __exc_hsp = 0; __VERIFIER_trap(); }
  __exc_hobj[__exc_hsp] = o; __exc_htype[__exc_hsp] = __exc_type; __exc_hsp++;
  return (u8 *)o + __exc_caught_adj;
}
static void __exc_end_catch(void) { if (__exc_hsp == 0) __VERIFIER_trap(); else __exc_hsp--; }
static void *__exc_current(void) { return __exc_hsp ? __exc_hobj[__exc_hsp - 1] : (void *)0; }
static void __exc_rethrow(void) {
  if (__exc_hsp == 0) { __VERIFIER_trap(); return; }
  __exc_obj = __exc_hobj[__exc_hsp - 1]; __exc_type = __exc_htype[__exc_hsp - 1]; __exc_pending = 1;
}
static void __exc_throw_again(void *o) { __exc_obj = o; __exc_type = __exc_type_of(o); __exc_pending = 1; }
'''


def main():
    import argparse
    ap = argparse.ArgumentParser()
    ap.add_argument('ll')
    ap.add_argument('-o', '--out', default='-')
    ap.add_argument('--include', action='append', default=[])
    ap.add_argument('--ubcheck', action='store_true')
    ap.add_argument('--cut', default=None)
    ap.add_argument('--header', default=None)
    ap.add_argument('--info', default=None)
    ap.add_argument('--split-index', type=int, default=0, help='case-split variable indices into arrays of at most N elements')
    ap.add_argument('--typed-new', action='store_true', help='operator new of a constant size that is used as one struct type: allocate with sizeof(that type)')
    ap.add_argument('--inline-gep', action='store_true', help='write address computations (getelementptr, pointer bitcasts) out at every use')
    ap.add_argument('--single-exit', action='store_true', help='one return statement per function (returns become a jump to it)')
    ap.add_argument('--typed-memset', action='store_true', help='memset( p, 0, constant ) over one whole aggregate: assign a typed zero object')
    ap.add_argument('--typed-exc', action='store_true', help='__cxa_allocate_exception of a constant size that is used as one struct type: allocate with sizeof(that type)')
    ap.add_argument('--split-store', type=int, default=0, help='byte stores at a variable index: case split over the index 0 .. N-1 (constant offsets)')
    ap.add_argument('--vcall', action='store_true', help='virtual tables keep their contents; indirect calls become a case split over the functions stored in them')
    ap.add_argument('--eh-nested', action='store_true', help='stack of handled exceptions, type of thrown objects, base-class offsets in handlers (nested_exception, current_exception)')
    a = ap.parse_args()
    m = parse_module(open(a.ll).read())
    em = Emitter(m, {'include': a.include, 'ubcheck': a.ubcheck, 'cut': a.cut, 'split_index': a.split_index, 'inline_gep': a.inline_gep, 'typed_memset': a.typed_memset, 'single_exit': a.single_exit, 'typed_new': a.typed_new,
                     'vcall': a.vcall, 'eh_nested': a.eh_nested, 'split_store': a.split_store, 'typed_exc': a.typed_exc})
    c = em.emit()
    if a.header:
        open(a.header, 'w').write(em.header)
    if a.info:
        import json
        json.dump({'externs': em.externs, 'defined': em.defined}, open(a.info, 'w'))
    if a.out == '-':
        sys.stdout.write(c)
    else:
        open(a.out, 'w').write(c)


if __name__ == '__main__':
    main()
