"""treegen — C12: reference semantics that ALSO produces the expected parse tree, plus the wrapper / harness texts.

For a grammar over identified rules (`sym<k>`, `named< ID, ... >`, recursive rules declared in `defs`) and a selector
(rule id -> 'store' | 'remove' | 'fold' | 'discard'; rules not listed are unselected) the generated C evaluates the PEG
semantics over the behaviour tables of harness/symtab.h and records, in pre-order, one node for every successful match of a
selected rule that survives:

  * transactional: whatever was recorded inside a rule that then fails (locally, by a vetoing action, or because an exception
    passes through it) is dropped again — so nothing of a backtracked alternative, a failed repetition round, a not_at<> body or
    an exception-aborted branch (try_catch_*_return_false) stays;
  * matches inside a succeeding at<> ARE recorded (tree building goes through the control, which at<> does not disable);
  * an unselected rule contributes no node, the nodes recorded inside it belong to the nearest selected ancestor;
  * the documented transformers (doc/Parse-Tree.md) are applied when the selected rule succeeds (harness/c12_check.h ts_close).

Spec functions have the signature  out_t f(u64 p, int a)  with a = actions enabled.
"""
import pegspec
from pegspec import E, parse, ival
import evgen

MODES = {'store': 0, 'remove': 1, 'fold': 2, 'discard': 3}
CXX_MODE = {'store': 'store_content', 'remove': 'remove_content', 'fold': 'fold_one', 'discard': 'discard_empty'}
PUBLIC = ('seq', 'sor', 'star', 'plus', 'opt', 'at', 'not_at', 'must', 'named', 'sym')   # rule types that get a node under the default selector


class TreeGen:
    """sel: {rule id: mode} | 'all' (default selector: every rule type spelled in the grammar gets a node, combinators get ids 200+);
    defs: {name: (rule id, body text)} recursive rules, unrolled maxrec levels; action: None | 'bool'"""

    def __init__(s, doc, sel, defs=None, maxrec=3, action=None):
        s.doc = doc
        s.sel = sel
        s.defs = {k: (v[0], parse(v[1])) for k, v in (defs or {}).items()}
        s.maxrec = maxrec
        s.action = action
        s.fns = {}
        s.order = []
        s.comb_ids = {}        # repr(expr) -> id of a combinator type under the default selector

    # ---- identities
    def rid(s, e):
        if e.name == 'sym':
            return ival(e.args[0])
        if e.name == 'named':
            return 100 + ival(e.args[0])
        if e.name in s.defs and not e.args:
            return s.defs[e.name][0]
        if s.sel == 'all' and e.name in PUBLIC:
            k = repr(e)
            if k not in s.comb_ids:
                s.comb_ids[k] = 200 + len(s.comb_ids)
            return s.comb_ids[k]
        return -1

    def mode(s, e):
        """transformer index if the rule is selected, else None"""
        r = s.rid(e)
        if r < 0:
            return None
        if s.sel == 'all':
            return 0
        m = s.sel.get(r)
        return MODES[m] if m else None

    def has_ref(s, e):
        if not isinstance(e, E):
            return False
        if e.name in s.defs and not e.args:
            return True
        return any(s.has_ref(a) for a in e.args)

    # ---- functions
    def fn(s, e, lvl=0):
        k = repr(e) + ('@%d' % lvl if s.has_ref(e) else '')
        if k in s.fns:
            return s.fns[k]
        name = 't%d' % len(s.fns)
        s.fns[k] = name
        body = s.body(e, lvl)
        # every rule is a transaction on the node list: a rule that does not succeed leaves nothing behind
        s.order.append('/* %s */\nstatic out_t %s_b(u64 p, int a) {\n%s\n}\n'
                       'static out_t %s(u64 p, int a) { unsigned sv = ts_n, sd = ts_depth; out_t r = %s_b(p, a); if (r.r != 1) ts_n = sv; ts_depth = sd; return r; }\n'
                       % (k, name, body, name, name))
        return name

    def frame(s, e, body_call):
        """identified rule: node (if selected) + attached action around the body"""
        r = s.rid(e)
        m = s.mode(e)
        L = []
        if m is not None:
            L.append('  unsigned i = ts_open(%d, p);' % r)
        L.append('  out_t b = %s;' % body_call)
        L.append('  if (b.r >= 2) return b;')
        L.append('  int ok = (b.r == 1);')
        if s.action == 'bool' and r >= 0:      # vf::act_bool is attached to every identified rule (sub-rules included)
            L.append('  if (ok && a) { int v = c12_veto(%d, p); if (v == 2) { out_t x = { 3, p, %d, p, p }; return x; } if (v == 0) ok = 0; }' % (r, 3000 + r))
        if s.action == 'void0' and r >= 0:     # vf::act0_void: a void apply0 cannot veto but it can throw (verdict asked with begin = 0)
            L.append('  if (ok && a) { int v = c12_veto(%d, 0); if (v == 2) { out_t x = { 3, p, %d, p, p }; return x; } }' % (r, 3000 + r))
        if m is not None:
            L.append('  if (ok) { ts_close(i, b.pos, %d); return b; }' % m)
        else:
            L.append('  if (ok) return b;')
        L.append('  return sp_fail(p, p);')
        return '\n'.join(L)

    def seqf(s, args, lvl):
        """the implicit sequence of a multi-argument rule: not a rule type of its own"""
        return s.fn(E('seq_', args), lvl)

    def body(s, e, lvl):
        n, a = e.name, e.args
        if n in s.defs and not a:
            if lvl >= s.maxrec:
                return '  return sp_div(p);'
            return s.frame(e, '%s(p, a)' % s.fn(s.defs[n][1], lvl + 1))
        if n == 'sym':
            return s.frame(e, 'sp_sym(%d, p)' % ival(a[0]))
        if n == 'named':
            return s.frame(e, '%s(p, a)' % s.seqf(a[1:], lvl))
        if s.sel == 'all' and n in PUBLIC:
            return s.frame(e, '%s(p, a)' % s.fn(E(n + '_', a), lvl))
        if n.endswith('_') and n[:-1] in PUBLIC:
            n = n[:-1]
        if n == 'success':
            return '  return sp_succ(p, p);'
        if n == 'failure':
            return '  return sp_fail(p, p);'
        if n == 'eof':
            return '  return p == sp_n ? sp_succ(p, p) : sp_fail(p, p);'
        if n == 'raise':
            return '  { out_t o = { 2, p, %d, p, p }; return o; }' % evgen.rid(a[0])
        if n == 'seq':
            if not a:
                return '  return sp_succ(p, p);'
            L = ['  u64 q = p; out_t x;']
            for y in a:
                L.append('  x = %s(q, a); if (x.r != 1) { if (x.r == 0) return sp_fail(p, p); return x; } q = x.pos;' % s.fn(y, lvl))
            L.append('  return sp_succ(q, q);')
            return '\n'.join(L)
        if n == 'sor':
            if not a:
                return '  return sp_fail(p, p);'
            L = ['  out_t x;']
            for y in a:
                L.append('  x = %s(p, a); if (x.r != 0) return x;' % s.fn(y, lvl))
            L.append('  return sp_fail(p, p);')
            return '\n'.join(L)
        if n == 'opt':
            return '  out_t x = %s(p, a); if (x.r == 0) return sp_succ(p, p); return x;' % s.seqf(a, lvl)
        if n == 'at':
            return '  out_t x = %s(p, 0); if (x.r == 1) return sp_succ(p, p); return x;' % s.seqf(a, lvl)
        if n == 'not_at':
            return '  out_t x = %s(p, 0); if (x.r == 1) return sp_fail(p, p); if (x.r == 0) return sp_succ(p, p); return x;' % s.seqf(a, lvl)
        if n in ('star', 'plus'):
            f = s.seqf(a, lvl)
            pre = ''
            if n == 'plus':
                pre = '  { out_t x = %s(p, a); if (x.r != 1) return x; q = x.pos; }\n' % f
            return ('  u64 q = p;\n' + pre +
                    '  for (unsigned i = 0; i <= SP_N + 1; ++i) { out_t x = %s(q, a);\n'
                    '    if (x.r == 0) return sp_succ(q, q); if (x.r != 1) return x; if (x.pos == q) return sp_div(q); q = x.pos; }\n'
                    '  return sp_div(q);' % f)
        if n == 'must' and s.sel == 'all':
            assert len(a) == 1
            return '  out_t x = %s(p, a); if (x.r == 0) { out_t o = { 2, p, %d, p, p }; return o; } return x;' % (s.fn(a[0], lvl), evgen.rid(a[0]))
        if n == 'tcrf':
            what = a[0].name
            f = s.fn(a[1], lvl)
            if what in ('void', 'any_type'):
                cond = 'x.r == 2 || x.r == 3'
            elif what.endswith('verif_exc'):
                cond = 'x.r == 2'
            elif what.endswith('foreign_exc'):
                cond = 'x.r == 3'
            else:
                cond = '0'
            return '  out_t x = %s(p, a); if (%s) return sp_fail(p, p); return x;' % (f, cond)
        # convenience rules: one documentation step, identified rules stay intact
        x = evgen.lower1(e, s.doc)
        return '  return %s(p, a);' % s.fn(x, lvl)

    def text(s):
        return '\n'.join(s.order)


# ------------------------------------------------------------------ static tables of the positional report

def level_off(maxch, d):
    return sum(maxch ** (k + 1) for k in range(d))


def slot_tables(maxch, maxd):
    par, kk, dep = [], [], []
    for d in range(maxd):
        for j in range(maxch ** (d + 1)):
            par.append(-1 if d == 0 else level_off(maxch, d - 1) + j // maxch)
            kk.append(j % maxch)
            dep.append(d)
    off = [level_off(maxch, d) for d in range(maxd + 1)]
    return par, kk, dep, off


# ------------------------------------------------------------------ texts

def rules_of(e, defs, out):
    """all identified rule types spelled in the grammar (C++ spelling -> expr), depth first"""
    if not isinstance(e, E):
        return
    for a in e.args:
        rules_of(a, defs, out)
    if e.name in ('named', 'sym') or (e.name in defs and not e.args):
        out.setdefault(repr(e), e)


WRAP = '''// generated wrapper TU — C12: the real parse_tree::parse<> on a grammar over symbolic sub-rules, custom node class, selector under test
#define C12_MAXCH %(maxch)d
#define C12_MAXD %(maxd)d
%(control)s
#include "c12_tree.hpp"
using namespace tao::pegtl;
using vf::sym;
using vf::named;
using vf::verif_exc;
using vf::foreign_exc;
%(preamble)s
using G = %(grammar)s;
%(rids)s
%(selector)s
using types = c12::typelist< %(types)s >;
C12_WRAP( w_tree, G, %(selname)s, %(action)s, types )
C12_WRAP_STACK( w_tree, G, %(selname)s, %(action)s )
'''


def wrapper_text(grammar, sel, defs, maxch, maxd, action=None, control=None):
    e = parse(grammar)
    pre = []
    pdefs = {k: (v[0], parse(v[1])) for k, v in (defs or {}).items()}
    for name, (rid, body) in pdefs.items():
        pre.append('struct %s : %s {};' % (name, repr(body)))
        pre.append('template<> struct vf::rid< %s > { static constexpr int value = %d; };' % (name, rid))
    rules = {}
    rules_of(e, pdefs, rules)
    for name, (rid, body) in pdefs.items():
        rules_of(body, pdefs, rules)
    groups = {}
    for k, x in rules.items():
        r = evgen.rid(x) if x.name in ('named', 'sym') else pdefs[x.name][0]
        m = sel.get(r)
        if m:
            groups.setdefault(m, []).append(k)
    parts = ['parse_tree::%s::on< %s >' % (CXX_MODE[m], ', '.join(v)) for m, v in sorted(groups.items())]
    selector = 'template< typename Rule > using sel = parse_tree::selector< Rule, %s >;' % ', '.join(parts)
    types = [k for v in groups.values() for k in v]
    act = 'vf::act_bool' if action == 'bool' else 'vf::act0_void' if action == 'void0' else 'tao::pegtl::nothing'
    return WRAP % {'maxch': maxch, 'maxd': maxd, 'preamble': '\n'.join(pre), 'grammar': repr(e), 'rids': '', 'selector': selector,
                   'types': ', '.join(types), 'selname': 'sel', 'action': act, 'control': ('#define C12_CONTROL vf::vmi_control' if control == 'mustif' else '') + ('\n#define C12_USER_STATE 1' if control == 'userstate' else '')}


def wrapper_text_all(grammar, gen, maxch, maxd):
    """default selector: ids 200+ for the combinator types, in the order the reference generator assigned them"""
    e = parse(grammar)
    rids = ['template<> struct vf::rid< %s > { static constexpr int value = %d; };' % (k, v) for k, v in gen.comb_ids.items()]
    types = list(gen.comb_ids.keys())
    rules = {}
    rules_of(e, {}, rules)
    types += list(rules.keys())
    return WRAP % {'maxch': maxch, 'maxd': maxd, 'preamble': '', 'grammar': repr(e), 'rids': '\n'.join(rids), 'selector': '',
                   'types': ', '.join(types), 'selname': 'tao::pegtl::parse_tree::internal::store_all', 'action': 'tao::pegtl::nothing', 'control': ''}


HARNESS = r'''/* generated harness — C12: tree returned by the real parse_tree::parse<> vs the surviving derivation of the selected rules */
#define SP_N %(N)d
#define SP_K %(K)d
#define SP_MAXRES %(maxres)d
#define C12_MAXCH %(maxch)d
#define C12_MAXD %(maxd)d
#define C12_MAXN %(maxn)d
#define C12_TOTAL %(total)d
#define C12_VETO_MAX %(vetomax)d
#include "verif.h"
#include "symtab.h"
static const int c12_par[C12_TOTAL] = { %(par)s };
static const unsigned c12_k[C12_TOTAL] = { %(k)s };
static const unsigned c12_dep[C12_TOTAL] = { %(dep)s };
static const unsigned long c12_off[C12_MAXD + 1] = { %(off)s };
#include "c12_check.h"

%(spec)s

static void harness(void) {
  sp_setup();
  c12_setup();
  ts_reset();
  out_t e = %(top)s(sp_start, 1);
  ASSUME(e.r != 4);           /* repetitions / recursion that make no progress or exceed the unrolled depth are outside the bound */
  ASSUME(!ts_over);           /* the reference needed at most C12_MAXN entries at any time */
  if (e.r != 1) ts_n = 0;
  int fit = ts_layout();
  ASSUME(fit);                /* at most C12_MAXCH children per node, C12_MAXD levels */
  u64 o[8 + C12_TOTAL], pl[8];
  pl[0] = pl[1] = pl[2] = 0;
  w_tree_plain(sp_buf, sp_n, sp_start, pl);
  ASSUME(!sp_exhausted);
  OBS(pl[0]); OBS(pl[1]); OBS(pl[2]);
  CHECK(pl[0] == (u64)e.r && (e.r != 1 || pl[1] == e.pos) && (e.r < 2 || (s64)pl[2] == (s64)e.id), "the plain parse follows the PEG reference");
#if !defined(VF_SPLIT) || defined(V_tree)
  c12_clear(o);
  w_tree(sp_buf, sp_n, sp_start, o);
  ASSUME(!sp_exhausted);
  c12_obs(o);
  c12_compare(o, e);
  c12_structure(o, %(lookahead)d);
  CHECK((o[0] == 1) == (pl[0] == 1), "a tree is returned if and only if the plain parse succeeds");
  CHECK(o[0] == pl[0] && o[1] == pl[1] && o[2] == pl[2], "result, cursor and exception of the tree-building parse equal those of the plain parse");
#endif
#if !defined(VF_SPLIT) || defined(V_stack)
  { /* the builder after the run: only the root is left; when the parse produced no tree nothing hangs below it */
    u64 st[8]; st[0] = st[1] = st[2] = st[3] = st[4] = st[5] = 0;
    w_tree_stack(sp_buf, sp_n, sp_start, st);
    ASSUME(!sp_exhausted);
    OBS(st[0]); OBS(st[1]); OBS(st[2]); OBS(st[3]); OBS(st[4]); OBS(st[5]);
    CHECK(st[0] == (u64)e.r && st[1] == pl[1] && st[2] == pl[2], "the spelled-out builder run has the result of the plain parse");
    CHECK(st[3] == 1 && st[5] == 1, "after the run exactly the root is left on the builder stack (every started frame was closed by success, failure or unwind)");
    if (e.r == 1) CHECK(st[4] == ts_rootn, "the root carries the top-level nodes");
    else CHECK(st[4] == 0, "after a local failure or an exception nothing hangs below the root");
  }
#endif
%(reach)s
}
'''


def harness_text(grammar, sel, doc, N, K, maxch, maxd, maxn, defs=None, maxrec=3, maxres=3, action=None, reach=(), lookahead=False):
    g = TreeGen(doc, sel, defs, maxrec=maxrec, action=action)
    top = g.fn(parse(grammar))
    par, kk, dep, off = slot_tables(maxch, maxd)
    rl = ['  REACH(%s, "%s");' % (c, m) for (c, m) in reach]
    text = HARNESS % {'N': N, 'K': K, 'maxres': maxres, 'maxch': maxch, 'maxd': maxd, 'maxn': maxn, 'total': len(par),
                      'vetomax': 2 if action in ('bool', 'void0') else 0,
                      'par': ', '.join(map(str, par)), 'k': ', '.join(map(str, kk)), 'dep': ', '.join(map(str, dep)), 'off': ', '.join(map(str, off)),
                      'spec': g.text(), 'top': top, 'lookahead': 1 if lookahead else 0, 'reach': '\n'.join(rl)}
    return text, g
