"""evplan — queries for the hook/action protocol harnesses (C04, C05, C08, C13)."""
import os
import vf
import evgen
import pegspec

WRAP_HEAD = '''// generated wrapper TU — protocol harness: real templates from /repo/include with logging control/actions
#include "common.hpp"
%(includes)s
using namespace tao::pegtl;
using vf::sym;
using vf::named;
using vf::pa;
using vf::pab;
using vf::verif_exc;
using vf::foreign_exc;
%(preamble)s
'''

AM = {'a': 'tao::pegtl::apply_mode::action', 'n': 'tao::pegtl::apply_mode::nothing'}   # mode tags: ar ao nr no
RM = {'r': 'tao::pegtl::rewind_mode::required', 'o': 'tao::pegtl::rewind_mode::optional'}

# config: tag -> (C++ action template, spec action kind, C++ control template, control has unwind, veto max)
CONFIGS = {
    'plain':   ('tao::pegtl::nothing', None,    'vf::lcontrol',    True,  0),
    'plain_nu': ('tao::pegtl::nothing', None,   'vf::lcontrol_nu', False, 0),
    'void':    ('vf::act_void',  'void',  'vf::lcontrol',    True, 2),
    'void_nu': ('vf::act_void',  'void',  'vf::lcontrol_nu', False, 2),
    'bool':    ('vf::act_bool',  'bool',  'vf::lcontrol',    True,  2),
    'bool_nu': ('vf::act_bool',  'bool',  'vf::lcontrol_nu', False, 2),
    'void0':   ('vf::act0_void', 'void0', 'vf::lcontrol',    True, 2),
    'bool0':   ('vf::act0_bool', 'bool0', 'vf::lcontrol',    True,  2),
    # sub-rules with the simple rule interface match( in ) (vf::syml): a different branch of match_no_control(); exceptions start inside a "leaf"
    'leaf':    ('tao::pegtl::nothing', None,    'vf::lcontrol',    True,  0),
    'leaf_bool': ('vf::act_bool',  'bool',  'vf::lcontrol',    True,  2),
    # the run is made from a destructor while an unrelated exception propagates (std::uncaught_exceptions() > 0)
    'unw':     ('tao::pegtl::nothing', None,    'vf::lcontrol',    True,  0),
    'unw_bool': ('vf::act_bool',  'bool',  'vf::lcontrol',    True,  2),
    'mustif':  ('tao::pegtl::nothing', None, 'vf::mi_control', True, 0),
    'mustif_bool': ('vf::act_bool', 'bool', 'vf::mi_control', True, 2),
    'statectl': ('tao::pegtl::nothing', None, 'vf::sc_control', True, 0),
    'statectl_bool': ('vf::act_bool', 'bool', 'vf::sc_control', True, 2),
    'statectl_void0': ('vf::act0_void', 'void0', 'vf::sc_control', True, 2),
    'statectl_rot': ('vf::act_bool', 'bool', 'vf::scr_control', True, 2),
    'rmfirst': ('vf::act_bool', 'bool', 'vf::rf_control', True, 2),
    'rot0':    ('vf::act_bool', 'bool', 'vf::rot0_control', True, 2),
}
ROF = {'mustif': (1, 101), 'mustif_bool': (1, 101)}


def queries(ctx, prefix, grammars, configs, N, K=3, modes=('ar', 'ao', 'nr'), includes=(), preamble='', action_unwind=True, known=None, split_modes=False,
            maxres=3, evmax=24, lazy=False):
    doc = pegspec.Doc(os.path.join(vf.REPO, 'doc', 'Rule-Reference.md'))
    qs = []
    for (gname, gtext, opts) in grammars:
        for tag in configs:
            act, kind, ctl, unw, vmax = CONFIGS[tag]
            wl = []
            wrappers = []
            for m in modes:
                w = 'w_%s_%s_%s' % (gname, tag, m)
                cxx = gtext.replace('sym<', 'vf::syml<') if tag.startswith('leaf') else gtext
                wl.append('%s( %s, %s, %s, %s, %s, %s%s )' % ('VF_WRAP_HS2' if tag == 'statectl_rot' else 'VF_WRAP_OS' if tag == 'rmfirst' else 'VF_WRAP_HS' if tag.startswith('statectl') else 'VF_WRAP_UNW' if tag.startswith('unw') else 'VF_WRAP', w, cxx, AM[m[0]], RM[m[1]], act, ctl, ', vf::lazy_in' if lazy else ''))
                wrappers.append((w, 1 if m[0] == 'a' else 0, 1 if m[1] == 'r' else 0, m))
            text = WRAP_HEAD % {'includes': '\n'.join('#include <%s>' % i for i in includes), 'preamble': preamble} + '\n'.join(wl) + '\n'
            unit = ctx.unit('%s_%s_%s%s' % (prefix, gname, tag, '_lazy' if lazy else ''), text=text)
            n = opts.get('N', N)
            reach = list(opts.get('reach', []))
            em = opts.get('evmax', evmax)
            h = ctx.write('h_%s_%s%s.c' % (gname, tag, '_lazy' if lazy else ''),
                          evgen.harness_text(gtext, wrappers, n, K, doc, action=kind, unwind=unw, maxres=opts.get('maxres', maxres), vetomax=vmax,
                                             evmax=em, action_unwind=action_unwind, reach=reach, lazy=lazy, rof=ROF.get(tag, ()), statectl=tag.startswith('statectl')))
            for m in modes:
                qs.append(vf.Query('%s%s/%s/%s' % (gname, '.lazy' if lazy else '', tag, m), unit, h, unwind=n + 3, mem_gb=opts.get('mem_gb', 2),
                                   unwindset=['ev_setup.1:13', 'ev_setup.0:%d' % (n + 2), 'ev_compare.0:%d' % (em + 1)],
                                   cbmc_defines={'VF_SPLIT': 1, 'V_' + m: 1}, defines={'SP_LEAFSYM': 1} if tag.startswith('leaf') else {},
                                   bounds={'N': n, 'K': K, 'grammar': gtext, 'action': act, 'control': ctl, 'mode': m, 'max_events': em, 'input': 'lazy' if lazy else 'eager'},
                                   known=opts.get('known', known),
                                   note='hook/action event log of the real run == reference protocol'))
    return qs
