#!/bin/sh
# repository's own test-suite with the verification guard OFF (no hooks are needed; TAO_PEGTL_VERIF is never defined here)
set -e
if [ ! -f /repo/_build/build.ninja ] && [ ! -f /repo/_build/Makefile ]; then cmake -G Ninja -S /repo -B /repo/_build >/dev/null; fi
cmake --build /repo/_build -j"$(nproc)" >/dev/null
ctest --test-dir /repo/_build -j8 --timeout 900 "$@"
